//! Fixture types for the derive macros of qbice_serialize_derive (C12, DESIGN 5 item 4).
//! The REAL proc-macro crate from /repo expands these on every run
//! (`cargo +nightly rustc -- -Zunpretty=expanded`); the generated impls are then verified
//! against the same Encode / Decode contracts as the hand-written impls.
#![allow(dead_code)]
pub use qbice_serialize::{Decode, Decoder, Encode, Encoder, Plugin};
pub mod session {
    pub use qbice_serialize::session::Session;
}

#[derive(Encode, Decode, Debug, PartialEq, Clone)]
#[serialize_crate(crate)]
pub struct Named {
    pub a: u32,
    pub b: i64,
    pub c: bool,
}

#[derive(Encode, Decode, Debug, PartialEq, Clone)]
#[serialize_crate(crate)]
pub struct Tuple(pub u8, pub u64, pub i16);

#[derive(Encode, Decode, Debug, PartialEq, Clone)]
#[serialize_crate(crate)]
pub struct Unit;

#[derive(Encode, Decode, Debug, PartialEq, Clone)]
#[serialize_crate(crate)]
pub struct Generic<T> {
    pub x: T,
    pub y: u16,
}

#[derive(Encode, Decode, Debug, PartialEq, Clone)]
#[serialize_crate(crate)]
pub struct SkipNamed {
    #[serialize(skip)]
    pub a: u32,
    pub b: u16,
    #[serialize(skip)]
    pub c: u8,
    pub d: u64,
}

#[derive(Encode, Decode, Debug, PartialEq, Clone)]
#[serialize_crate(crate)]
pub struct SkipTuple(#[serialize(skip)] pub u8, pub u16, pub u32, #[serialize(skip)] pub u64, pub i8);

#[derive(Encode, Decode, Debug, PartialEq, Clone)]
#[serialize_crate(crate)]
pub enum Shape {
    A,
    B(u32, i16),
    C { x: u64, y: bool },
    D(#[serialize(skip)] u8, u16),
    F {
        #[serialize(skip)]
        s: u32,
        t: u8,
    },
}

#[derive(Encode, Decode, Debug, PartialEq, Clone)]
#[serialize_crate(crate)]
pub enum Either<T, U> {
    L(T),
    R(U),
    N,
}
