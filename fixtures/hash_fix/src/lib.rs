//! Fixture types for the StableHash derive macro (C13). Expanded on every run by the REAL proc-macro crate from /repo.
#![allow(dead_code)]
pub use qbice_stable_hash::{StableHash, StableHasher};

#[derive(StableHash, Debug, Clone, PartialEq)]
#[stable_hash_crate(crate)]
pub struct HNamed {
    pub a: u32,
    pub b: i64,
    pub c: bool,
}

#[derive(StableHash, Debug, Clone, PartialEq)]
#[stable_hash_crate(crate)]
pub struct HTuple(pub u8, pub u64, pub i16);

#[derive(StableHash, Debug, Clone, PartialEq)]
#[stable_hash_crate(crate)]
pub struct HUnit;

#[derive(StableHash, Debug, Clone, PartialEq)]
#[stable_hash_crate(crate)]
pub struct HGeneric<T> {
    pub x: T,
    pub y: u16,
}

#[derive(StableHash, Debug, Clone, PartialEq)]
#[stable_hash_crate(crate)]
pub enum HShape {
    A,
    B(u32, i16),
    C { x: u64, y: bool },
}

#[derive(StableHash, Debug, Clone, PartialEq)]
#[stable_hash_crate(crate)]
pub enum HEither<T, U> {
    L(T),
    R(U),
    N,
}
