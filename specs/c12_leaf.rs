// C12 — the Postcard leaf codecs against the trait contracts of `Encoder` / `Decoder` (crates/serialize/src/postcard.rs):
// closes the link between the generic impls (c12_generic.rs) and the concrete encoder/decoder, for EVERY tail.
//@ rule R14
#![feature(allocator_api)]
#![allow(unused_imports, unused_variables, dead_code, non_snake_case)]
use vstd::prelude::*;
use vstd::string::StringSliceAdditionalSpecFns;
use vstd::std_specs::convert::*;
use std::io;
use std::rc::Rc;
use std::sync::Arc;
verus! {

global size_of usize == 8;

//@ include inc/c12_core.rs

//@ const crates/serialize/src/postcard.rs :: MAX_VARINT_U16_BYTES
//@ const crates/serialize/src/postcard.rs :: MAX_VARINT_U32_BYTES
//@ const crates/serialize/src/postcard.rs :: MAX_VARINT_U64_BYTES
//@ const crates/serialize/src/postcard.rs :: MAX_VARINT_U128_BYTES

pub proof fn lemma_leb_small(v: nat)
    requires v < 0x80
    ensures leb(v) =~= seq![v as u8]
{
}
pub proof fn lemma_leb_step(v: nat)
    requires v >= 0x80
    ensures leb(v) =~= seq![((v % 0x80) + 0x80) as u8] + leb(v / 0x80)
{
}

//@ fn crates/serialize/src/postcard.rs :: encode_varint_u16
//@ ret r
//@ sig
        ensures 1 <= r <= 3, final(buf)@.subrange(0, r as int) =~= leb(value as nat)
//@ head
        let ghost v0 = value;
        proof { assert(buf@.subrange(0, 0) =~= Seq::<u8>::empty()); assert(((0xFFFFu16) >> 0u32) == 0xFFFFu16) by (bit_vector); }
//@ loop 0 inv
            invariant
                0 <= i <= 2,
                leb(v0 as nat) =~= buf@.subrange(0, i as int) + leb(value as nat),
                value <= (0xFFFFu16 >> ((7 * i) as u32)),
            decreases value,
//@ loop 0 head
            let ghost old_buf = buf@;
            let ghost old_value = value;
            let ghost old_i = i;
            proof {
                assert(((value as u8) | 0x80u8) == ((value % 0x80) + 0x80) as u8) by (bit_vector);
                assert(value >> 7 == value / 0x80) by (bit_vector);
                let s = (7 * i) as u32;
                assert(value >= 0x80 && value <= (0xFFFFu16 >> s) && s <= 14 && s % 7 == 0 ==> s < 14) by (bit_vector);
                assert(value <= (0xFFFFu16 >> s) && s < 14 ==> (value >> 7) <= (0xFFFFu16 >> ((s + 7) as u32))) by (bit_vector);
                lemma_leb_step(value as nat);
            }
//@ loop 0 tail
            proof {
                assert(buf@.subrange(0, i as int) =~= old_buf.subrange(0, old_i as int).push(((old_value % 0x80) + 0x80) as u8));
                assert(buf@.subrange(0, i as int) + leb(value as nat) =~= old_buf.subrange(0, old_i as int) + leb(old_value as nat));
            }
//@ loop 0 after
        proof { lemma_leb_small(value as nat); }
//@ end

//@ fn crates/serialize/src/postcard.rs :: encode_varint_u32
//@ ret r
//@ sig
        ensures 1 <= r <= 5, final(buf)@.subrange(0, r as int) =~= leb(value as nat)
//@ head
        let ghost v0 = value;
        proof { assert(buf@.subrange(0, 0) =~= Seq::<u8>::empty()); assert(((0xFFFF_FFFFu32) >> 0u32) == 0xFFFF_FFFFu32) by (bit_vector); }
//@ loop 0 inv
            invariant
                0 <= i <= 4,
                leb(v0 as nat) =~= buf@.subrange(0, i as int) + leb(value as nat),
                value <= (0xFFFF_FFFFu32 >> ((7 * i) as u32)),
            decreases value,
//@ loop 0 head
            let ghost old_buf = buf@;
            let ghost old_value = value;
            let ghost old_i = i;
            proof {
                assert(((value as u8) | 0x80u8) == ((value % 0x80) + 0x80) as u8) by (bit_vector);
                assert(value >> 7 == value / 0x80) by (bit_vector);
                let s = (7 * i) as u32;
                assert(value >= 0x80 && value <= (0xFFFF_FFFFu32 >> s) && s <= 28 && s % 7 == 0 ==> s < 28) by (bit_vector);
                assert(value <= (0xFFFF_FFFFu32 >> s) && s < 28 ==> (value >> 7) <= (0xFFFF_FFFFu32 >> ((s + 7) as u32))) by (bit_vector);
                lemma_leb_step(value as nat);
            }
//@ loop 0 tail
            proof {
                assert(buf@.subrange(0, i as int) =~= old_buf.subrange(0, old_i as int).push(((old_value % 0x80) + 0x80) as u8));
                assert(buf@.subrange(0, i as int) + leb(value as nat) =~= old_buf.subrange(0, old_i as int) + leb(old_value as nat));
            }
//@ loop 0 after
        proof { lemma_leb_small(value as nat); }
//@ end

//@ fn crates/serialize/src/postcard.rs :: encode_varint_u64
//@ ret r
//@ sig
        ensures 1 <= r <= 10, final(buf)@.subrange(0, r as int) =~= leb(value as nat)
//@ head
        let ghost v0 = value;
        proof { assert(buf@.subrange(0, 0) =~= Seq::<u8>::empty()); assert(((0xFFFF_FFFF_FFFF_FFFFu64) >> 0u32) == 0xFFFF_FFFF_FFFF_FFFFu64) by (bit_vector); }
//@ loop 0 inv
            invariant
                0 <= i <= 9,
                leb(v0 as nat) =~= buf@.subrange(0, i as int) + leb(value as nat),
                value <= (0xFFFF_FFFF_FFFF_FFFFu64 >> ((7 * i) as u32)),
            decreases value,
//@ loop 0 head
            let ghost old_buf = buf@;
            let ghost old_value = value;
            let ghost old_i = i;
            proof {
                assert(((value as u8) | 0x80u8) == ((value % 0x80) + 0x80) as u8) by (bit_vector);
                assert(value >> 7 == value / 0x80) by (bit_vector);
                let s = (7 * i) as u32;
                assert(value >= 0x80 && value <= (0xFFFF_FFFF_FFFF_FFFFu64 >> s) && s <= 63 && s % 7 == 0 ==> s < 63) by (bit_vector);
                assert(value <= (0xFFFF_FFFF_FFFF_FFFFu64 >> s) && s < 63 ==> (value >> 7) <= (0xFFFF_FFFF_FFFF_FFFFu64 >> ((s + 7) as u32))) by (bit_vector);
                lemma_leb_step(value as nat);
            }
//@ loop 0 tail
            proof {
                assert(buf@.subrange(0, i as int) =~= old_buf.subrange(0, old_i as int).push(((old_value % 0x80) + 0x80) as u8));
                assert(buf@.subrange(0, i as int) + leb(value as nat) =~= old_buf.subrange(0, old_i as int) + leb(old_value as nat));
            }
//@ loop 0 after
        proof { lemma_leb_small(value as nat); }
//@ end

//@ fn crates/serialize/src/postcard.rs :: encode_varint_u128
//@ ret r
//@ sig
        ensures 1 <= r <= 19, final(buf)@.subrange(0, r as int) =~= leb(value as nat)
//@ head
        let ghost v0 = value;
        proof { assert(buf@.subrange(0, 0) =~= Seq::<u8>::empty()); assert(((0xFFFF_FFFF_FFFF_FFFF_FFFF_FFFF_FFFF_FFFFu128) >> 0u32) == 0xFFFF_FFFF_FFFF_FFFF_FFFF_FFFF_FFFF_FFFFu128) by (bit_vector); }
//@ loop 0 inv
            invariant
                0 <= i <= 18,
                leb(v0 as nat) =~= buf@.subrange(0, i as int) + leb(value as nat),
                value <= (0xFFFF_FFFF_FFFF_FFFF_FFFF_FFFF_FFFF_FFFFu128 >> ((7 * i) as u32)),
            decreases value,
//@ loop 0 head
            let ghost old_buf = buf@;
            let ghost old_value = value;
            let ghost old_i = i;
            proof {
                assert(((value as u8) | 0x80u8) == ((value % 0x80) + 0x80) as u8) by (bit_vector);
                assert(value >> 7 == value / 0x80) by (bit_vector);
                let s = (7 * i) as u32;
                assert(value >= 0x80 && value <= (0xFFFF_FFFF_FFFF_FFFF_FFFF_FFFF_FFFF_FFFFu128 >> s) && s <= 126 && s % 7 == 0 ==> s < 126) by (bit_vector);
                assert(value <= (0xFFFF_FFFF_FFFF_FFFF_FFFF_FFFF_FFFF_FFFFu128 >> s) && s < 126 ==> (value >> 7) <= (0xFFFF_FFFF_FFFF_FFFF_FFFF_FFFF_FFFF_FFFFu128 >> ((s + 7) as u32))) by (bit_vector);
                lemma_leb_step(value as nat);
            }
//@ loop 0 tail
            proof {
                assert(buf@.subrange(0, i as int) =~= old_buf.subrange(0, old_i as int).push(((old_value % 0x80) + 0x80) as u8));
                assert(buf@.subrange(0, i as int) + leb(value as nat) =~= old_buf.subrange(0, old_i as int) + leb(old_value as nat));
            }
//@ loop 0 after
        proof { lemma_leb_small(value as nat); }
//@ end


// ---------------------------------------------------------------- interface stand-ins for std::io::{Write, Read}
/// a writer that appends (as `Vec<u8>` / `Cursor<Vec<u8>>` do)
pub trait Write {
    spec fn written(&self) -> Seq<u8>;
    fn write_all(&mut self, buf: &[u8]) -> (r: io::Result<()>)
        ensures r is Ok ==> final(self).written() =~= old(self).written() + buf@;
}
/// a RELIABLE in-memory reader (as `impl Read for &[u8]` / `Cursor`): read_exact succeeds iff enough bytes remain
/// (what it leaves behind after a failure is unspecified, as in std)
pub trait Read {
    spec fn remaining(&self) -> Seq<u8>;
    fn read_exact(&mut self, buf: &mut [u8]) -> (r: io::Result<()>)
        ensures
            final(buf)@.len() == old(buf)@.len(),
            r is Ok <==> old(buf)@.len() <= old(self).remaining().len(),
            r is Ok ==> (final(buf)@ =~= old(self).remaining().subrange(0, old(buf)@.len() as int)
                && final(self).remaining() =~= tail_of(old(self).remaining(), old(buf)@.len() as int));
}

//@ struct crates/serialize/src/postcard.rs :: PostcardEncoder
//@ struct crates/serialize/src/postcard.rs :: PostcardDecoder

// ---------------------------------------------------------------- zigzag
//@ fn crates/serialize/src/postcard.rs :: zigzag_encode_i16
//@ ret r
//@ sig
        ensures r as nat == zz(value as int)
//@ head
        proof {
            assert(((value << 1) ^ (value >> 15)) as u16 as int == (if value >= 0 { 2 * (value as int) } else { -2 * (value as int) - 1 })) by (bit_vector);
        }
//@ end
//@ fn crates/serialize/src/postcard.rs :: zigzag_decode_i16
//@ ret r
//@ sig
        ensures zz(r as int) == value as nat
//@ head
        proof {
            assert((value & 1) <= 1) by (bit_vector);
            assert((value >> 1) <= 0x7fffu16) by (bit_vector);
            let a = (value >> 1) as i16;
            let b = (value & 1) as i16;
            assert(b == 0 || b == 1);
            assert(a >= 0);
            assert(value & 1 == 0 ==> value == 2 * (value >> 1)) by (bit_vector);
            assert(value & 1 == 1 ==> value == 2 * (value >> 1) + 1) by (bit_vector);
            assert((a ^ 0i16) == a) by (bit_vector);
            assert((a ^ -1i16) == -a - 1) by (bit_vector) requires a >= 0;
        }
//@ end
//@ fn crates/serialize/src/postcard.rs :: zigzag_encode_i32
//@ ret r
//@ sig
        ensures r as nat == zz(value as int)
//@ head
        proof {
            assert(((value << 1) ^ (value >> 31)) as u32 as int == (if value >= 0 { 2 * (value as int) } else { -2 * (value as int) - 1 })) by (bit_vector);
        }
//@ end
//@ fn crates/serialize/src/postcard.rs :: zigzag_decode_i32
//@ ret r
//@ sig
        ensures zz(r as int) == value as nat
//@ head
        proof {
            assert((value & 1) <= 1) by (bit_vector);
            assert((value >> 1) <= 0x7fff_ffffu32) by (bit_vector);
            let a = (value >> 1) as i32;
            let b = (value & 1) as i32;
            assert(b == 0 || b == 1);
            assert(a >= 0);
            assert(value & 1 == 0 ==> value == 2 * (value >> 1)) by (bit_vector);
            assert(value & 1 == 1 ==> value == 2 * (value >> 1) + 1) by (bit_vector);
            assert((a ^ 0i32) == a) by (bit_vector);
            assert((a ^ -1i32) == -a - 1) by (bit_vector) requires a >= 0;
        }
//@ end
//@ fn crates/serialize/src/postcard.rs :: zigzag_encode_i64
//@ ret r
//@ sig
        ensures r as nat == zz(value as int)
//@ head
        proof {
            assert(((value << 1) ^ (value >> 63)) as u64 as int == (if value >= 0 { 2 * (value as int) } else { -2 * (value as int) - 1 })) by (bit_vector);
        }
//@ end
//@ fn crates/serialize/src/postcard.rs :: zigzag_decode_i64
//@ ret r
//@ sig
        ensures zz(r as int) == value as nat
//@ head
        proof {
            assert((value & 1) <= 1) by (bit_vector);
            assert((value >> 1) <= 0x7fff_ffff_ffff_ffffu64) by (bit_vector);
            let a = (value >> 1) as i64;
            let b = (value & 1) as i64;
            assert(b == 0 || b == 1);
            assert(a >= 0);
            assert(value & 1 == 0 ==> value == 2 * (value >> 1)) by (bit_vector);
            assert(value & 1 == 1 ==> value == 2 * (value >> 1) + 1) by (bit_vector);
            assert((a ^ 0i64) == a) by (bit_vector);
            assert((a ^ -1i64) == -a - 1) by (bit_vector) requires a >= 0;
        }
//@ end
//@ fn crates/serialize/src/postcard.rs :: zigzag_encode_i128
//@ ret r
//@ sig
        ensures r as nat == zz(value as int)
//@ head
        proof {
            assert(((value << 1) ^ (value >> 127)) as u128 as int == (if value >= 0 { 2 * (value as int) } else { -2 * (value as int) - 1 })) by (bit_vector);
        }
//@ end
//@ fn crates/serialize/src/postcard.rs :: zigzag_decode_i128
//@ ret r
//@ sig
        ensures zz(r as int) == value as nat
//@ head
        proof {
            assert((value & 1) <= 1) by (bit_vector);
            assert((value >> 1) <= 0x7fff_ffff_ffff_ffff_ffff_ffff_ffff_ffffu128) by (bit_vector);
            let a = (value >> 1) as i128;
            let b = (value & 1) as i128;
            assert(b == 0 || b == 1);
            assert(a >= 0);
            assert(value & 1 == 0 ==> value == 2 * (value >> 1)) by (bit_vector);
            assert(value & 1 == 1 ==> value == 2 * (value >> 1) + 1) by (bit_vector);
            assert((a ^ 0i128) == a) by (bit_vector);
            assert((a ^ -1i128) == -a - 1) by (bit_vector) requires a >= 0;
        }
//@ end

// ---------------------------------------------------------------- the encoder: every emit_* satisfies the Encoder trait contract
//@ impl crates/serialize/src/postcard.rs :: impl<W: Write> Encoder for PostcardEncoder<W>
//@ extra
    open spec fn out(&self) -> Seq<u8> { self.writer.written() }
//@ member emit_u8
//@ member emit_u16
//@ member emit_u32
//@ member emit_u64
//@ member emit_u128
//@ member emit_usize
//@ member emit_i8
//@ member emit_i16
//@ member emit_i32
//@ member emit_i64
//@ member emit_i128
//@ member emit_isize
//@ member emit_raw_bytes
//@ member emit_char
//@ end


// ---------------------------------------------------------------- the decoder
/// one step of the LEB128 reader, as bit-vector facts (w = v >> s is the part of v not yet read)
pub proof fn lemma_rd_u16(v: u16, s: u16, res: u16, b: u8)
    requires s < 16, res == v & (((1u16 << s) - 1) as u16)
    ensures
        (v >> s) < 128 && b == (v >> s) as u8 ==> (b & 0x80 == 0 && (res | (((b & 0x7f) as u16) << s)) == v),
        (v >> s) >= 128 && b == ((v >> s) % 128 + 128) as u8 ==> (b & 0x80 != 0 && s + 7 < 16
            && (res | (((b & 0x7f) as u16) << s)) == v & (((1u16 << ((s + 7) as u16)) - 1) as u16)
            && (v >> s) / 128 == v >> ((s + 7) as u16)),
{
    assert(s < 16 && res == v & (((1u16 << s) - 1) as u16) ==> (
        ((v >> s) < 128 && b == (v >> s) as u8 ==> (b & 0x80 == 0 && (res | (((b & 0x7f) as u16) << s)) == v))
        && ((v >> s) >= 128 && b == ((v >> s) % 128 + 128) as u8 ==> (b & 0x80 != 0 && s + 7 < 16
            && (res | (((b & 0x7f) as u16) << s)) == v & (((1u16 << ((s + 7) as u16)) - 1) as u16)
            && (v >> s) / 128 == v >> ((s + 7) as u16))))) by (bit_vector);
}
pub proof fn lemma_rd_u32(v: u32, s: u32, res: u32, b: u8)
    requires s < 32, res == v & (((1u32 << s) - 1) as u32)
    ensures
        (v >> s) < 128 && b == (v >> s) as u8 ==> (b & 0x80 == 0 && (res | (((b & 0x7f) as u32) << s)) == v),
        (v >> s) >= 128 && b == ((v >> s) % 128 + 128) as u8 ==> (b & 0x80 != 0 && s + 7 < 32
            && (res | (((b & 0x7f) as u32) << s)) == v & (((1u32 << ((s + 7) as u32)) - 1) as u32)
            && (v >> s) / 128 == v >> ((s + 7) as u32)),
{
    assert(s < 32 && res == v & (((1u32 << s) - 1) as u32) ==> (
        ((v >> s) < 128 && b == (v >> s) as u8 ==> (b & 0x80 == 0 && (res | (((b & 0x7f) as u32) << s)) == v))
        && ((v >> s) >= 128 && b == ((v >> s) % 128 + 128) as u8 ==> (b & 0x80 != 0 && s + 7 < 32
            && (res | (((b & 0x7f) as u32) << s)) == v & (((1u32 << ((s + 7) as u32)) - 1) as u32)
            && (v >> s) / 128 == v >> ((s + 7) as u32))))) by (bit_vector);
}
pub proof fn lemma_rd_u64(v: u64, s: u64, res: u64, b: u8)
    requires s < 64, res == v & (((1u64 << s) - 1) as u64)
    ensures
        (v >> s) < 128 && b == (v >> s) as u8 ==> (b & 0x80 == 0 && (res | (((b & 0x7f) as u64) << s)) == v),
        (v >> s) >= 128 && b == ((v >> s) % 128 + 128) as u8 ==> (b & 0x80 != 0 && s + 7 < 64
            && (res | (((b & 0x7f) as u64) << s)) == v & (((1u64 << ((s + 7) as u64)) - 1) as u64)
            && (v >> s) / 128 == v >> ((s + 7) as u64)),
{
    assert(s < 64 && res == v & (((1u64 << s) - 1) as u64) ==> (
        ((v >> s) < 128 && b == (v >> s) as u8 ==> (b & 0x80 == 0 && (res | (((b & 0x7f) as u64) << s)) == v))
        && ((v >> s) >= 128 && b == ((v >> s) % 128 + 128) as u8 ==> (b & 0x80 != 0 && s + 7 < 64
            && (res | (((b & 0x7f) as u64) << s)) == v & (((1u64 << ((s + 7) as u64)) - 1) as u64)
            && (v >> s) / 128 == v >> ((s + 7) as u64))))) by (bit_vector);
}
pub proof fn lemma_rd_u128(v: u128, s: u128, res: u128, b: u8)
    requires s < 128, res == v & (((1u128 << s) - 1) as u128)
    ensures
        (v >> s) < 128 && b == (v >> s) as u8 ==> (b & 0x80 == 0 && (res | (((b & 0x7f) as u128) << s)) == v),
        (v >> s) >= 128 && b == ((v >> s) % 128 + 128) as u8 ==> (b & 0x80 != 0 && s + 7 < 128
            && (res | (((b & 0x7f) as u128) << s)) == v & (((1u128 << ((s + 7) as u128)) - 1) as u128)
            && (v >> s) / 128 == v >> ((s + 7) as u128)),
{
    assert(s < 128 && res == v & (((1u128 << s) - 1) as u128) ==> (
        ((v >> s) < 128 && b == (v >> s) as u8 ==> (b & 0x80 == 0 && (res | (((b & 0x7f) as u128) << s)) == v))
        && ((v >> s) >= 128 && b == ((v >> s) % 128 + 128) as u8 ==> (b & 0x80 != 0 && s + 7 < 128
            && (res | (((b & 0x7f) as u128) << s)) == v & (((1u128 << ((s + 7) as u128)) - 1) as u128)
            && (v >> s) / 128 == v >> ((s + 7) as u128))))) by (bit_vector);
}

//@ impl crates/serialize/src/postcard.rs :: impl<R: Read> PostcardDecoder<R>
//@ extra
    pub open spec fn rest_(&self) -> Seq<u8> { self.reader.remaining() }
//@ member read_byte
//@ ret r
//@ sig
        ensures match r {
            Ok(b) => old(self).rest_().len() > 0 && b == old(self).rest_()[0] && final(self).rest_() =~= old(self).rest_().skip(1),
            Err(_) => old(self).rest_().len() == 0,
        }
//@ member read_varint_u16
//@ ret r
//@ sig
        ensures reads_exact::<u16>(old(self).rest_(), r, final(self).rest_())
//@ head
        let ghost before = self.rest_();
        proof {
            assert forall|v: u16, tail: Seq<u8>| #![trigger v.bytes() + tail] before == v.bytes() + tail implies
                0 == v & (((1u16 << 0u16) - 1) as u16) && (v >> 0u16) == v by {
                assert(0 == v & (((1u16 << 0u16) - 1) as u16) && (v >> 0u16) == v) by (bit_vector);
            }
        }
//@ loop 0 inv
            invariant
                before == old(self).rest_(),
                0 <= shift as int <= 23,
                forall|v: u16, tail: Seq<u8>| #![trigger v.bytes() + tail] before == v.bytes() + tail ==> (
                    (shift as int) < 16
                    && self.rest_() == leb((v >> (shift as u16)) as nat) + tail
                    && result == v & (((1u16 << (shift as u16)) - 1) as u16)),
            decreases self.rest_().len()
//@ loop 0 head
            let ghost r0 = self.rest_();
            proof {
                assert forall|v: u16, tail: Seq<u8>| #![trigger v.bytes() + tail] before == v.bytes() + tail implies ({
                    let w = v >> (shift as u16);
                    &&& r0.len() >= 1
                    &&& w < 128 ==> (r0[0] & 0x80 == 0 && (result | (((r0[0] & 0x7f) as u16) << (shift as u16))) == v && r0.skip(1) =~= tail)
                    &&& w >= 128 ==> (r0[0] & 0x80 != 0 && shift as int + 7 < 16
                        && (result | (((r0[0] & 0x7f) as u16) << (shift as u16))) == v & (((1u16 << ((shift as int + 7) as u16)) - 1) as u16)
                        && r0.skip(1) =~= leb((v >> ((shift as int + 7) as u16)) as nat) + tail)
                }) by {
                    let w = v >> (shift as u16);
                    lemma_rd_u16(v, shift as u16, result, r0[0]);
                    if w < 128 { lemma_leb_small(w as nat); } else { lemma_leb_step(w as nat); }
                }
            }
//@ member read_varint_u32
//@ ret r
//@ sig
        ensures reads_exact::<u32>(old(self).rest_(), r, final(self).rest_())
//@ head
        let ghost before = self.rest_();
        proof {
            assert forall|v: u32, tail: Seq<u8>| #![trigger v.bytes() + tail] before == v.bytes() + tail implies
                0 == v & (((1u32 << 0u32) - 1) as u32) && (v >> 0u32) == v by {
                assert(0 == v & (((1u32 << 0u32) - 1) as u32) && (v >> 0u32) == v) by (bit_vector);
            }
        }
//@ loop 0 inv
            invariant
                before == old(self).rest_(),
                0 <= shift as int <= 39,
                forall|v: u32, tail: Seq<u8>| #![trigger v.bytes() + tail] before == v.bytes() + tail ==> (
                    (shift as int) < 32
                    && self.rest_() == leb((v >> (shift as u32)) as nat) + tail
                    && result == v & (((1u32 << (shift as u32)) - 1) as u32)),
            decreases self.rest_().len()
//@ loop 0 head
            let ghost r0 = self.rest_();
            proof {
                assert forall|v: u32, tail: Seq<u8>| #![trigger v.bytes() + tail] before == v.bytes() + tail implies ({
                    let w = v >> (shift as u32);
                    &&& r0.len() >= 1
                    &&& w < 128 ==> (r0[0] & 0x80 == 0 && (result | (((r0[0] & 0x7f) as u32) << (shift as u32))) == v && r0.skip(1) =~= tail)
                    &&& w >= 128 ==> (r0[0] & 0x80 != 0 && shift as int + 7 < 32
                        && (result | (((r0[0] & 0x7f) as u32) << (shift as u32))) == v & (((1u32 << ((shift as int + 7) as u32)) - 1) as u32)
                        && r0.skip(1) =~= leb((v >> ((shift as int + 7) as u32)) as nat) + tail)
                }) by {
                    let w = v >> (shift as u32);
                    lemma_rd_u32(v, shift as u32, result, r0[0]);
                    if w < 128 { lemma_leb_small(w as nat); } else { lemma_leb_step(w as nat); }
                }
            }
//@ member read_varint_u64
//@ ret r
//@ sig
        ensures reads_exact::<u64>(old(self).rest_(), r, final(self).rest_())
//@ head
        let ghost before = self.rest_();
        proof {
            assert forall|v: u64, tail: Seq<u8>| #![trigger v.bytes() + tail] before == v.bytes() + tail implies
                0 == v & (((1u64 << 0u64) - 1) as u64) && (v >> 0u64) == v by {
                assert(0 == v & (((1u64 << 0u64) - 1) as u64) && (v >> 0u64) == v) by (bit_vector);
            }
        }
//@ loop 0 inv
            invariant
                before == old(self).rest_(),
                0 <= shift as int <= 71,
                forall|v: u64, tail: Seq<u8>| #![trigger v.bytes() + tail] before == v.bytes() + tail ==> (
                    (shift as int) < 64
                    && self.rest_() == leb((v >> (shift as u64)) as nat) + tail
                    && result == v & (((1u64 << (shift as u64)) - 1) as u64)),
            decreases self.rest_().len()
//@ loop 0 head
            let ghost r0 = self.rest_();
            proof {
                assert forall|v: u64, tail: Seq<u8>| #![trigger v.bytes() + tail] before == v.bytes() + tail implies ({
                    let w = v >> (shift as u64);
                    &&& r0.len() >= 1
                    &&& w < 128 ==> (r0[0] & 0x80 == 0 && (result | (((r0[0] & 0x7f) as u64) << (shift as u64))) == v && r0.skip(1) =~= tail)
                    &&& w >= 128 ==> (r0[0] & 0x80 != 0 && shift as int + 7 < 64
                        && (result | (((r0[0] & 0x7f) as u64) << (shift as u64))) == v & (((1u64 << ((shift as int + 7) as u64)) - 1) as u64)
                        && r0.skip(1) =~= leb((v >> ((shift as int + 7) as u64)) as nat) + tail)
                }) by {
                    let w = v >> (shift as u64);
                    lemma_rd_u64(v, shift as u64, result, r0[0]);
                    if w < 128 { lemma_leb_small(w as nat); } else { lemma_leb_step(w as nat); }
                }
            }
//@ member read_varint_u128
//@ ret r
//@ sig
        ensures reads_exact::<u128>(old(self).rest_(), r, final(self).rest_())
//@ head
        let ghost before = self.rest_();
        proof {
            assert forall|v: u128, tail: Seq<u8>| #![trigger v.bytes() + tail] before == v.bytes() + tail implies
                0 == v & (((1u128 << 0u128) - 1) as u128) && (v >> 0u128) == v by {
                assert(0 == v & (((1u128 << 0u128) - 1) as u128) && (v >> 0u128) == v) by (bit_vector);
            }
        }
//@ loop 0 inv
            invariant
                before == old(self).rest_(),
                0 <= shift as int <= 135,
                forall|v: u128, tail: Seq<u8>| #![trigger v.bytes() + tail] before == v.bytes() + tail ==> (
                    (shift as int) < 128
                    && self.rest_() == leb((v >> (shift as u128)) as nat) + tail
                    && result == v & (((1u128 << (shift as u128)) - 1) as u128)),
            decreases self.rest_().len()
//@ loop 0 head
            let ghost r0 = self.rest_();
            proof {
                assert forall|v: u128, tail: Seq<u8>| #![trigger v.bytes() + tail] before == v.bytes() + tail implies ({
                    let w = v >> (shift as u128);
                    &&& r0.len() >= 1
                    &&& w < 128 ==> (r0[0] & 0x80 == 0 && (result | (((r0[0] & 0x7f) as u128) << (shift as u128))) == v && r0.skip(1) =~= tail)
                    &&& w >= 128 ==> (r0[0] & 0x80 != 0 && shift as int + 7 < 128
                        && (result | (((r0[0] & 0x7f) as u128) << (shift as u128))) == v & (((1u128 << ((shift as int + 7) as u128)) - 1) as u128)
                        && r0.skip(1) =~= leb((v >> ((shift as int + 7) as u128)) as nat) + tail)
                }) by {
                    let w = v >> (shift as u128);
                    lemma_rd_u128(v, shift as u128, result, r0[0]);
                    if w < 128 { lemma_leb_small(w as nat); } else { lemma_leb_step(w as nat); }
                }
            }
//@ end


//@ impl crates/serialize/src/postcard.rs :: impl<R: Read> Decoder for PostcardDecoder<R>
//@ extra
    open spec fn rest(&self) -> Seq<u8> { self.reader.remaining() }
//@ member read_u8
//@ head
        proof {
            assert forall|v: u8, tail: Seq<u8>| #![trigger v.bytes() + tail] old(self).rest() == v.bytes() + tail implies
                old(self).rest().len() > 0 && old(self).rest()[0] == v && old(self).rest().skip(1) =~= tail by {}
        }
//@ member read_u16
//@ member read_u32
//@ member read_u64
//@ member read_u128
//@ member read_usize
//@ head
        proof {
            assert forall|v: usize, tail: Seq<u8>| #![trigger v.bytes() + tail] old(self).rest() == v.bytes() + tail implies
                old(self).rest() == (v as u64).bytes() + tail by {}
        }
//@ member read_i8
//@ head
        proof {
            assert forall|v: i8, tail: Seq<u8>| #![trigger v.bytes() + tail] old(self).rest() == v.bytes() + tail implies
                old(self).rest() == (v as u8).bytes() + tail by {}
            assert forall|v: i8| #![trigger v as u8] (v as u8) as i8 == v by { assert((v as u8) as i8 == v) by (bit_vector); }
        }
//@ member read_i16
//@ head
        proof {
            assert forall|v: i16, tail: Seq<u8>| #![trigger v.bytes() + tail] old(self).rest() == v.bytes() + tail implies
                old(self).rest() == (zz(v as int) as u16).bytes() + tail by {}
            assert forall|a: i16, b: i16| zz(a as int) == zz(b as int) implies a == b by { lemma_zz_injective(a as int, b as int); }
        }
//@ member read_i32
//@ head
        proof {
            assert forall|v: i32, tail: Seq<u8>| #![trigger v.bytes() + tail] old(self).rest() == v.bytes() + tail implies
                old(self).rest() == (zz(v as int) as u32).bytes() + tail by {}
            assert forall|a: i32, b: i32| zz(a as int) == zz(b as int) implies a == b by { lemma_zz_injective(a as int, b as int); }
        }
//@ member read_i64
//@ head
        proof {
            assert forall|v: i64, tail: Seq<u8>| #![trigger v.bytes() + tail] old(self).rest() == v.bytes() + tail implies
                old(self).rest() == (zz(v as int) as u64).bytes() + tail by {}
            assert forall|a: i64, b: i64| zz(a as int) == zz(b as int) implies a == b by { lemma_zz_injective(a as int, b as int); }
        }
//@ member read_i128
//@ head
        proof {
            assert forall|v: i128, tail: Seq<u8>| #![trigger v.bytes() + tail] old(self).rest() == v.bytes() + tail implies
                old(self).rest() == (zz(v as int) as u128).bytes() + tail by {}
            assert forall|a: i128, b: i128| zz(a as int) == zz(b as int) implies a == b by { lemma_zz_injective(a as int, b as int); }
        }
//@ member read_isize
//@ head
        proof {
            assert forall|v: isize, tail: Seq<u8>| #![trigger v.bytes() + tail] old(self).rest() == v.bytes() + tail implies
                old(self).rest() == (v as i64).bytes() + tail by {}
        }
//@ member read_raw_bytes
//@ member read_char
//@ head
        proof {
            assert forall|v: char, tail: Seq<u8>| #![trigger v.bytes() + tail] old(self).rest() == v.bytes() + tail implies
                old(self).rest() == (v as u32).bytes() + tail by {}
        }
//@ end

} // verus!
fn main() {}
