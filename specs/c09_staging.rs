// C09 — the overlay arithmetic of the key-to-set cache (crates/storage/src/key_of_set_map/cache.rs): the staging log keeps every
// unflushed operation, trims only flushed ones, and replays to "for every element its LAST issued operation decides".
// Plain lines = specification; `//@` = real source text, re-extracted on every run.
#![feature(allocator_api)]
#![allow(unused_imports, unused_variables, dead_code, non_snake_case)]
use vstd::prelude::*;
use vstd::multiset::*;
use vstd::std_specs::cmp::*;
use vstd::std_specs::hash::*;
use std::alloc::Allocator;
use std::collections::{BinaryHeap, HashSet};
use std::hash::Hash;
use std::ops::Not;
verus! {

// ---------------------------------------------------------------- the real types
//@ struct crates/storage/src/write_manager/write_behind.rs :: Epoch
#[derive(Clone, Copy, PartialEq, Eq, PartialOrd, Ord, Structural)]
//@ end
//@ enum crates/storage/src/key_of_set_map/cache.rs :: Operation
//@ struct crates/storage/src/key_of_set_map/cache.rs :: VersionedOperation
//@ enum crates/storage/src/key_of_set_map/cache.rs :: ConcurrentLogMessage
//@ struct crates/storage/src/key_of_set_map/cache.rs :: StagingShapshot

/// struct stand-in: the functions under contract are associated functions that never touch `self`
/// (the real struct holds the RwLock'd heap, the deferred-message queue and the sequence counter)
pub struct ConcurrentLog<V> { pub _p: core::marker::PhantomData<V> }

/// interface stand-in for fxhash::FxBuildHasher (a deterministic BuildHasher; trusted)
#[verifier::external_body]
pub struct FxBuildHasher { _p: u8 }
#[verifier::external]
impl std::hash::BuildHasher for FxBuildHasher {
    type Hasher = std::collections::hash_map::DefaultHasher;
    fn build_hasher(&self) -> Self::Hasher { unimplemented!() }
}
impl Default for FxBuildHasher {
    #[verifier::external_body]
    fn default() -> Self { unimplemented!() }
}

// ---------------------------------------------------------------- std models (trusted)
pub open spec fn u64_cmp(a: u64, b: u64) -> std::cmp::Ordering {
    if a < b { std::cmp::Ordering::Less } else if a == b { std::cmp::Ordering::Equal } else { std::cmp::Ordering::Greater }
}
/// #[derive(PartialEq, Eq, PartialOrd, Ord)] on the one-field tuple struct compares the field
impl PartialEqSpecImpl for Epoch { open spec fn obeys_eq_spec() -> bool { true } open spec fn eq_spec(&self, o: &Self) -> bool { self.0 == o.0 } }
impl PartialOrdSpecImpl for Epoch { open spec fn obeys_partial_cmp_spec() -> bool { true } open spec fn partial_cmp_spec(&self, o: &Self) -> Option<std::cmp::Ordering> { Some(u64_cmp(self.0, o.0)) } }
impl OrdSpecImpl for Epoch { open spec fn obeys_cmp_spec() -> bool { true } open spec fn cmp_spec(&self, o: &Self) -> std::cmp::Ordering { u64_cmp(self.0, o.0) } }

#[verifier::external_type_specification]
#[verifier::external_body]
#[verifier::accept_recursive_types(T)]
#[verifier::reject_recursive_types(A)]
pub struct ExBinaryHeap<T, A: Allocator>(BinaryHeap<T, A>);
/// ghost content of a heap, in an abstract order (iteration order of the real heap is unspecified, as in std)
pub uninterp spec fn heap_view<T, A: Allocator>(h: &BinaryHeap<T, A>) -> Seq<T>;
pub uninterp spec fn is_top<T>(s: Seq<T>, t: T) -> bool;
#[verifier::external_body]
pub proof fn axiom_is_top<T: Ord>(s: Seq<T>, t: T, i: int)
    requires is_top(s, t), 0 <= i < s.len()
    ensures !(s[i].cmp_spec(&t) is Greater)
{
}
pub assume_specification<T, A: Allocator>[ BinaryHeap::<T, A>::peek ](h: &BinaryHeap<T, A>) -> (r: Option<&T>)
    ensures
        heap_view(h).len() == 0 <==> r is None,
        r matches Some(t) ==> heap_view(h).contains(*t) && is_top(heap_view(h), *t);
pub assume_specification<T: Ord, A: Allocator>[ BinaryHeap::<T, A>::pop ](h: &mut BinaryHeap<T, A>) -> (r: Option<T>)
    ensures
        heap_view(old(h)).len() == 0 <==> r is None,
        r matches Some(t) ==> is_top(heap_view(old(h)), t) && exists|i: int| 0 <= i < heap_view(old(h)).len()
            && heap_view(old(h))[i] == t && heap_view(final(h)) == heap_view(old(h)).remove(i);
pub assume_specification<T: Ord, A: Allocator>[ BinaryHeap::<T, A>::push ](h: &mut BinaryHeap<T, A>, x: T)
    ensures heap_view(final(h)) == heap_view(old(h)).push(x);

pub assume_specification<T, S>[ HashSet::<T, S>::with_hasher ](h: S) -> (r: HashSet<T, S>)
    ensures r@ == Set::<T>::empty();

/// ASSUMED about the element type: Hash/Eq are consistent and deterministic, Clone yields an equal element
#[verifier::external_body]
pub proof fn axiom_element_type<V: Clone>()
    ensures
        obeys_key_model::<V>(),
        builds_valid_hashers::<FxBuildHasher>(),
        forall|a: &V, b: V| #[trigger] call_ensures(V::clone, (a,), b) ==> *a == b,
{
}

// ---------------------------------------------------------------- specification vocabulary
pub open spec fn key_of<V>(x: &VersionedOperation<V>) -> (u64, u64) { (x.epoch.0, x.seq) }
pub open spec fn lex(a: (u64, u64), b: (u64, u64)) -> std::cmp::Ordering {
    if a.0 < b.0 { std::cmp::Ordering::Less } else if a.0 > b.0 { std::cmp::Ordering::Greater }
    else if a.1 < b.1 { std::cmp::Ordering::Less } else if a.1 > b.1 { std::cmp::Ordering::Greater } else { std::cmp::Ordering::Equal }
}
/// the heap order of the log: REVERSED issue order, so that the OLDEST operation is on top and flushing trims from the old end
pub open spec fn vop_cmp<V>(a: &VersionedOperation<V>, b: &VersionedOperation<V>) -> std::cmp::Ordering { lex(key_of(b), key_of(a)) }

impl<V> PartialEqSpecImpl for VersionedOperation<V> {
    open spec fn obeys_eq_spec() -> bool { true }
    open spec fn eq_spec(&self, o: &Self) -> bool { key_of(self) == key_of(o) }
}
impl<V> PartialOrdSpecImpl for VersionedOperation<V> {
    open spec fn obeys_partial_cmp_spec() -> bool { true }
    open spec fn partial_cmp_spec(&self, o: &Self) -> Option<std::cmp::Ordering> { Some(vop_cmp(self, o)) }
}
impl<V> OrdSpecImpl for VersionedOperation<V> {
    open spec fn obeys_cmp_spec() -> bool { true }
    open spec fn cmp_spec(&self, o: &Self) -> std::cmp::Ordering { vop_cmp(self, o) }
}

/// what the element's last operation in `ops` (given in issue order) says: Some(true) = inserted, Some(false) = removed, None = untouched
pub open spec fn last_op<V>(ops: Seq<&VersionedOperation<V>>, x: V) -> Option<bool>
    decreases ops.len()
{
    if ops.len() == 0 { None } else {
        match ops.last().op {
            Operation::Insert(v) => if v == x { Some(true) } else { last_op(ops.drop_last(), x) },
            Operation::Remove(v) => if v == x { Some(false) } else { last_op(ops.drop_last(), x) },
        }
    }
}

/// applying the operations one after another, in issue order, to a set
pub open spec fn fold_ops<V>(base: Set<V>, ops: Seq<&VersionedOperation<V>>) -> Set<V>
    decreases ops.len()
{
    if ops.len() == 0 { base } else {
        match ops.last().op {
            Operation::Insert(v) => fold_ops(base, ops.drop_last()).insert(v),
            Operation::Remove(v) => fold_ops(base, ops.drop_last()).remove(v),
        }
    }
}

/// TOP LEVEL (from the property): overlaying the snapshot on ANY base set gives exactly the result of all operations in
/// issue order -- also when the base already contains the effect of a flushed prefix of them (replay is idempotent)
pub proof fn lemma_overlay_is_fold<V>(base: Set<V>, ops: Seq<&VersionedOperation<V>>, added: Set<V>, removed: Set<V>)
    requires
        forall|x: V| #[trigger] added.contains(x) <==> last_op(ops, x) == Some(true),
        forall|x: V| #[trigger] removed.contains(x) <==> last_op(ops, x) == Some(false),
    ensures base.union(added).difference(removed) =~= fold_ops(base, ops)
{
    assert forall|x: V| #[trigger] base.union(added).difference(removed).contains(x) <==> fold_ops(base, ops).contains(x) by {
        lemma_fold_member(base, ops, x);
        assert(added.contains(x) <==> last_op(ops, x) == Some(true));
        assert(removed.contains(x) <==> last_op(ops, x) == Some(false));
        assert(base.union(added).contains(x) <==> (base.contains(x) || added.contains(x)));
        assert(base.union(added).difference(removed).contains(x) <==> (base.union(added).contains(x) && !removed.contains(x)));
        match last_op(ops, x) { Some(true) => {}, Some(false) => {}, None => {} }
    }
}

pub proof fn lemma_fold_member<V>(base: Set<V>, ops: Seq<&VersionedOperation<V>>, x: V)
    ensures fold_ops(base, ops).contains(x) <==> (last_op(ops, x) == Some(true) || (last_op(ops, x) is None && base.contains(x)))
    decreases ops.len()
{
    if ops.len() > 0 {
        lemma_fold_member(base, ops.drop_last(), x);
    }
}

// ---------------------------------------------------------------- functions under contract
//@ impl crates/storage/src/key_of_set_map/cache.rs :: impl<V> PartialEq for VersionedOperation<V>
//@ member eq
//@ end
//@ impl crates/storage/src/key_of_set_map/cache.rs :: impl<V> Eq for VersionedOperation<V>
//@ end
//@ impl crates/storage/src/key_of_set_map/cache.rs :: impl<V> PartialOrd for VersionedOperation<V>
//@ member partial_cmp
//@ end
//@ impl crates/storage/src/key_of_set_map/cache.rs :: impl<V> Ord for VersionedOperation<V>
//@ member cmp
//@ end

pub open spec fn unflushed<V>(e: Epoch) -> spec_fn(VersionedOperation<V>) -> bool { |x: VersionedOperation<V>| x.epoch.0 > e.0 }

pub proof fn lemma_filter_remove<V>(m: Multiset<VersionedOperation<V>>, x: VersionedOperation<V>, e: Epoch)
    requires m.count(x) > 0, x.epoch.0 <= e.0
    ensures m.remove(x).filter(unflushed(e)) =~= m.filter(unflushed(e))
{
    assert forall|v: VersionedOperation<V>| m.remove(x).filter(unflushed(e)).count(v) == m.filter(unflushed(e)).count(v) by {
        if v == x { assert(!unflushed::<V>(e)(v)); }
    }
}

pub proof fn lemma_filter_all<V>(s: Seq<VersionedOperation<V>>, e: Epoch)
    requires forall|i: int| 0 <= i < s.len() ==> (#[trigger] s[i]).epoch.0 > e.0
    ensures s.to_multiset().filter(unflushed(e)) =~= s.to_multiset()
{
    broadcast use vstd::seq_lib::group_seq_properties, vstd::seq_lib::group_to_multiset_ensures;
    s.to_multiset_ensures();
    assert forall|v: VersionedOperation<V>| s.to_multiset().filter(unflushed(e)).count(v) == s.to_multiset().count(v) by {
        if s.to_multiset().count(v) > 0 {
            assert(s.contains(v));
            let i = choose|i: int| 0 <= i < s.len() && s[i] == v;
            assert(s[i].epoch.0 > e.0);
        }
    }
}

//@ impl crates/storage/src/key_of_set_map/cache.rs :: impl<V: Eq + Hash + Clone> ConcurrentLog<V>
//@ member apply_message_to_heap
//@ sig
        ensures
            // an appended operation is kept
            op matches ConcurrentLogMessage::AppendOperation(x) ==> heap_view(final(heap_lock)) == heap_view(old(heap_lock)).push(x),
            // a flush removes EXACTLY the operations of epochs <= the flushed epoch: no unflushed operation is ever dropped,
            // no flushed one is left behind
            op matches ConcurrentLogMessage::FlushUpTo(e) ==>
                heap_view(final(heap_lock)).to_multiset() =~= heap_view(old(heap_lock)).to_multiset().filter(unflushed(e)),
//@ head
        broadcast use vstd::seq_lib::group_seq_properties, vstd::seq_lib::group_to_multiset_ensures;
        let ghost view00 = heap_view(heap_lock);
//@ loop 0 inv
            invariant
                heap_view(heap_lock).to_multiset().filter(unflushed(epoch)) =~= view00.to_multiset().filter(unflushed(epoch)),
            ensures
                forall|i: int| 0 <= i < heap_view(heap_lock).len() ==> (#[trigger] heap_view(heap_lock)[i]).epoch.0 > epoch.0,
            decreases heap_view(heap_lock).len(),
//@ loop 0 head
            broadcast use vstd::seq_lib::group_seq_properties, vstd::seq_lib::group_to_multiset_ensures;
            let ghost view0 = heap_view(heap_lock);
            proof {
                // whatever the heap reports as its top is the oldest operation: every other one has an epoch at least as large
                // (stated for ANY top element, not for a local of the loop body: renaming that local must not break the proof)
                assert forall|t2: VersionedOperation<V>, i: int| #![trigger is_top(view0, t2), view0[i]] is_top(view0, t2) && 0 <= i < view0.len()
                    implies view0[i].epoch.0 >= t2.epoch.0 by {
                    axiom_is_top(view0, t2, i);
                }
                view0.to_multiset_ensures();
                assert forall|i: int| 0 <= i < view0.len() && view0[i].epoch.0 <= epoch.0 implies
                    (#[trigger] view0.remove(i)).to_multiset().filter(unflushed(epoch)) =~= view0.to_multiset().filter(unflushed(epoch)) by {
                    assert(view0.remove(i).to_multiset() =~= view0.to_multiset().remove(view0[i]));
                    lemma_filter_remove(view0.to_multiset(), view0[i], epoch);
                }
            }
//@ loop 0 after
                proof { lemma_filter_all(heap_view(heap_lock), epoch); }
//@ member replay
//@ ret r
//@ sig
        ensures
            forall|x: V| #[trigger] r.added@.contains(x) <==> last_op(ordered@, x) == Some(true),
            forall|x: V| #[trigger] r.removed@.contains(x) <==> last_op(ordered@, x) == Some(false),
//@ head
        proof { axiom_element_type::<V>(); }
//@ loop 0 iter __it
//@ loop 0 inv
            invariant
                obeys_key_model::<V>(), builds_valid_hashers::<FxBuildHasher>(),
                forall|a: &V, b: V| #[trigger] call_ensures(V::clone, (a,), b) ==> *a == b,
                forall|x: V| #[trigger] added@.contains(x) <==> last_op(ordered@.take(__it.index@ as int), x) == Some(true),
                forall|x: V| #[trigger] removed@.contains(x) <==> last_op(ordered@.take(__it.index@ as int), x) == Some(false),
//@ loop 0 head
            proof {
                let i = __it.index@ as int;
                assert(ordered@.take(i + 1).drop_last() =~= ordered@.take(i));
                assert(ordered@.take(i + 1).last() == ordered@[i]);
            }
//@ loop 0 after
        proof { assert(ordered@.take(ordered@.len() as int) =~= ordered@); }
//@ end

// ---------------------------------------------------------------- vacuity canaries: each MUST fail
fn canary_apply<V: Eq + Hash + Clone>(h: &mut BinaryHeap<VersionedOperation<V>>, m: ConcurrentLogMessage<V>)
{
    ConcurrentLog::<V>::apply_message_to_heap(h, m);
    assert(false);
}
fn canary_replay<V: Eq + Hash + Clone>(o: &[&VersionedOperation<V>])
{
    let r = ConcurrentLog::<V>::replay(o);
    assert(false);
}

} // verus!
fn main() {}
