// C16 — the entry handles of the admission cache (crates/storage/src/tiny_lfu.rs): `VacantEntry::insert` and
// `OccupiedEntry::remove`. The policy learns about a key only through the messages these two queue; its picture of what the
// storage map holds stays right only if the messages about ONE key are queued in the order of the operations on that key --
// i.e. each message is queued while the key's entry lock (the scc entry handle) is still held. The stand-in for the scc
// handle therefore carries that protocol as a precondition: an entry may be released (insert_entry / remove) only after the
// message about it has been queued. Plain lines = specification; `//@` = real source text.
//@ rule R18
#![allow(unused_imports, unused_variables, dead_code, non_snake_case)]
use vstd::prelude::*;
verus! {

//@ enum crates/storage/src/tiny_lfu/policy.rs :: WriteMessage

/// event: this message was handed to the policy's write buffer
pub uninterp spec fn queued<K>(m: WriteMessage<K>) -> bool;

pub mod write_buffer {
    use vstd::prelude::*;
    use super::*;
    /// interface stand-in for the unbounded MPSC buffer between the storage map and the policy
    #[verifier::external_body]
    #[verifier::reject_recursive_types(T)]
    pub struct UnboundedBuffer<T> { _p: core::marker::PhantomData<T> }
    impl<K> UnboundedBuffer<WriteMessage<K>> {
        #[verifier::external_body]
        pub fn push(&self, m: WriteMessage<K>)
            ensures queued(m)
        { unimplemented!() }
    }
}
/// interface stand-in (the hasher only names a type)
#[verifier::external_body]
pub struct FxBuildHasher { _p: u8 }

pub mod scc { pub mod hash_map {
    use vstd::prelude::*;
    use super::super::*;
    /// interface stand-in for scc's entry handles: a handle IS the exclusive lock on the entry of its key. PROTOCOL
    /// (precondition): the lock may be given up -- by filling a vacant entry or by removing an occupied one -- only after the
    /// message that tells the policy about it has been queued
    #[verifier::external_body]
    #[verifier::reject_recursive_types(K)]
    #[verifier::reject_recursive_types(V)]
    #[verifier::reject_recursive_types(S)]
    pub struct OccupiedEntry<'a, K, V, S> { _p: core::marker::PhantomData<&'a (K, V, S)> }
    #[verifier::external_body]
    #[verifier::reject_recursive_types(K)]
    #[verifier::reject_recursive_types(V)]
    #[verifier::reject_recursive_types(S)]
    pub struct VacantEntry<'a, K, V, S> { _p: core::marker::PhantomData<&'a (K, V, S)> }
    impl<'a, K, V, S> OccupiedEntry<'a, K, V, S> {
        pub uninterp spec fn spec_key(&self) -> K;
        #[verifier::external_body]
        pub fn key(&self) -> (r: &K) ensures *r == self.spec_key() { unimplemented!() }
        #[verifier::external_body]
        pub fn remove(self) -> (r: V)
            requires queued(WriteMessage::Removed(self.spec_key()))
        { unimplemented!() }
    }
    impl<'a, K, V, S> VacantEntry<'a, K, V, S> {
        pub uninterp spec fn spec_key(&self) -> K;
        #[verifier::external_body]
        pub fn key(&self) -> (r: &K) ensures *r == self.spec_key() { unimplemented!() }
        #[verifier::external_body]
        pub fn insert_entry(self, value: V)
            requires queued(WriteMessage::Insert(self.spec_key()))
        { unimplemented!() }
    }
} }

/// struct stand-ins (field subsets: the real structs additionally hold a tracing span under the off-by-default feature
/// `tracing_resource`)
#[verifier::reject_recursive_types(K)]
#[verifier::reject_recursive_types(V)]
pub struct OccupiedEntry<'a, 'x, K, V> {
    pub entry: scc::hash_map::OccupiedEntry<'a, K, V, FxBuildHasher>,
    pub write_buffer: &'x write_buffer::UnboundedBuffer<WriteMessage<K>>,
}
#[verifier::reject_recursive_types(K)]
#[verifier::reject_recursive_types(V)]
pub struct VacantEntry<'a, 'x, K, V> {
    pub entry: scc::hash_map::VacantEntry<'a, K, V, FxBuildHasher>,
    pub write_buffer: &'x write_buffer::UnboundedBuffer<WriteMessage<K>>,
}
/// ASSUMED about the key type: `Clone` yields an equal key
#[verifier::external_body]
pub proof fn axiom_key_clone<K: Clone>()
    ensures forall|a: &K, b: K| #[trigger] call_ensures(K::clone, (a,), b) ==> *a == b
{
}

//@ impl crates/storage/src/tiny_lfu.rs :: impl<K: Clone + std::hash::Hash + Eq, V> OccupiedEntry<'_, '_, K, V>
//@ member remove
//@ head
        proof { axiom_key_clone::<K>(); }
//@ end
//@ impl crates/storage/src/tiny_lfu.rs :: impl<K: Clone + std::hash::Hash + Eq, V> VacantEntry<'_, '_, K, V>
//@ member insert
//@ head
        proof { axiom_key_clone::<K>(); }
//@ end

// ---------------------------------------------------------------- vacuity guards (must FAIL)
fn canary_entry_protocol<'a, K, V>(e: scc::hash_map::OccupiedEntry<'a, K, V, FxBuildHasher>) -> V
{
    e.remove()
}

} // verus!
fn main() {}
