// C11 -- shared vocabulary of the operations layer of both backends (included after ColumnKind, wide_key, member_key)
pub trait KeyOfSetColumn: Identifiable { type Key: Encode; type Element: Encode; }

/// ghost: one operation handed to RocksDB's write batch
pub enum BOp {
    Put { ty: StableTypeID, kind: ColumnKind, key: Seq<u8>, value: Seq<u8> },
    Del { ty: StableTypeID, kind: ColumnKind, key: Seq<u8> },
}

/// interface stand-in for the backend's column-family / keyspace handle: a handle knows which column (type id, kind) it names
#[verifier::external_body]
pub struct Handle { _p: u8 }
impl Handle {
    pub uninterp spec fn ty(&self) -> StableTypeID;
    pub uninterp spec fn kind(&self) -> ColumnKind;
}
/// byte arguments of put_cf / delete_cf (`K: AsRef<[u8]>` in rust_rocksdb)
pub trait AsBytes { spec fn seq(&self) -> Seq<u8>; }
impl AsBytes for &[u8] { open spec fn seq(&self) -> Seq<u8> { self@ } }
impl AsBytes for &Vec<u8> { open spec fn seq(&self) -> Seq<u8> { self@ } }
impl AsBytes for [u8; 0] { open spec fn seq(&self) -> Seq<u8> { Seq::empty() } }


/// interface stand-ins for the two storage traits (declarations; the contracts are on the impls below).
/// Preconditions: the running size estimate of a batch does not overflow usize (with one byte of headroom for fjall's padding).
pub trait WriteBatch {
    type SerializationBuffer;
    spec fn est(&self) -> nat;
    fn put<W: WideColumn, C: WideColumnValue<W>>(&mut self, key: &W::Key, value: &C)
        requires old(self).est() + wide_key::<W, C>(key).len() + value.bytes().len() + 1 < usize::MAX;
    fn delete<W: WideColumn, C: WideColumnValue<W>>(&mut self, key: &W::Key)
        requires old(self).est() + wide_key::<W, C>(key).len() + 1 < usize::MAX;
    fn insert_member<C: KeyOfSetColumn>(&mut self, key: &C::Key, value: &C::Element)
        requires old(self).est() + member_key::<C>(key, value).len() + 1 < usize::MAX;
    fn delete_member<C: KeyOfSetColumn>(&mut self, key: &C::Key, value: &C::Element)
        requires old(self).est() + member_key::<C>(key, value).len() + 1 < usize::MAX;
    spec fn cost(buffer: &Self::SerializationBuffer) -> nat;
    fn consume_serialization_buffer(&mut self, buffer: Self::SerializationBuffer)
        requires old(self).est() + Self::cost(&buffer) + 1 < usize::MAX;
    fn should_write_more(&self) -> bool;
    fn commit(self);
}
/// event: the backend was handed this operation sequence as ONE write (its atomic application and durability: trusted backend)
pub uninterp spec fn written(ops: Seq<BOp>) -> bool;
pub trait SerializationBuffer {
    fn put<W: WideColumn, C: WideColumnValue<W>>(&mut self, key: &W::Key, value: &C)
        requires wide_key::<W, C>(key).len() + 1 < usize::MAX, value.bytes().len() + 1 < usize::MAX;
    fn delete<W: WideColumn, C: WideColumnValue<W>>(&mut self, key: &W::Key)
        requires wide_key::<W, C>(key).len() + 1 < usize::MAX;
    fn insert_member<C: KeyOfSetColumn>(&mut self, key: &C::Key, value: &C::Element)
        requires member_key::<C>(key, value).len() + 1 < usize::MAX;
    fn delete_member<C: KeyOfSetColumn>(&mut self, key: &C::Key, value: &C::Element)
        requires member_key::<C>(key, value).len() + 1 < usize::MAX;
}



// ---------------------------------------------------------------- readers
/// R17: decoding a complete stored image (C12's Decode contract with an empty tail; `expect`: a stored image decodes)
pub trait ByteSource { spec fn src(&self) -> Seq<u8>; }
impl ByteSource for Vec<u8> { open spec fn src(&self) -> Seq<u8> { self@ } }
impl ByteSource for &[u8] { open spec fn src(&self) -> Seq<u8> { self@ } }
#[verifier::external_body]
pub fn verif_postcard_decode<T: Wire, S: ByteSource>(source: S, plugin: &Plugin) -> (r: T)
    ensures forall|v: T| source.src() == #[trigger] v.bytes() ==> r.bytes() == v.bytes()
{ unimplemented!() }

/// the committed content of the store as the backend reports it at the moment of a read (trusted backend)
pub uninterp spec fn stored(ty: StableTypeID, kind: ColumnKind, key: Seq<u8>) -> Option<Seq<u8>>;

/// interface stand-in for the reader half of `KvDatabase`
pub trait KvDatabase {
    fn get_wide_column<W: WideColumn, C: WideColumnValue<W>>(&self, key: &W::Key) -> Option<C>
        requires wide_key::<W, C>(key).len() + 1 < usize::MAX;
}
