/// wide-column keys: (first, second) -> first ++ second is injective when the first component's image is prefix-free
pub open spec fn prefix_free_ty<T: Wire>() -> bool {
    forall|a: T, b: T, ta: Seq<u8>, tb: Seq<u8>| #![trigger a.bytes() + ta, b.bytes() + tb] a.bytes() + ta == b.bytes() + tb ==> a.bytes() == b.bytes() && ta == tb
}

pub proof fn lemma_pair_injective<A: Wire, B: Wire>(a1: A, b1: B, a2: A, b2: B)
    requires prefix_free_ty::<A>(), a1.bytes() + b1.bytes() == a2.bytes() + b2.bytes()
    ensures a1.bytes() == a2.bytes(), b1.bytes() == b2.bytes()
{
}

