// ---------------------------------------------------------------- shared vocabulary: byte strings, bytewise order, key scheme
// (the order below is the bytewise comparator of both backends: memcmp, shorter string first)

pub open spec fn is_prefix(p: Seq<u8>, k: Seq<u8>) -> bool {
    p.len() <= k.len() && k.subrange(0, p.len() as int) =~= p
}

pub open spec fn lex_lt(a: Seq<u8>, b: Seq<u8>) -> bool
    decreases a.len()
{
    if b.len() == 0 { false }
    else if a.len() == 0 { true }
    else if a[0] < b[0] { true }
    else if a[0] > b[0] { false }
    else { lex_lt(a.skip(1), b.skip(1)) }
}

pub open spec fn lex_le(a: Seq<u8>, b: Seq<u8>) -> bool
    decreases a.len()
{
    if a.len() == 0 { true }
    else if b.len() == 0 { false }
    else if a[0] < b[0] { true }
    else if a[0] > b[0] { false }
    else { lex_le(a.skip(1), b.skip(1)) }
}

pub open spec fn all_ff(p: Seq<u8>) -> bool { forall|i: int| 0 <= i < p.len() ==> p[i] == 0xFFu8 }

/// the exclusive upper bound of the set of strings that start with p; empty = "no upper bound"
pub open spec fn ub(p: Seq<u8>) -> Seq<u8>
    decreases p.len()
{
    if p.len() == 0 { Seq::<u8>::empty() }
    else if all_ff(p.skip(1)) {
        if p[0] == 0xFFu8 { Seq::<u8>::empty() } else { seq![(p[0] + 1) as u8] }
    } else { seq![p[0]] + ub(p.skip(1)) }
}

/// k lies in the scan window [p, bound)  (bound empty = unbounded)
pub open spec fn in_window(p: Seq<u8>, bound: Seq<u8>, k: Seq<u8>) -> bool {
    lex_le(p, k) && (bound.len() == 0 || lex_lt(k, bound))
}

pub proof fn lemma_prefix_step(p: Seq<u8>, k: Seq<u8>)
    requires p.len() > 0
    ensures is_prefix(p, k) <==> (k.len() > 0 && k[0] == p[0] && is_prefix(p.skip(1), k.skip(1)))
{
    if is_prefix(p, k) {
        assert(k.subrange(0, p.len() as int)[0] == p[0]);
        assert forall|i: int| 0 <= i < p.len() - 1 implies k.skip(1).subrange(0, p.len() - 1)[i] == p.skip(1)[i] by {
            assert(k.subrange(0, p.len() as int)[i + 1] == p[i + 1]);
        }
        assert(k.skip(1).subrange(0, p.len() - 1) =~= p.skip(1));
    }
    if k.len() > 0 && k[0] == p[0] && is_prefix(p.skip(1), k.skip(1)) {
        assert forall|i: int| 0 <= i < p.len() implies k.subrange(0, p.len() as int)[i] == p[i] by {
            if i > 0 {
                assert(k.skip(1).subrange(0, p.len() - 1)[i - 1] == p.skip(1)[i - 1]);
            }
        }
        assert(k.subrange(0, p.len() as int) =~= p);
    }
}

pub proof fn lemma_all_ff_skip(p: Seq<u8>)
    requires p.len() > 0, all_ff(p)
    ensures all_ff(p.skip(1)), p[0] == 0xFFu8
{
    assert forall|i: int| 0 <= i < p.skip(1).len() implies p.skip(1)[i] == 0xFFu8 by { assert(p.skip(1)[i] == p[i + 1]); }
}

/// for an all-0xFF prefix, p <= k already forces k to start with p
pub proof fn lemma_allff_le_is_prefix(p: Seq<u8>, k: Seq<u8>)
    requires all_ff(p)
    ensures lex_le(p, k) <==> is_prefix(p, k)
    decreases p.len()
{
    if p.len() == 0 {
        assert(k.subrange(0, 0) =~= p);
    } else {
        lemma_all_ff_skip(p);
        lemma_prefix_step(p, k);
        if k.len() > 0 {
            lemma_allff_le_is_prefix(p.skip(1), k.skip(1));
        }
    }
}

pub proof fn lemma_prefix_le(p: Seq<u8>, k: Seq<u8>)
    requires is_prefix(p, k)
    ensures lex_le(p, k)
    decreases p.len()
{
    if p.len() > 0 {
        lemma_prefix_step(p, k);
        lemma_prefix_le(p.skip(1), k.skip(1));
    }
}

pub proof fn lemma_ub_nonempty(p: Seq<u8>)
    requires !all_ff(p)
    ensures ub(p).len() > 0
    decreases p.len()
{
    if p.len() > 0 {
        if all_ff(p.skip(1)) {
            if p[0] == 0xFFu8 {
                assert forall|i: int| 0 <= i < p.len() implies p[i] == 0xFFu8 by {
                    if i > 0 { assert(p.skip(1)[i - 1] == p[i]); }
                }
            }
        }
    }
}

/// THE scan-tightness fact: the window [p, ub(p)) contains exactly the strings that start with p
pub proof fn lemma_window(p: Seq<u8>, k: Seq<u8>)
    ensures in_window(p, ub(p), k) <==> is_prefix(p, k)
    decreases p.len()
{
    if p.len() == 0 {
        assert(k.subrange(0, 0) =~= p);
    } else {
        lemma_prefix_step(p, k);
        let p1 = p.skip(1);
        if all_ff(p1) {
            if p[0] == 0xFFu8 {
                assert forall|i: int| 0 <= i < p.len() implies p[i] == 0xFFu8 by {
                    if i > 0 { assert(p1[i - 1] == p[i]); }
                }
                lemma_allff_le_is_prefix(p, k);
            } else {
                let b = seq![(p[0] + 1) as u8];
                if k.len() > 0 {
                    lemma_allff_le_is_prefix(p1, k.skip(1));
                    assert(b.skip(1).len() == 0);
                    // k < [c+1]  <==>  k[0] <= c   (k non-empty)
                    assert(lex_lt(k, b) <==> k[0] < b[0]) by {
                        if k[0] == b[0] { assert(!lex_lt(k.skip(1), b.skip(1))); }
                    }
                }
            }
        } else {
            lemma_ub_nonempty(p1);
            let b = seq![p[0]] + ub(p1);
            assert(b[0] == p[0]);
            assert(b.skip(1) =~= ub(p1));
            if k.len() > 0 {
                lemma_window(p1, k.skip(1));
            }
        }
    }
}

/// shape of ub(p) as the implementation computes it: bump the last non-0xFF byte, cut after it
pub proof fn lemma_ub_shape(p: Seq<u8>, i: int)
    requires 0 <= i < p.len(), p[i] < 0xFFu8, forall|j: int| i < j < p.len() ==> p[j] == 0xFFu8
    ensures ub(p) == p.subrange(0, i).push((p[i] + 1) as u8)
    decreases p.len()
{
    let p1 = p.skip(1);
    if i == 0 {
        assert forall|j: int| 0 <= j < p1.len() implies p1[j] == 0xFFu8 by { assert(p1[j] == p[j + 1]); }
        assert(p.subrange(0, 0).push((p[0] + 1) as u8) =~= seq![(p[0] + 1) as u8]);
    } else {
        assert(p1[i - 1] == p[i]);
        assert(!all_ff(p1));
        assert forall|j: int| i - 1 < j < p1.len() implies p1[j] == 0xFFu8 by { assert(p1[j] == p[j + 1]); }
        lemma_ub_shape(p1, i - 1);
        assert(seq![p[0]] + p1.subrange(0, i - 1).push((p1[i - 1] + 1) as u8) =~= p.subrange(0, i).push((p[i] + 1) as u8));
    }
}

pub proof fn lemma_ub_allff(p: Seq<u8>)
    requires all_ff(p)
    ensures ub(p).len() == 0
    decreases p.len()
{
    if p.len() > 0 { lemma_all_ff_skip(p); }
}

// ---------------------------------------------------------------- 8-byte little-endian length prefix
pub open spec fn le64_u(s: Seq<u8>) -> u64
    recommends s.len() >= 8
{
    (s[0] as u64) | ((s[1] as u64) << 8) | ((s[2] as u64) << 16) | ((s[3] as u64) << 24) | ((s[4] as u64) << 32)
        | ((s[5] as u64) << 40) | ((s[6] as u64) << 48) | ((s[7] as u64) << 56)
}

/// value of an 8-byte little-endian field
pub open spec fn le64_val(s: Seq<u8>) -> nat
    recommends s.len() >= 8
{
    le64_u(s) as nat
}

pub open spec fn le64_of(x: u64) -> Seq<u8> {
    seq![(x & 0xff) as u8, ((x >> 8) & 0xff) as u8, ((x >> 16) & 0xff) as u8, ((x >> 24) & 0xff) as u8,
        ((x >> 32) & 0xff) as u8, ((x >> 40) & 0xff) as u8, ((x >> 48) & 0xff) as u8, ((x >> 56) & 0xff) as u8]
}

/// 8-byte little-endian image of n (n < 2^64)
pub open spec fn le64(n: nat) -> Seq<u8> { le64_of(n as u64) }

pub proof fn lemma_le64_roundtrip(n: nat)
    requires n < 0x1_0000_0000_0000_0000
    ensures le64_val(le64(n)) == n, le64(n).len() == 8, n < 0x100_0000_0000_0000 ==> le64(n)[7] == 0u8
{
    let x = n as u64;
    let s = le64(n);
    assert(le64_u(s) == x) by {
        let b0 = (x & 0xff) as u8; let b1 = ((x >> 8) & 0xff) as u8; let b2 = ((x >> 16) & 0xff) as u8; let b3 = ((x >> 24) & 0xff) as u8;
        let b4 = ((x >> 32) & 0xff) as u8; let b5 = ((x >> 40) & 0xff) as u8; let b6 = ((x >> 48) & 0xff) as u8; let b7 = ((x >> 56) & 0xff) as u8;
        assert(s[0] == b0 && s[1] == b1 && s[2] == b2 && s[3] == b3 && s[4] == b4 && s[5] == b5 && s[6] == b6 && s[7] == b7);
        assert(((b0 as u64) | ((b1 as u64) << 8) | ((b2 as u64) << 16) | ((b3 as u64) << 24) | ((b4 as u64) << 32)
            | ((b5 as u64) << 40) | ((b6 as u64) << 48) | ((b7 as u64) << 56)) == x) by (bit_vector)
            requires b0 == (x & 0xff) as u8, b1 == ((x >> 8) & 0xff) as u8, b2 == ((x >> 16) & 0xff) as u8, b3 == ((x >> 24) & 0xff) as u8,
                b4 == ((x >> 32) & 0xff) as u8, b5 == ((x >> 40) & 0xff) as u8, b6 == ((x >> 48) & 0xff) as u8, b7 == ((x >> 56) & 0xff) as u8;
    }
    if n < 0x100_0000_0000_0000 {
        assert(x < 0x100_0000_0000_0000u64);
        assert(((x >> 56) & 0xff) as u8 == 0u8) by (bit_vector) requires x < 0x100_0000_0000_0000u64;
    }
}

pub proof fn lemma_le64_injective(s: Seq<u8>, t: Seq<u8>)
    requires s.len() == 8, t.len() == 8, le64_val(s) == le64_val(t)
    ensures s == t
{
    let (a0, a1, a2, a3, a4, a5, a6, a7) = (s[0], s[1], s[2], s[3], s[4], s[5], s[6], s[7]);
    let (c0, c1, c2, c3, c4, c5, c6, c7) = (t[0], t[1], t[2], t[3], t[4], t[5], t[6], t[7]);
    assert(le64_u(s) == le64_u(t));
    assert(a0 == c0 && a1 == c1 && a2 == c2 && a3 == c3 && a4 == c4 && a5 == c5 && a6 == c6 && a7 == c7) by (bit_vector)
        requires
            ((a0 as u64) | ((a1 as u64) << 8) | ((a2 as u64) << 16) | ((a3 as u64) << 24) | ((a4 as u64) << 32)
                | ((a5 as u64) << 40) | ((a6 as u64) << 48) | ((a7 as u64) << 56))
            == ((c0 as u64) | ((c1 as u64) << 8) | ((c2 as u64) << 16) | ((c3 as u64) << 24) | ((c4 as u64) << 32)
                | ((c5 as u64) << 40) | ((c6 as u64) << 48) | ((c7 as u64) << 56));
    assert(s =~= t);
}

/// the length-prefixed image of a set key:  8-byte LE length ++ key bytes
pub open spec fn lp(kb: Seq<u8>) -> Seq<u8> { le64(kb.len()) + kb }

/// the prefix extractor of the key-of-set column families, as a function on byte strings
pub open spec fn tk(s: Seq<u8>) -> Seq<u8> {
    if s.len() < 8 { s } else {
        let n = le64_val(s.subrange(0, 8));
        if s.len() < 8 + n { s } else { s.subrange(0, 8 + n as int) }
    }
}
