
// target assumption: 64-bit usize (write_usize / length prefixes are 8 bytes)
global size_of usize == 8;

// ---------------------------------------------------------------- std facts (trusted)
/// fixed-width little-endian image of an integer (`to_le_bytes`): fixed length, injective
pub trait LeImage: Sized {
    spec fn lei(&self) -> Seq<u8>;
    spec fn width() -> nat;
}

pub open spec fn le_u8(v: u8) -> Seq<u8> { seq![v] }
impl LeImage for u8 { open spec fn lei(&self) -> Seq<u8> { le_u8(*self) } open spec fn width() -> nat { 1 } }

pub uninterp spec fn le_i8(v: i8) -> Seq<u8>;
impl LeImage for i8 { open spec fn lei(&self) -> Seq<u8> { le_i8(*self) } open spec fn width() -> nat { 1 } }

pub uninterp spec fn le_u16(v: u16) -> Seq<u8>;
impl LeImage for u16 { open spec fn lei(&self) -> Seq<u8> { le_u16(*self) } open spec fn width() -> nat { 2 } }

pub uninterp spec fn le_i16(v: i16) -> Seq<u8>;
impl LeImage for i16 { open spec fn lei(&self) -> Seq<u8> { le_i16(*self) } open spec fn width() -> nat { 2 } }

pub uninterp spec fn le_u32(v: u32) -> Seq<u8>;
impl LeImage for u32 { open spec fn lei(&self) -> Seq<u8> { le_u32(*self) } open spec fn width() -> nat { 4 } }

pub uninterp spec fn le_i32(v: i32) -> Seq<u8>;
impl LeImage for i32 { open spec fn lei(&self) -> Seq<u8> { le_i32(*self) } open spec fn width() -> nat { 4 } }

pub uninterp spec fn le_u64(v: u64) -> Seq<u8>;
impl LeImage for u64 { open spec fn lei(&self) -> Seq<u8> { le_u64(*self) } open spec fn width() -> nat { 8 } }

pub uninterp spec fn le_i64(v: i64) -> Seq<u8>;
impl LeImage for i64 { open spec fn lei(&self) -> Seq<u8> { le_i64(*self) } open spec fn width() -> nat { 8 } }

pub uninterp spec fn le_u128(v: u128) -> Seq<u8>;
impl LeImage for u128 { open spec fn lei(&self) -> Seq<u8> { le_u128(*self) } open spec fn width() -> nat { 16 } }

pub uninterp spec fn le_i128(v: i128) -> Seq<u8>;
impl LeImage for i128 { open spec fn lei(&self) -> Seq<u8> { le_i128(*self) } open spec fn width() -> nat { 16 } }

pub uninterp spec fn le_usize(v: usize) -> Seq<u8>;
impl LeImage for usize { open spec fn lei(&self) -> Seq<u8> { le_usize(*self) } open spec fn width() -> nat { 8 } }

pub uninterp spec fn le_isize(v: isize) -> Seq<u8>;
impl LeImage for isize { open spec fn lei(&self) -> Seq<u8> { le_isize(*self) } open spec fn width() -> nat { 8 } }


#[verifier::external_body]
pub broadcast proof fn axiom_le_len<T: LeImage>(v: T)
    ensures #[trigger] v.lei().len() == T::width()
{
}
#[verifier::external_body]
pub proof fn axiom_le_injective<T: LeImage>(a: T, b: T)
    requires a.lei() == b.lei()
    ensures a == b
{
}

/// rule R11: `x.to_le_bytes()` -> `x.verif_to_le_bytes()`
pub trait VerifToLe: LeImage { type Out; fn verif_to_le_bytes(self) -> Self::Out; }

impl VerifToLe for u8 {
    type Out = [u8; 1];
    #[verifier::external_body]
    fn verif_to_le_bytes(self) -> (r: [u8; 1]) ensures r@ == self.lei() { unimplemented!() }
}

impl VerifToLe for i8 {
    type Out = [u8; 1];
    #[verifier::external_body]
    fn verif_to_le_bytes(self) -> (r: [u8; 1]) ensures r@ == self.lei() { unimplemented!() }
}

impl VerifToLe for u16 {
    type Out = [u8; 2];
    #[verifier::external_body]
    fn verif_to_le_bytes(self) -> (r: [u8; 2]) ensures r@ == self.lei() { unimplemented!() }
}

impl VerifToLe for i16 {
    type Out = [u8; 2];
    #[verifier::external_body]
    fn verif_to_le_bytes(self) -> (r: [u8; 2]) ensures r@ == self.lei() { unimplemented!() }
}

impl VerifToLe for u32 {
    type Out = [u8; 4];
    #[verifier::external_body]
    fn verif_to_le_bytes(self) -> (r: [u8; 4]) ensures r@ == self.lei() { unimplemented!() }
}

impl VerifToLe for i32 {
    type Out = [u8; 4];
    #[verifier::external_body]
    fn verif_to_le_bytes(self) -> (r: [u8; 4]) ensures r@ == self.lei() { unimplemented!() }
}

impl VerifToLe for u64 {
    type Out = [u8; 8];
    #[verifier::external_body]
    fn verif_to_le_bytes(self) -> (r: [u8; 8]) ensures r@ == self.lei() { unimplemented!() }
}

impl VerifToLe for i64 {
    type Out = [u8; 8];
    #[verifier::external_body]
    fn verif_to_le_bytes(self) -> (r: [u8; 8]) ensures r@ == self.lei() { unimplemented!() }
}

impl VerifToLe for u128 {
    type Out = [u8; 16];
    #[verifier::external_body]
    fn verif_to_le_bytes(self) -> (r: [u8; 16]) ensures r@ == self.lei() { unimplemented!() }
}

impl VerifToLe for i128 {
    type Out = [u8; 16];
    #[verifier::external_body]
    fn verif_to_le_bytes(self) -> (r: [u8; 16]) ensures r@ == self.lei() { unimplemented!() }
}

impl VerifToLe for usize {
    type Out = [u8; 8];
    #[verifier::external_body]
    fn verif_to_le_bytes(self) -> (r: [u8; 8]) ensures r@ == self.lei() { unimplemented!() }
}

impl VerifToLe for isize {
    type Out = [u8; 8];
    #[verifier::external_body]
    fn verif_to_le_bytes(self) -> (r: [u8; 8]) ensures r@ == self.lei() { unimplemented!() }
}


/// UTF-8 image of a character sequence: the bytes of a str are a function of its view (vstd: equal views => equal spec_bytes)
pub uninterp spec fn utf8(chars: Seq<char>) -> Seq<u8>;
#[verifier::external_body]
pub broadcast proof fn axiom_spec_bytes_utf8(s: &str)
    ensures #[trigger] s.spec_bytes() == utf8(s@), utf8(s@).len() <= 0x7FFF_FFFF_FFFF_FFFF
{
}
/// rule R14: byte length of a string slice (`str::len`)
#[verifier::external_body]
pub fn verif_str_len(s: &str) -> (r: usize)
    ensures r == utf8(s@).len()
{ unimplemented!() }

/// u8::from(bool) is 0 / 1
#[verifier::external_body]
pub proof fn axiom_u8_from_bool()
    ensures
        <u8 as FromSpec<bool>>::obeys_from_spec(),
        forall|b: bool| #[trigger] <u8 as FromSpec<bool>>::from_spec(b) == (if b { 1u8 } else { 0u8 }),
{
}

/// enum discriminants (std::mem::discriminant / Discriminant<T>), as the compiler lays them out: a fixed number of bytes per
/// enum type, equal for two values exactly when they are the same variant (same compiler assumed)
#[verifier::external_type_specification]
#[verifier::external_body]
#[verifier::reject_recursive_types(T)]
pub struct ExDiscriminant<T>(Discriminant<T>);
pub uninterp spec fn spec_discriminant<T>(v: &T) -> Discriminant<T>;
pub uninterp spec fn disc_image<T>(d: Discriminant<T>) -> Seq<u8>;
pub uninterp spec fn disc_width<T>() -> nat;
pub assume_specification<T>[ std::mem::discriminant::<T> ](v: &T) -> (r: Discriminant<T>)
    ensures r == spec_discriminant(v);
#[verifier::external_body]
pub broadcast proof fn axiom_disc_len<T>(d: Discriminant<T>)
    ensures #[trigger] disc_image(d).len() == disc_width::<T>()
{
}
#[verifier::external_body]
pub proof fn axiom_disc_option<T>(a: &Option<T>, b: &Option<T>)
    ensures (disc_image(spec_discriminant(a)) == disc_image(spec_discriminant(b))) <==> ((a is Some) == (b is Some))
{
}
#[verifier::external_body]
pub proof fn axiom_disc_result<T, E>(a: &Result<T, E>, b: &Result<T, E>)
    ensures (disc_image(spec_discriminant(a)) == disc_image(spec_discriminant(b))) <==> ((a is Ok) == (b is Ok))
{
}

// ---------------------------------------------------------------- vocabulary
/// the byte stream a value feeds to the hasher (the oracle; written from the property: length prefixes for sequences and strings,
/// discriminant prefix for Option/Result/enums, fields in declaration order, pointers transparent)
pub trait Wire {
    spec fn bytes(&self) -> Seq<u8>;
}

pub open spec fn tail_of(s: Seq<u8>, n: int) -> Seq<u8> { s.subrange(n, s.len() as int) }

pub broadcast proof fn lemma_cat_assoc(a: Seq<u8>, b: Seq<u8>, c: Seq<u8>)
    ensures #[trigger] ((a + b) + c) == a + (b + c)
{
    assert(((a + b) + c) =~= a + (b + c));
}

pub broadcast proof fn lemma_cat_empty(a: Seq<u8>)
    ensures #[trigger] (a + Seq::<u8>::empty()) == a, #[trigger] (Seq::<u8>::empty() + a) == a
{
    assert(a + Seq::<u8>::empty() =~= a);
    assert(Seq::<u8>::empty() + a =~= a);
}

/// two strings of the same known length that are prefixes of equal strings are equal, and so are the rests
pub proof fn lemma_fixed_split(x: Seq<u8>, y: Seq<u8>, ta: Seq<u8>, tb: Seq<u8>)
    requires x.len() == y.len(), x + ta == y + tb
    ensures x == y, ta == tb
{
    assert(x =~= (x + ta).subrange(0, x.len() as int));
    assert(y =~= (y + tb).subrange(0, y.len() as int));
    assert(ta =~= tail_of(x + ta, x.len() as int));
    assert(tb =~= tail_of(y + tb, y.len() as int));
}

pub proof fn lemma_le_prefix_free<T: LeImage>(a: T, b: T, ta: Seq<u8>, tb: Seq<u8>)
    requires a.lei() + ta == b.lei() + tb
    ensures a == b, ta == tb
{
    axiom_le_len(a);
    axiom_le_len(b);
    lemma_fixed_split(a.lei(), b.lei(), ta, tb);
    axiom_le_injective(a, b);
}


impl Wire for u8 { open spec fn bytes(&self) -> Seq<u8> { self.lei() } }
impl Wire for i8 { open spec fn bytes(&self) -> Seq<u8> { self.lei() } }
impl Wire for u16 { open spec fn bytes(&self) -> Seq<u8> { self.lei() } }
impl Wire for i16 { open spec fn bytes(&self) -> Seq<u8> { self.lei() } }
impl Wire for u32 { open spec fn bytes(&self) -> Seq<u8> { self.lei() } }
impl Wire for i32 { open spec fn bytes(&self) -> Seq<u8> { self.lei() } }
impl Wire for u64 { open spec fn bytes(&self) -> Seq<u8> { self.lei() } }
impl Wire for i64 { open spec fn bytes(&self) -> Seq<u8> { self.lei() } }
impl Wire for u128 { open spec fn bytes(&self) -> Seq<u8> { self.lei() } }
impl Wire for i128 { open spec fn bytes(&self) -> Seq<u8> { self.lei() } }
impl Wire for usize { open spec fn bytes(&self) -> Seq<u8> { self.lei() } }
impl Wire for isize { open spec fn bytes(&self) -> Seq<u8> { self.lei() } }
impl Wire for bool { open spec fn bytes(&self) -> Seq<u8> { (if *self { 1u8 } else { 0u8 }).lei() } }
impl Wire for char { open spec fn bytes(&self) -> Seq<u8> { (*self as u32).lei() } }

// ---------------------------------------------------------------- the StableHasher trait (real declaration + contracts)
// `sub_hash` takes `&mut dyn FnMut(&mut dyn StableHasher)`: `dyn` is outside Verus; the method and the unordered-collection impls
// that call it are not extracted (rule R7) -- they are covered by the bounded run only.
//@ trait crates/stable_hash/src/lib.rs :: pub trait StableHasher: Send + Sync + 'static
//@ extra
    /// ghost: everything fed to the hasher so far
    spec fn written(&self) -> Seq<u8>;
//@ member write
//@ sig
        ensures final(self).written() =~= old(self).written() + bytes@

//@ member write_u8
//@ sig
        ensures final(self).written() =~= old(self).written() + i.bytes()
//@ member write_i8
//@ sig
        ensures final(self).written() =~= old(self).written() + i.bytes()
//@ member write_u16
//@ sig
        ensures final(self).written() =~= old(self).written() + i.bytes()
//@ member write_i16
//@ sig
        ensures final(self).written() =~= old(self).written() + i.bytes()
//@ member write_u32
//@ sig
        ensures final(self).written() =~= old(self).written() + i.bytes()
//@ member write_i32
//@ sig
        ensures final(self).written() =~= old(self).written() + i.bytes()
//@ member write_u64
//@ sig
        ensures final(self).written() =~= old(self).written() + i.bytes()
//@ member write_i64
//@ sig
        ensures final(self).written() =~= old(self).written() + i.bytes()
//@ member write_u128
//@ sig
        ensures final(self).written() =~= old(self).written() + i.bytes()
//@ member write_i128
//@ sig
        ensures final(self).written() =~= old(self).written() + i.bytes()
//@ member write_usize
//@ sig
        ensures final(self).written() =~= old(self).written() + i.bytes()
//@ member write_isize
//@ sig
        ensures final(self).written() =~= old(self).written() + i.bytes()
//@ member write_length_prefix
//@ sig
        ensures final(self).written() =~= old(self).written() + len.bytes()
//@ member write_str
//@ strlen s
//@ sig
        ensures final(self).written() =~= old(self).written() + Wire::bytes(s)
//@ head
        broadcast use lemma_cat_assoc, axiom_spec_bytes_utf8;
//@ end

// ---------------------------------------------------------------- the StableHash trait
//@ trait crates/stable_hash/src/lib.rs :: pub trait StableHash
//@ header+ : Wire
//@ extra
    /// discriminating: part of the contract every implementor proves -- the stream is self-delimiting (hence injective)
    proof fn prefix_free(a: &Self, b: &Self, ta: Seq<u8>, tb: Seq<u8>)
        requires a.bytes() + ta == b.bytes() + tb
        ensures a.bytes() == b.bytes(), ta == tb;
//@ member stable_hash
//@ sig
        ensures final(state).written() =~= old(state).written() + self.bytes()
//@ end

/// image of a string: 8-byte length prefix + UTF-8 bytes
impl Wire for str { open spec fn bytes(&self) -> Seq<u8> { (utf8(self@).len() as usize).lei() + utf8(self@) } }
impl Wire for String { open spec fn bytes(&self) -> Seq<u8> { (utf8(self@).len() as usize).lei() + utf8(self@) } }

// ---------------------------------------------------------------- primitives
//@ impl crates/stable_hash/src/lib.rs :: impl StableHash for u8
//@ extra
    proof fn prefix_free(a: &Self, b: &Self, ta: Seq<u8>, tb: Seq<u8>) { lemma_le_prefix_free(*a, *b, ta, tb); }
//@ member stable_hash
//@ end
//@ impl crates/stable_hash/src/lib.rs :: impl StableHash for i8
//@ extra
    proof fn prefix_free(a: &Self, b: &Self, ta: Seq<u8>, tb: Seq<u8>) { lemma_le_prefix_free(*a, *b, ta, tb); }
//@ member stable_hash
//@ end
//@ impl crates/stable_hash/src/lib.rs :: impl StableHash for u16
//@ extra
    proof fn prefix_free(a: &Self, b: &Self, ta: Seq<u8>, tb: Seq<u8>) { lemma_le_prefix_free(*a, *b, ta, tb); }
//@ member stable_hash
//@ end
//@ impl crates/stable_hash/src/lib.rs :: impl StableHash for i16
//@ extra
    proof fn prefix_free(a: &Self, b: &Self, ta: Seq<u8>, tb: Seq<u8>) { lemma_le_prefix_free(*a, *b, ta, tb); }
//@ member stable_hash
//@ end
//@ impl crates/stable_hash/src/lib.rs :: impl StableHash for u32
//@ extra
    proof fn prefix_free(a: &Self, b: &Self, ta: Seq<u8>, tb: Seq<u8>) { lemma_le_prefix_free(*a, *b, ta, tb); }
//@ member stable_hash
//@ end
//@ impl crates/stable_hash/src/lib.rs :: impl StableHash for i32
//@ extra
    proof fn prefix_free(a: &Self, b: &Self, ta: Seq<u8>, tb: Seq<u8>) { lemma_le_prefix_free(*a, *b, ta, tb); }
//@ member stable_hash
//@ end
//@ impl crates/stable_hash/src/lib.rs :: impl StableHash for u64
//@ extra
    proof fn prefix_free(a: &Self, b: &Self, ta: Seq<u8>, tb: Seq<u8>) { lemma_le_prefix_free(*a, *b, ta, tb); }
//@ member stable_hash
//@ end
//@ impl crates/stable_hash/src/lib.rs :: impl StableHash for i64
//@ extra
    proof fn prefix_free(a: &Self, b: &Self, ta: Seq<u8>, tb: Seq<u8>) { lemma_le_prefix_free(*a, *b, ta, tb); }
//@ member stable_hash
//@ end
//@ impl crates/stable_hash/src/lib.rs :: impl StableHash for u128
//@ extra
    proof fn prefix_free(a: &Self, b: &Self, ta: Seq<u8>, tb: Seq<u8>) { lemma_le_prefix_free(*a, *b, ta, tb); }
//@ member stable_hash
//@ end
//@ impl crates/stable_hash/src/lib.rs :: impl StableHash for i128
//@ extra
    proof fn prefix_free(a: &Self, b: &Self, ta: Seq<u8>, tb: Seq<u8>) { lemma_le_prefix_free(*a, *b, ta, tb); }
//@ member stable_hash
//@ end
//@ impl crates/stable_hash/src/lib.rs :: impl StableHash for usize
//@ extra
    proof fn prefix_free(a: &Self, b: &Self, ta: Seq<u8>, tb: Seq<u8>) { lemma_le_prefix_free(*a, *b, ta, tb); }
//@ member stable_hash
//@ end
//@ impl crates/stable_hash/src/lib.rs :: impl StableHash for isize
//@ extra
    proof fn prefix_free(a: &Self, b: &Self, ta: Seq<u8>, tb: Seq<u8>) { lemma_le_prefix_free(*a, *b, ta, tb); }
//@ member stable_hash
//@ end
//@ impl crates/stable_hash/src/lib.rs :: impl StableHash for bool
//@ extra
    proof fn prefix_free(a: &Self, b: &Self, ta: Seq<u8>, tb: Seq<u8>) {
        lemma_le_prefix_free(if *a { 1u8 } else { 0u8 }, if *b { 1u8 } else { 0u8 }, ta, tb);
    }
//@ member stable_hash
//@ head
        proof { axiom_u8_from_bool(); }
//@ end
//@ impl crates/stable_hash/src/lib.rs :: impl StableHash for char
//@ extra
    proof fn prefix_free(a: &Self, b: &Self, ta: Seq<u8>, tb: Seq<u8>) { lemma_le_prefix_free(*a as u32, *b as u32, ta, tb); }
//@ member stable_hash
//@ end

/// length-prefixed byte strings are prefix-free
pub proof fn lemma_lenpref_prefix_free(x: Seq<u8>, y: Seq<u8>, ta: Seq<u8>, tb: Seq<u8>)
    requires x.len() <= usize::MAX, y.len() <= usize::MAX, ((x.len() as usize).lei() + x) + ta == ((y.len() as usize).lei() + y) + tb
    ensures x == y, ta == tb
{
    broadcast use lemma_cat_assoc;
    lemma_le_prefix_free(x.len() as usize, y.len() as usize, x + ta, y + tb);
    lemma_fixed_split(x, y, ta, tb);
}

/// Rust invariant (trusted): an allocated string has at most isize::MAX bytes -- stated for VALUES of the string types
/// (an arbitrary Seq<char> has no such bound)
#[verifier::external_body]
pub proof fn axiom_str_len_bound(s: &str)
    ensures utf8(s@).len() <= 0x7FFF_FFFF_FFFF_FFFF
{
}
#[verifier::external_body]
pub proof fn axiom_string_len_bound(s: &String)
    ensures utf8(s@).len() <= 0x7FFF_FFFF_FFFF_FFFF
{
}

//@ impl crates/stable_hash/src/lib.rs :: impl StableHash for str
//@ extra
    proof fn prefix_free(a: &Self, b: &Self, ta: Seq<u8>, tb: Seq<u8>) {
        axiom_str_len_bound(a); axiom_str_len_bound(b);
        lemma_lenpref_prefix_free(utf8(a@), utf8(b@), ta, tb);
    }
//@ member stable_hash
//@ end
//@ impl crates/stable_hash/src/lib.rs :: impl StableHash for String
//@ extra
    proof fn prefix_free(a: &Self, b: &Self, ta: Seq<u8>, tb: Seq<u8>) {
        axiom_string_len_bound(a); axiom_string_len_bound(b);
        lemma_lenpref_prefix_free(utf8(a@), utf8(b@), ta, tb);
    }
//@ member stable_hash
//@ end


