// ---------------------------------------------------------------- interface stand-ins (declarations only, no code)
/// byte image of a value under the Postcard encoding (C12's oracle)
pub trait Wire { spec fn bytes(&self) -> Seq<u8>; }
/// `Encode` is verified in the C12 unit; here only its contract is used, through `verif_postcard_encode`
pub trait Encode: Wire {}
#[verifier::external_body]
pub struct Plugin { _p: u8 }

//@ enum crates/storage/src/kv_database.rs :: DiscriminantEncoding
#[derive(PartialEq, Eq, Structural, Clone, Copy)]
//@ end

/// qbice_stable_type_id::StableTypeID (128 bits) and the Identifiable constant of a column type
#[derive(Clone, Copy, PartialEq, Eq, Structural)]
pub struct StableTypeID(pub u64, pub u64);
pub trait Identifiable { const STABLE_TYPE_ID: StableTypeID; }

/// interface stand-in for `WideColumn` (only the parts the key scheme uses)
pub trait WideColumn: Identifiable {
    type Discriminant: Encode;
    type Key: Encode;
    /// assumption: `discriminant_encoding()` is a constant of the column type
    spec fn enc() -> DiscriminantEncoding;
    fn discriminant_encoding() -> (r: DiscriminantEncoding) ensures r == Self::enc();
}
/// interface stand-in for `WideColumnValue`
pub trait WideColumnValue<C: WideColumn>: Encode {
    /// assumption: `discriminant()` is a constant of the value type
    spec fn disc() -> C::Discriminant;
    fn discriminant() -> (r: C::Discriminant) ensures r == Self::disc();
}

// ---------------------------------------------------------------- opaque wrappers introduced by rules R10 / R11 / R12 (trusted)
/// R10: `PostcardEncoder::new(buf).encode(key, plugin).expect(..)` appends exactly the image of key (C12: Encode contract,
/// `Vec<u8>: Write` appends and never fails)
#[verifier::external_body]
pub fn verif_postcard_encode<K: Encode>(key: &K, buffer: &mut Vec<u8>, plugin: &Plugin)
    ensures final(buffer)@ == old(buffer)@ + key.bytes()
{ unimplemented!() }

/// R11: u64::from_le_bytes
#[verifier::external_body]
pub fn verif_u64_from_le_bytes(b: [u8; 8]) -> (r: u64)
    ensures r as nat == le64_val(b@)
{ unimplemented!() }

/// R11: u64::to_le_bytes
pub trait VerifToLe { type Out; fn verif_to_le_bytes(self) -> Self::Out; }
impl VerifToLe for u64 {
    type Out = [u8; 8];
    #[verifier::external_body]
    fn verif_to_le_bytes(self) -> (r: [u8; 8])
        ensures r@ == le64(self as nat)
    { unimplemented!() }
}

/// R12: `buf[a..b].copy_from_slice(src)`
#[verifier::external_body]
pub fn verif_copy_into(buf: &mut Vec<u8>, a: usize, b: usize, src: &[u8; 8])
    requires a <= b <= old(buf)@.len(), b - a == 8
    ensures final(buf)@ == old(buf)@.subrange(0, a as int) + src@ + old(buf)@.subrange(b as int, old(buf)@.len() as int)
{ unimplemented!() }

// std facts (trusted)
pub assume_specification<T: Clone>[ <[T]>::to_vec ](s: &[T]) -> (r: Vec<T>)
    ensures r@ == s@;

#[verifier::external_type_specification]
#[verifier::external_body]
pub struct ExTryFromSliceError(std::array::TryFromSliceError);

/// `<[u8; 8]>::try_from(&[u8])` succeeds exactly on slices of length 8 and copies them
#[verifier::external_body]
pub proof fn axiom_try_from_slice8()
    ensures
        <&[u8] as TryIntoSpec<[u8; 8]>>::obeys_try_into_spec(),
        forall|s: &[u8]| s@.len() == 8 ==> (#[trigger] <&[u8] as TryIntoSpec<[u8; 8]>>::try_into_spec(s) matches Ok(a) && a@ == s@),
{
}

