
// ---------------------------------------------------------------- opaque environment
#[verifier::external_type_specification]
#[verifier::external_body]
pub struct ExIoError(std::io::Error);

#[verifier::external_type_specification]
pub struct ExIoErrorKind(std::io::ErrorKind);

// R2: every `io::Error::new(..)` of the source becomes this opaque constructor
#[verifier::external_body]
pub fn verif_io_error() -> std::io::Error { unimplemented!() }

// Plugin / Session: opaque context objects; no impl under contract looks inside.
#[verifier::external_body]
pub struct Plugin { _p: u8 }
#[verifier::external_body]
pub struct Session { _p: u8 }

// std fact (trusted): u8::from(bool) is 0 / 1
#[verifier::external_body]
pub proof fn axiom_u8_from_bool()
    ensures
        <u8 as FromSpec<bool>>::obeys_from_spec(),
        forall|b: bool| #[trigger] <u8 as FromSpec<bool>>::from_spec(b) == (if b { 1u8 } else { 0u8 }),
{
}

// std fact (trusted): char::from_u32 inverts `as u32`
pub open spec fn is_scalar(i: u32) -> bool { i < 0xD800 || (0xE000 <= i && i <= 0x10FFFF) }
pub assume_specification[ char::from_u32 ](i: u32) -> (r: Option<char>)
    ensures
        is_scalar(i) ==> (r matches Some(c) && c as u32 == i),
        !is_scalar(i) ==> r is None,
;

// ---------------------------------------------------------------- vocabulary
/// canonical LEB128 image of a natural number
pub open spec fn leb(v: nat) -> Seq<u8>
    decreases v
{
    if v < 0x80 { seq![v as u8] } else { seq![((v % 0x80) + 0x80) as u8] + leb(v / 0x80) }
}

/// zigzag map Z -> N
pub open spec fn zz(i: int) -> nat {
    if i >= 0 { (2 * i) as nat } else { (-2 * i - 1) as nat }
}

/// the byte image of a value (the oracle; written from the documented wire format)
pub trait Wire {
    spec fn bytes(&self) -> Seq<u8>;
}

pub open spec fn tail_of(s: Seq<u8>, n: int) -> Seq<u8> { s.subrange(n, s.len() as int) }

/// reader contract for leaf readers: on any input that starts with the image of v, returns exactly v
/// and leaves exactly the rest.
pub open spec fn reads_exact<T: Wire>(before: Seq<u8>, r: io::Result<T>, after: Seq<u8>) -> bool {
    forall|v: T, tail: Seq<u8>| #![trigger v.bytes() + tail] before == v.bytes() + tail ==>
        (r == Ok::<T, io::Error>(v) && after == tail)
}

/// Decode contract: completeness on the encoder's image, exact consumption.
pub open spec fn decodes_to<T: Wire>(before: Seq<u8>, r: io::Result<T>, after: Seq<u8>) -> bool {
    forall|v: T, tail: Seq<u8>| #![trigger v.bytes() + tail] before == v.bytes() + tail ==>
        (r matches Ok(w) && w.bytes() == v.bytes() && after == tail)
}

pub proof fn lemma_leb_nonempty(v: nat)
    ensures leb(v).len() >= 1
    decreases v
{
    if v >= 0x80 { lemma_leb_nonempty(v / 0x80); }
}

pub proof fn lemma_leb_prefix_free(a: nat, b: nat, ta: Seq<u8>, tb: Seq<u8>)
    requires leb(a) + ta == leb(b) + tb
    ensures a == b, ta == tb
    decreases a
{
    let sa = leb(a) + ta;
    let sb = leb(b) + tb;
    lemma_leb_nonempty(a);
    lemma_leb_nonempty(b);
    assert(sa[0] == leb(a)[0]);
    assert(sb[0] == leb(b)[0]);
    if a < 0x80 {
        if b < 0x80 {
            assert(leb(a) =~= seq![a as u8]);
            assert(leb(b) =~= seq![b as u8]);
            assert(ta =~= tail_of(sa, 1));
            assert(tb =~= tail_of(sb, 1));
        } else {
            assert(leb(b)[0] == ((b % 0x80) + 0x80) as u8);
            assert(false);
        }
    } else {
        if b < 0x80 {
            assert(leb(a)[0] == ((a % 0x80) + 0x80) as u8);
            assert(false);
        } else {
            assert(leb(a)[0] == ((a % 0x80) + 0x80) as u8);
            assert(leb(b)[0] == ((b % 0x80) + 0x80) as u8);
            assert(a % 0x80 == b % 0x80);
            assert(leb(a / 0x80) + ta =~= tail_of(sa, 1));
            assert(leb(b / 0x80) + tb =~= tail_of(sb, 1));
            lemma_leb_prefix_free(a / 0x80, b / 0x80, ta, tb);
            assert(a == (a / 0x80) * 0x80 + a % 0x80);
            assert(b == (b / 0x80) * 0x80 + b % 0x80);
        }
    }
}

pub proof fn lemma_zz_injective(a: int, b: int)
    requires zz(a) == zz(b)
    ensures a == b
{
}

/// (s + t)[0..] helpers used everywhere: associativity and splitting of concatenations
pub broadcast proof fn lemma_cat_assoc(a: Seq<u8>, b: Seq<u8>, c: Seq<u8>)
    ensures #[trigger] ((a + b) + c) == a + (b + c)
{
    assert(((a + b) + c) =~= a + (b + c));
}

pub broadcast proof fn lemma_cat_empty(a: Seq<u8>)
    ensures #[trigger] (a + Seq::<u8>::empty()) == a, #[trigger] (Seq::<u8>::empty() + a) == a
{
    assert(a + Seq::<u8>::empty() =~= a);
    assert(Seq::<u8>::empty() + a =~= a);
}

pub proof fn lemma_cat_cancel_left(a: Seq<u8>, x: Seq<u8>, y: Seq<u8>)
    requires a + x == a + y
    ensures x == y
{
    assert(x =~= tail_of(a + x, a.len() as int));
    assert(y =~= tail_of(a + y, a.len() as int));
}

pub proof fn lemma_one_byte_split(b: u8, c: u8, ta: Seq<u8>, tb: Seq<u8>)
    requires seq![b] + ta == seq![c] + tb
    ensures b == c, ta == tb
{
    assert((seq![b] + ta)[0] == b);
    assert((seq![c] + tb)[0] == c);
    assert(ta =~= tail_of(seq![b] + ta, 1));
    assert(tb =~= tail_of(seq![c] + tb, 1));
}

// ---------------------------------------------------------------- Wire images of the primitives
impl Wire for u8 { open spec fn bytes(&self) -> Seq<u8> { seq![*self] } }
impl Wire for i8 { open spec fn bytes(&self) -> Seq<u8> { seq![*self as u8] } }
impl Wire for bool { open spec fn bytes(&self) -> Seq<u8> { seq![if *self { 1u8 } else { 0u8 }] } }
impl Wire for u16 { open spec fn bytes(&self) -> Seq<u8> { leb(*self as nat) } }
impl Wire for u32 { open spec fn bytes(&self) -> Seq<u8> { leb(*self as nat) } }
impl Wire for u64 { open spec fn bytes(&self) -> Seq<u8> { leb(*self as nat) } }
impl Wire for u128 { open spec fn bytes(&self) -> Seq<u8> { leb(*self as nat) } }
impl Wire for usize { open spec fn bytes(&self) -> Seq<u8> { leb(*self as nat) } }
impl Wire for i16 { open spec fn bytes(&self) -> Seq<u8> { leb(zz(*self as int)) } }
impl Wire for i32 { open spec fn bytes(&self) -> Seq<u8> { leb(zz(*self as int)) } }
impl Wire for i64 { open spec fn bytes(&self) -> Seq<u8> { leb(zz(*self as int)) } }
impl Wire for i128 { open spec fn bytes(&self) -> Seq<u8> { leb(zz(*self as int)) } }
impl Wire for isize { open spec fn bytes(&self) -> Seq<u8> { leb(zz(*self as int)) } }
impl Wire for str { open spec fn bytes(&self) -> Seq<u8> { lenpref(utf8(self@)) } }
impl Wire for String { open spec fn bytes(&self) -> Seq<u8> { lenpref(utf8(self@)) } }
impl Wire for char { open spec fn bytes(&self) -> Seq<u8> { leb(*self as u32 as nat) } }


// ---------------------------------------------------------------- strings (rule R14)
/// UTF-8 image of a character sequence: the bytes of a str are a function of its view, and UTF-8 is injective
pub uninterp spec fn utf8(chars: Seq<char>) -> Seq<u8>;
#[verifier::external_body]
pub broadcast proof fn axiom_spec_bytes_utf8(s: &str)
    ensures #[trigger] s.spec_bytes() == utf8(s@)
{
}
/// Rust invariant: an allocated string holds at most isize::MAX bytes (stated per string TYPE, for values of that type;
/// an arbitrary Seq<char> has no such bound)
#[verifier::external_body]
pub broadcast proof fn axiom_str_len_bound(s: &str)
    ensures #[trigger] utf8(s@).len() <= usize::MAX, utf8(s@).len() <= isize::MAX
{
}
#[verifier::external_body]
pub broadcast proof fn axiom_string_len_bound(s: String)
    ensures #[trigger] utf8(s@).len() <= usize::MAX, utf8(s@).len() <= isize::MAX
{
}
#[verifier::external_body]
pub proof fn axiom_utf8_injective(a: Seq<char>, b: Seq<char>)
    requires utf8(a) == utf8(b)
    ensures a == b
{
}
/// rule R14: byte length of a string slice (`str::len`)
#[verifier::external_body]
pub fn verif_str_len(s: &str) -> (r: usize)
    ensures r == utf8(s@).len()
{ unimplemented!() }

#[verifier::external_type_specification]
#[verifier::external_body]
pub struct ExFromUtf8Error(std::string::FromUtf8Error);
/// String::from_utf8 accepts exactly the UTF-8 images and returns the string with that view
pub assume_specification[ String::from_utf8 ](v: Vec<u8>) -> (r: Result<String, std::string::FromUtf8Error>)
    ensures forall|c: Seq<char>| v@ == #[trigger] utf8(c) ==> (r matches Ok(s) && s@ == c);

/// length-prefixed payload: LEB128 byte count, then the bytes
pub open spec fn lenpref(p: Seq<u8>) -> Seq<u8> { leb(p.len()) + p }

// ---------------------------------------------------------------- the Encoder trait (real declaration + contracts)
//@ trait crates/serialize/src/encode.rs :: pub trait Encoder
//@ extra
    /// ghost: everything written so far
    spec fn out(&self) -> Seq<u8>;
//@ member emit_u8
//@ ret r
//@ sig
        ensures r is Ok ==> final(self).out() =~= old(self).out() + v.bytes()
//@ member emit_u16
//@ ret r
//@ sig
        ensures r is Ok ==> final(self).out() =~= old(self).out() + v.bytes()
//@ member emit_u32
//@ ret r
//@ sig
        ensures r is Ok ==> final(self).out() =~= old(self).out() + v.bytes()
//@ member emit_u64
//@ ret r
//@ sig
        ensures r is Ok ==> final(self).out() =~= old(self).out() + v.bytes()
//@ member emit_u128
//@ ret r
//@ sig
        ensures r is Ok ==> final(self).out() =~= old(self).out() + v.bytes()
//@ member emit_usize
//@ ret r
//@ sig
        ensures r is Ok ==> final(self).out() =~= old(self).out() + v.bytes()
//@ member emit_i8
//@ ret r
//@ sig
        ensures r is Ok ==> final(self).out() =~= old(self).out() + v.bytes()
//@ member emit_i16
//@ ret r
//@ sig
        ensures r is Ok ==> final(self).out() =~= old(self).out() + v.bytes()
//@ member emit_i32
//@ ret r
//@ sig
        ensures r is Ok ==> final(self).out() =~= old(self).out() + v.bytes()
//@ member emit_i64
//@ ret r
//@ sig
        ensures r is Ok ==> final(self).out() =~= old(self).out() + v.bytes()
//@ member emit_i128
//@ ret r
//@ sig
        ensures r is Ok ==> final(self).out() =~= old(self).out() + v.bytes()
//@ member emit_isize
//@ ret r
//@ sig
        ensures r is Ok ==> final(self).out() =~= old(self).out() + v.bytes()
//@ member emit_raw_bytes
//@ ret r
//@ sig
        ensures r is Ok ==> final(self).out() =~= old(self).out() + s@
//@ member emit_bool
//@ ret r
//@ sig
        ensures r is Ok ==> final(self).out() =~= old(self).out() + v.bytes()
//@ head
        proof { axiom_u8_from_bool(); }
//@ member emit_char
//@ ret r
//@ sig
        ensures r is Ok ==> final(self).out() =~= old(self).out() + v.bytes()
//@ member emit_bytes
//@ ret r
//@ sig
        ensures r is Ok ==> final(self).out() =~= old(self).out() + leb(v@.len()) + v@
//@ member emit_str
//@ ret r
//@ sig
        ensures r is Ok ==> final(self).out() =~= old(self).out() + lenpref(utf8(v@))
//@ head
        broadcast use axiom_spec_bytes_utf8, axiom_str_len_bound, lemma_cat_assoc;
//@ end

// ---------------------------------------------------------------- the Decoder trait
//@ trait crates/serialize/src/decode.rs :: pub trait Decoder
//@ extra
    /// ghost: the bytes not yet consumed
    spec fn rest(&self) -> Seq<u8>;
//@ member read_u8
//@ ret r
//@ sig
        ensures reads_exact::<u8>(old(self).rest(), r, final(self).rest())
//@ member read_u16
//@ ret r
//@ sig
        ensures reads_exact::<u16>(old(self).rest(), r, final(self).rest())
//@ member read_u32
//@ ret r
//@ sig
        ensures reads_exact::<u32>(old(self).rest(), r, final(self).rest())
//@ member read_u64
//@ ret r
//@ sig
        ensures reads_exact::<u64>(old(self).rest(), r, final(self).rest())
//@ member read_u128
//@ ret r
//@ sig
        ensures reads_exact::<u128>(old(self).rest(), r, final(self).rest())
//@ member read_usize
//@ ret r
//@ sig
        ensures reads_exact::<usize>(old(self).rest(), r, final(self).rest())
//@ member read_i8
//@ ret r
//@ sig
        ensures reads_exact::<i8>(old(self).rest(), r, final(self).rest())
//@ member read_i16
//@ ret r
//@ sig
        ensures reads_exact::<i16>(old(self).rest(), r, final(self).rest())
//@ member read_i32
//@ ret r
//@ sig
        ensures reads_exact::<i32>(old(self).rest(), r, final(self).rest())
//@ member read_i64
//@ ret r
//@ sig
        ensures reads_exact::<i64>(old(self).rest(), r, final(self).rest())
//@ member read_i128
//@ ret r
//@ sig
        ensures reads_exact::<i128>(old(self).rest(), r, final(self).rest())
//@ member read_isize
//@ ret r
//@ sig
        ensures reads_exact::<isize>(old(self).rest(), r, final(self).rest())
//@ member read_raw_bytes
//@ ret r
//@ sig
        ensures
            len <= old(self).rest().len() ==> (r matches Ok(b) && b@ == old(self).rest().subrange(0, len as int)
                && final(self).rest() == tail_of(old(self).rest(), len as int))
//@ member read_char
//@ ret r
//@ sig
        ensures reads_exact::<char>(old(self).rest(), r, final(self).rest())
//@ head
        proof {
            assert forall|v: char, tail: Seq<u8>| #![trigger v.bytes() + tail] old(self).rest() == v.bytes() + tail implies
                old(self).rest() == (v as u32).bytes() + tail by {}
        }
//@ member read_bool
//@ ret r
//@ sig
        ensures reads_exact::<bool>(old(self).rest(), r, final(self).rest())
//@ head
        proof {
            assert forall|v: bool, tail: Seq<u8>| #![trigger v.bytes() + tail] old(self).rest() == v.bytes() + tail implies
                old(self).rest() == (if v { 1u8 } else { 0u8 }).bytes() + tail by {}
        }
//@ member read_str
//@ ret r
//@ sig
        ensures
            // on any input that starts with the image of a (representable) character sequence: exactly that string, exactly the rest
            forall|c: Seq<char>, tail: Seq<u8>| #![trigger lenpref(utf8(c)) + tail]
                utf8(c).len() <= usize::MAX && old(self).rest() == lenpref(utf8(c)) + tail ==>
                (r matches Ok(w) && w@ == c && final(self).rest() == tail)
//@ head
        broadcast use lemma_cat_assoc;
        proof {
            assert forall|c: Seq<char>, tail: Seq<u8>| #![trigger lenpref(utf8(c)) + tail]
                utf8(c).len() <= usize::MAX && old(self).rest() == lenpref(utf8(c)) + tail implies
                old(self).rest() == (utf8(c).len() as usize).bytes() + (utf8(c) + tail) by {}
            assert forall|p: Seq<u8>, tail: Seq<u8>| #![trigger p + tail]
                (p + tail).subrange(0, p.len() as int) =~= p && tail_of(p + tail, p.len() as int) =~= tail by {}
        }
//@ end


// ---------------------------------------------------------------- Encode / Decode traits
//@ trait crates/serialize/src/encode.rs :: pub trait Encode
//@ header+ : Wire
//@ member encode
//@ ret r
//@ sig
        ensures r is Ok ==> final(encoder).out() =~= old(encoder).out() + self.bytes()
//@ end

//@ trait crates/serialize/src/decode.rs :: pub trait Decode: Sized
//@ header+ + Wire
//@ extra
    /// self-delimiting: part of the contract every implementor has to prove
    proof fn prefix_free(a: &Self, b: &Self, ta: Seq<u8>, tb: Seq<u8>)
        requires a.bytes() + ta == b.bytes() + tb
        ensures a.bytes() == b.bytes(), ta == tb;
//@ member decode
//@ ret r
//@ sig
        ensures decodes_to::<Self>(old(decoder).rest(), r, final(decoder).rest())
//@ end

// ---------------------------------------------------------------- primitives
//@ impl crates/serialize/src/encode.rs :: impl Encode for u8
//@ member encode
//@ end
//@ impl crates/serialize/src/decode.rs :: impl Decode for u8
//@ extra
    proof fn prefix_free(a: &Self, b: &Self, ta: Seq<u8>, tb: Seq<u8>) {
        lemma_one_byte_split(*a, *b, ta, tb);
    }
//@ member decode
//@ end
//@ impl crates/serialize/src/encode.rs :: impl Encode for u16
//@ member encode
//@ end
//@ impl crates/serialize/src/decode.rs :: impl Decode for u16
//@ extra
    proof fn prefix_free(a: &Self, b: &Self, ta: Seq<u8>, tb: Seq<u8>) {
        lemma_leb_prefix_free(*a as nat, *b as nat, ta, tb);
    }
//@ member decode
//@ end
//@ impl crates/serialize/src/encode.rs :: impl Encode for u32
//@ member encode
//@ end
//@ impl crates/serialize/src/decode.rs :: impl Decode for u32
//@ extra
    proof fn prefix_free(a: &Self, b: &Self, ta: Seq<u8>, tb: Seq<u8>) {
        lemma_leb_prefix_free(*a as nat, *b as nat, ta, tb);
    }
//@ member decode
//@ end
//@ impl crates/serialize/src/encode.rs :: impl Encode for u64
//@ member encode
//@ end
//@ impl crates/serialize/src/decode.rs :: impl Decode for u64
//@ extra
    proof fn prefix_free(a: &Self, b: &Self, ta: Seq<u8>, tb: Seq<u8>) {
        lemma_leb_prefix_free(*a as nat, *b as nat, ta, tb);
    }
//@ member decode
//@ end
//@ impl crates/serialize/src/encode.rs :: impl Encode for u128
//@ member encode
//@ end
//@ impl crates/serialize/src/decode.rs :: impl Decode for u128
//@ extra
    proof fn prefix_free(a: &Self, b: &Self, ta: Seq<u8>, tb: Seq<u8>) {
        lemma_leb_prefix_free(*a as nat, *b as nat, ta, tb);
    }
//@ member decode
//@ end
//@ impl crates/serialize/src/encode.rs :: impl Encode for usize
//@ member encode
//@ end
//@ impl crates/serialize/src/decode.rs :: impl Decode for usize
//@ extra
    proof fn prefix_free(a: &Self, b: &Self, ta: Seq<u8>, tb: Seq<u8>) {
        lemma_leb_prefix_free(*a as nat, *b as nat, ta, tb);
    }
//@ member decode
//@ end
//@ impl crates/serialize/src/encode.rs :: impl Encode for i8
//@ member encode
//@ end
//@ impl crates/serialize/src/decode.rs :: impl Decode for i8
//@ extra
    proof fn prefix_free(a: &Self, b: &Self, ta: Seq<u8>, tb: Seq<u8>) {
        lemma_one_byte_split(*a as u8, *b as u8, ta, tb);
    }
//@ member decode
//@ end
//@ impl crates/serialize/src/encode.rs :: impl Encode for i16
//@ member encode
//@ end
//@ impl crates/serialize/src/decode.rs :: impl Decode for i16
//@ extra
    proof fn prefix_free(a: &Self, b: &Self, ta: Seq<u8>, tb: Seq<u8>) {
        lemma_leb_prefix_free(zz(*a as int), zz(*b as int), ta, tb);
        lemma_zz_injective(*a as int, *b as int);
    }
//@ member decode
//@ end
//@ impl crates/serialize/src/encode.rs :: impl Encode for i32
//@ member encode
//@ end
//@ impl crates/serialize/src/decode.rs :: impl Decode for i32
//@ extra
    proof fn prefix_free(a: &Self, b: &Self, ta: Seq<u8>, tb: Seq<u8>) {
        lemma_leb_prefix_free(zz(*a as int), zz(*b as int), ta, tb);
        lemma_zz_injective(*a as int, *b as int);
    }
//@ member decode
//@ end
//@ impl crates/serialize/src/encode.rs :: impl Encode for i64
//@ member encode
//@ end
//@ impl crates/serialize/src/decode.rs :: impl Decode for i64
//@ extra
    proof fn prefix_free(a: &Self, b: &Self, ta: Seq<u8>, tb: Seq<u8>) {
        lemma_leb_prefix_free(zz(*a as int), zz(*b as int), ta, tb);
        lemma_zz_injective(*a as int, *b as int);
    }
//@ member decode
//@ end
//@ impl crates/serialize/src/encode.rs :: impl Encode for i128
//@ member encode
//@ end
//@ impl crates/serialize/src/decode.rs :: impl Decode for i128
//@ extra
    proof fn prefix_free(a: &Self, b: &Self, ta: Seq<u8>, tb: Seq<u8>) {
        lemma_leb_prefix_free(zz(*a as int), zz(*b as int), ta, tb);
        lemma_zz_injective(*a as int, *b as int);
    }
//@ member decode
//@ end
//@ impl crates/serialize/src/encode.rs :: impl Encode for isize
//@ member encode
//@ end
//@ impl crates/serialize/src/decode.rs :: impl Decode for isize
//@ extra
    proof fn prefix_free(a: &Self, b: &Self, ta: Seq<u8>, tb: Seq<u8>) {
        lemma_leb_prefix_free(zz(*a as int), zz(*b as int), ta, tb);
        lemma_zz_injective(*a as int, *b as int);
    }
//@ member decode
//@ end
//@ impl crates/serialize/src/encode.rs :: impl Encode for bool
//@ member encode
//@ end
//@ impl crates/serialize/src/decode.rs :: impl Decode for bool
//@ extra
    proof fn prefix_free(a: &Self, b: &Self, ta: Seq<u8>, tb: Seq<u8>) {
        lemma_one_byte_split(if *a { 1u8 } else { 0u8 }, if *b { 1u8 } else { 0u8 }, ta, tb);
    }
//@ member decode
//@ end
//@ impl crates/serialize/src/encode.rs :: impl Encode for char
//@ member encode
//@ end
//@ impl crates/serialize/src/decode.rs :: impl Decode for char
//@ extra
    proof fn prefix_free(a: &Self, b: &Self, ta: Seq<u8>, tb: Seq<u8>) {
        lemma_leb_prefix_free(*a as u32 as nat, *b as u32 as nat, ta, tb);
    }
//@ member decode
//@ end



// injectivity of the primitive images (from prefix-freeness with empty tails)
pub broadcast proof fn lemma_inj_u8(x: u8, y: u8)
    requires #[trigger] x.bytes() == #[trigger] y.bytes()
    ensures x == y
{
    broadcast use lemma_cat_empty;
    assert(x.bytes()[0] == x && y.bytes()[0] == y);
}
pub broadcast proof fn lemma_inj_u16(x: u16, y: u16)
    requires #[trigger] x.bytes() == #[trigger] y.bytes()
    ensures x == y
{
    broadcast use lemma_cat_empty;
    lemma_leb_prefix_free(x as nat, y as nat, Seq::<u8>::empty(), Seq::<u8>::empty());
}
pub broadcast proof fn lemma_inj_u32(x: u32, y: u32)
    requires #[trigger] x.bytes() == #[trigger] y.bytes()
    ensures x == y
{
    broadcast use lemma_cat_empty;
    lemma_leb_prefix_free(x as nat, y as nat, Seq::<u8>::empty(), Seq::<u8>::empty());
}
pub broadcast proof fn lemma_inj_u64(x: u64, y: u64)
    requires #[trigger] x.bytes() == #[trigger] y.bytes()
    ensures x == y
{
    broadcast use lemma_cat_empty;
    lemma_leb_prefix_free(x as nat, y as nat, Seq::<u8>::empty(), Seq::<u8>::empty());
}
pub broadcast proof fn lemma_inj_u128(x: u128, y: u128)
    requires #[trigger] x.bytes() == #[trigger] y.bytes()
    ensures x == y
{
    broadcast use lemma_cat_empty;
    lemma_leb_prefix_free(x as nat, y as nat, Seq::<u8>::empty(), Seq::<u8>::empty());
}
pub broadcast proof fn lemma_inj_usize(x: usize, y: usize)
    requires #[trigger] x.bytes() == #[trigger] y.bytes()
    ensures x == y
{
    broadcast use lemma_cat_empty;
    lemma_leb_prefix_free(x as nat, y as nat, Seq::<u8>::empty(), Seq::<u8>::empty());
}
pub broadcast proof fn lemma_inj_i8(x: i8, y: i8)
    requires #[trigger] x.bytes() == #[trigger] y.bytes()
    ensures x == y
{
    broadcast use lemma_cat_empty;
    assert(x.bytes()[0] == x as u8 && y.bytes()[0] == y as u8);
    assert(x as u8 == y as u8 ==> x == y) by (bit_vector);
}
pub broadcast proof fn lemma_inj_i16(x: i16, y: i16)
    requires #[trigger] x.bytes() == #[trigger] y.bytes()
    ensures x == y
{
    broadcast use lemma_cat_empty;
    lemma_leb_prefix_free(zz(x as int), zz(y as int), Seq::<u8>::empty(), Seq::<u8>::empty());
    lemma_zz_injective(x as int, y as int);
}
pub broadcast proof fn lemma_inj_i32(x: i32, y: i32)
    requires #[trigger] x.bytes() == #[trigger] y.bytes()
    ensures x == y
{
    broadcast use lemma_cat_empty;
    lemma_leb_prefix_free(zz(x as int), zz(y as int), Seq::<u8>::empty(), Seq::<u8>::empty());
    lemma_zz_injective(x as int, y as int);
}
pub broadcast proof fn lemma_inj_i64(x: i64, y: i64)
    requires #[trigger] x.bytes() == #[trigger] y.bytes()
    ensures x == y
{
    broadcast use lemma_cat_empty;
    lemma_leb_prefix_free(zz(x as int), zz(y as int), Seq::<u8>::empty(), Seq::<u8>::empty());
    lemma_zz_injective(x as int, y as int);
}
pub broadcast proof fn lemma_inj_i128(x: i128, y: i128)
    requires #[trigger] x.bytes() == #[trigger] y.bytes()
    ensures x == y
{
    broadcast use lemma_cat_empty;
    lemma_leb_prefix_free(zz(x as int), zz(y as int), Seq::<u8>::empty(), Seq::<u8>::empty());
    lemma_zz_injective(x as int, y as int);
}
pub broadcast proof fn lemma_inj_isize(x: isize, y: isize)
    requires #[trigger] x.bytes() == #[trigger] y.bytes()
    ensures x == y
{
    broadcast use lemma_cat_empty;
    lemma_leb_prefix_free(zz(x as int), zz(y as int), Seq::<u8>::empty(), Seq::<u8>::empty());
    lemma_zz_injective(x as int, y as int);
}
pub broadcast group group_inj {
    lemma_inj_u8,
    lemma_inj_u16,
    lemma_inj_u32,
    lemma_inj_u64,
    lemma_inj_u128,
    lemma_inj_usize,
    lemma_inj_i8,
    lemma_inj_i16,
    lemma_inj_i32,
    lemma_inj_i64,
    lemma_inj_i128,
    lemma_inj_isize,
}

