// C13 — output of the real StableHash derive macro on fixture types; framing contracts as in c13_framing.rs
// C13 — stable hash framing (crates/stable_hash/src/lib.rs): every ordered StableHash impl feeds the hasher a byte stream that is a
// function of the value's VIEW only, with length prefixes / discriminant prefixes, and that stream is prefix-free (hence injective).
// Plain lines = specification; `//@` = real source text, re-extracted on every run.
//@ rule R11
#![allow(unused_imports, unused_variables, dead_code, non_snake_case)]
use vstd::prelude::*;
use vstd::std_specs::convert::*;
use vstd::string::StringSliceAdditionalSpecFns;
use std::mem::Discriminant;
verus! {

//@ include inc/c13_core.rs

//@ struct @hash_expanded.rs :: HNamed
//@ struct @hash_expanded.rs :: HTuple
//@ struct @hash_expanded.rs :: HUnit
//@ struct @hash_expanded.rs :: HGeneric
//@ enum @hash_expanded.rs :: HShape
//@ enum @hash_expanded.rs :: HEither

// oracle: structs = fields in declaration order; enums = discriminant, then the variant's fields in declaration order
impl Wire for HNamed { open spec fn bytes(&self) -> Seq<u8> { self.a.bytes() + self.b.bytes() + self.c.bytes() } }
impl Wire for HTuple { open spec fn bytes(&self) -> Seq<u8> { self.0.bytes() + self.1.bytes() + self.2.bytes() } }
impl Wire for HUnit { open spec fn bytes(&self) -> Seq<u8> { Seq::<u8>::empty() } }
impl<T: Wire> Wire for HGeneric<T> { open spec fn bytes(&self) -> Seq<u8> { self.x.bytes() + self.y.bytes() } }
pub open spec fn hshape_payload(s: &HShape) -> Seq<u8> {
    match s { HShape::A => Seq::<u8>::empty(), HShape::B(f0, f1) => f0.bytes() + f1.bytes(), HShape::C { x, y } => x.bytes() + y.bytes() }
}
pub open spec fn hshape_idx(s: &HShape) -> int { match s { HShape::A => 0, HShape::B(_, _) => 1, HShape::C { .. } => 2 } }
impl Wire for HShape { open spec fn bytes(&self) -> Seq<u8> { disc_image(spec_discriminant(self)) + hshape_payload(self) } }
pub open spec fn heither_payload<T: Wire, U: Wire>(s: &HEither<T, U>) -> Seq<u8> {
    match s { HEither::L(a) => a.bytes(), HEither::R(b) => b.bytes(), HEither::N => Seq::<u8>::empty() }
}
pub open spec fn heither_idx<T, U>(s: &HEither<T, U>) -> int { match s { HEither::L(_) => 0, HEither::R(_) => 1, HEither::N => 2 } }
impl<T: Wire, U: Wire> Wire for HEither<T, U> { open spec fn bytes(&self) -> Seq<u8> { disc_image(spec_discriminant(self)) + heither_payload(self) } }

/// Rust semantics of mem::discriminant for the fixture enums (trusted): equal exactly for the same variant
#[verifier::external_body]
pub proof fn axiom_disc_hshape(a: &HShape, b: &HShape)
    ensures (disc_image(spec_discriminant(a)) == disc_image(spec_discriminant(b))) <==> (hshape_idx(a) == hshape_idx(b))
{
}
#[verifier::external_body]
pub proof fn axiom_disc_heither<T, U>(a: &HEither<T, U>, b: &HEither<T, U>)
    ensures (disc_image(spec_discriminant(a)) == disc_image(spec_discriminant(b))) <==> (heither_idx(a) == heither_idx(b))
{
}

/// contract of the (unsafe, raw-byte) impl for Discriminant<T> (ASSUMED: external_body)
impl<T> Wire for Discriminant<T> { open spec fn bytes(&self) -> Seq<u8> { disc_image(*self) } }
//@ impl crates/stable_hash/src/lib.rs :: impl<T> StableHash for Discriminant<T>
//@ extra
    proof fn prefix_free(a: &Self, b: &Self, ta: Seq<u8>, tb: Seq<u8>) {
        axiom_disc_len(*a); axiom_disc_len(*b);
        lemma_fixed_split(disc_image(*a), disc_image(*b), ta, tb);
    }
//@ member stable_hash
//@ body external
//@ end

//@ impl @hash_expanded.rs :: impl crate::StableHash for HNamed
//@ extra
    proof fn prefix_free(a: &Self, b: &Self, ta: Seq<u8>, tb: Seq<u8>) {
        broadcast use lemma_cat_assoc;
        u32::prefix_free(&a.a, &b.a, a.b.bytes() + (a.c.bytes() + ta), b.b.bytes() + (b.c.bytes() + tb));
        i64::prefix_free(&a.b, &b.b, a.c.bytes() + ta, b.c.bytes() + tb);
        bool::prefix_free(&a.c, &b.c, ta, tb);
    }
//@ member stable_hash
//@ head
        broadcast use lemma_cat_assoc;
//@ end
//@ impl @hash_expanded.rs :: impl crate::StableHash for HTuple
//@ extra
    proof fn prefix_free(a: &Self, b: &Self, ta: Seq<u8>, tb: Seq<u8>) {
        broadcast use lemma_cat_assoc;
        u8::prefix_free(&a.0, &b.0, a.1.bytes() + (a.2.bytes() + ta), b.1.bytes() + (b.2.bytes() + tb));
        u64::prefix_free(&a.1, &b.1, a.2.bytes() + ta, b.2.bytes() + tb);
        i16::prefix_free(&a.2, &b.2, ta, tb);
    }
//@ member stable_hash
//@ head
        broadcast use lemma_cat_assoc;
//@ end
//@ impl @hash_expanded.rs :: impl crate::StableHash for HUnit
//@ extra
    proof fn prefix_free(a: &Self, b: &Self, ta: Seq<u8>, tb: Seq<u8>) { broadcast use lemma_cat_empty; }
//@ member stable_hash
//@ head
        broadcast use lemma_cat_empty;
//@ end
//@ impl @hash_expanded.rs :: impl<T> crate::StableHash for HGeneric<T> where T: crate::StableHash
//@ extra
    proof fn prefix_free(a: &Self, b: &Self, ta: Seq<u8>, tb: Seq<u8>) {
        broadcast use lemma_cat_assoc;
        T::prefix_free(&a.x, &b.x, a.y.bytes() + ta, b.y.bytes() + tb);
        u16::prefix_free(&a.y, &b.y, ta, tb);
    }
//@ member stable_hash
//@ head
        broadcast use lemma_cat_assoc;
//@ end
//@ impl @hash_expanded.rs :: impl crate::StableHash for HShape
//@ extra
    proof fn prefix_free(a: &Self, b: &Self, ta: Seq<u8>, tb: Seq<u8>) {
        broadcast use lemma_cat_assoc, lemma_cat_empty;
        let (da, db) = (disc_image(spec_discriminant(a)), disc_image(spec_discriminant(b)));
        axiom_disc_len(spec_discriminant(a)); axiom_disc_len(spec_discriminant(b));
        axiom_disc_hshape(a, b);
        lemma_fixed_split(da, db, hshape_payload(a) + ta, hshape_payload(b) + tb);
        match (a, b) {
            (HShape::B(a0, a1), HShape::B(b0, b1)) => {
                u32::prefix_free(a0, b0, a1.bytes() + ta, b1.bytes() + tb);
                i16::prefix_free(a1, b1, ta, tb);
            }
            (HShape::C { x: a0, y: a1 }, HShape::C { x: b0, y: b1 }) => {
                u64::prefix_free(a0, b0, a1.bytes() + ta, b1.bytes() + tb);
                bool::prefix_free(a1, b1, ta, tb);
            }
            _ => {}
        }
    }
//@ member stable_hash
//@ head
        broadcast use lemma_cat_assoc, lemma_cat_empty;
//@ end
//@ impl @hash_expanded.rs :: impl<T, U> crate::StableHash for HEither<T, U> where T: crate::StableHash, U: crate::StableHash
//@ extra
    proof fn prefix_free(a: &Self, b: &Self, ta: Seq<u8>, tb: Seq<u8>) {
        broadcast use lemma_cat_assoc, lemma_cat_empty;
        let (da, db) = (disc_image(spec_discriminant(a)), disc_image(spec_discriminant(b)));
        axiom_disc_len(spec_discriminant(a)); axiom_disc_len(spec_discriminant(b));
        axiom_disc_heither(a, b);
        lemma_fixed_split(da, db, heither_payload(a) + ta, heither_payload(b) + tb);
        match (a, b) {
            (HEither::L(x), HEither::L(y)) => { T::prefix_free(x, y, ta, tb); }
            (HEither::R(x), HEither::R(y)) => { U::prefix_free(x, y, ta, tb); }
            _ => {}
        }
    }
//@ member stable_hash
//@ head
        broadcast use lemma_cat_assoc, lemma_cat_empty;
//@ end

} // verus!
fn main() {}
