// C10 — what ONE logical batch carries (crates/storage/src/write_manager/write_behind.rs): the per-batch coalescers
// TypedWideColumnWrites::insert and TypedKeyOfSetWrites::insert. "The store equals applying the batches in creation
// order" needs each batch to carry the NET EFFECT of the operations staged into it, in issue order: per key (wide
// column) resp. per (key, element) (key-of-set) the LAST operation staged wins and nothing else is lost or invented.
// Plain lines = specification; `//@` = real source text.
//@ rule R15
#![feature(allocator_api)]
#![allow(unused_imports, unused_variables, dead_code, non_snake_case)]
use vstd::prelude::*;
use vstd::std_specs::hash::*;
use vstd::std_specs::iter::IteratorSpec;
use std::collections::HashMap;
use std::hash::{BuildHasher, Hash};
use std::sync::Weak;
use std::any::TypeId;
verus! {

// ---------------------------------------------------------------- interface stand-ins (declarations only)
/// ghost: one logical store operation a batch hands to the serialization buffer (type-erased: the buffer is shared by all columns)
#[verifier::external_body]
pub struct Ev { _p: u8 }
pub uninterp spec fn ev_put<C: WideColumn, V: WideColumnValue<C>>(k: C::Key, v: V) -> Ev;
pub uninterp spec fn ev_del<C: WideColumn, V: WideColumnValue<C>>(k: C::Key) -> Ev;
pub uninterp spec fn ev_ins<C: KeyOfSetColumn>(k: C::Key, e: C::Element) -> Ev;
pub uninterp spec fn ev_rem<C: KeyOfSetColumn>(k: C::Key, e: C::Element) -> Ev;
/// interface stand-in for kv_database::SerializationBuffer: an ordered ghost log of what was recorded
pub trait SerializationBuffer {
    spec fn log(&self) -> Seq<Ev>;
    fn put<C: WideColumn, V: WideColumnValue<C>>(&mut self, key: &C::Key, value: &V)
        ensures final(self).log() == old(self).log().push(ev_put::<C, V>(*key, *value));
    fn delete<C: WideColumn, V: WideColumnValue<C>>(&mut self, key: &C::Key)
        ensures final(self).log() == old(self).log().push(ev_del::<C, V>(*key));
    fn insert_member<C: KeyOfSetColumn>(&mut self, key: &C::Key, value: &C::Element)
        ensures final(self).log() == old(self).log().push(ev_ins::<C>(*key, *value));
    fn delete_member<C: KeyOfSetColumn>(&mut self, key: &C::Key, value: &C::Element)
        ensures final(self).log() == old(self).log().push(ev_rem::<C>(*key, *value));
}
pub trait KvDatabase: 'static { type SerializationBuffer: SerializationBuffer; }
/// interface stand-in for the object-safe entry trait (after_commit / as_any_mut: not under contract). CONTRACT of the
/// trait, which every `Box<dyn WriteEntry>` of a batch is used through: write_to_db appends to the buffer one admissible
/// emission of the entry -- `emits` is defined by each implementor (one operation per staged slot, see below)
pub trait WriteEntry<Db: KvDatabase> {
    spec fn emits(&self, out: Seq<Ev>) -> bool;
    fn write_to_db(&self, tx: &mut Db::SerializationBuffer)
        ensures exists|out: Seq<Ev>| #[trigger] self.emits(out) && final(tx).log() =~= old(tx).log() + out;
}
pub trait WideColumn: 'static { type Key: Hash + Eq + Clone + 'static; }
pub trait WideColumnValue<C: WideColumn>: 'static {}
pub trait KeyOfSetColumn: 'static { type Key: Hash + Eq + Clone + 'static; type Element: Hash + Eq + Clone + 'static; }
pub trait WideColumnCache<C: WideColumn, V: WideColumnValue<C>, Db: KvDatabase> {}
pub trait KeyOfSetCache<C: KeyOfSetColumn, Db: KvDatabase> {}

/// std::sync::Weak is opaque (the coalescers never touch `original_cache`)
#[verifier::reject_recursive_types(A)]
#[verifier::reject_recursive_types(T)]
#[verifier::external_type_specification]
#[verifier::external_body]
pub struct ExWeak<T, A>(std::sync::Weak<T, A>)
where A: std::alloc::Allocator, T: std::marker::MetaSized + ?Sized;

/// interface stand-in for fxhash::FxBuildHasher (a deterministic BuildHasher; trusted)
#[verifier::external_body]
pub struct FxBuildHasher { _p: u8 }
#[verifier::external]
impl std::hash::BuildHasher for FxBuildHasher {
    type Hasher = std::collections::hash_map::DefaultHasher;
    fn build_hasher(&self) -> Self::Hasher { unimplemented!() }
}
impl Default for FxBuildHasher {
    #[verifier::external_body]
    fn default() -> Self { unimplemented!() }
}

/// keys/elements are well-behaved hash keys (Hash/Eq agree: the bound `Hash + Eq` plus the usual law), Fx hashes validly
pub proof fn axiom_key_types<K>()
    ensures obeys_key_model::<K>(), builds_valid_hashers::<FxBuildHasher>()
{ admit(); }

// ---------------------------------------------------------------- std model: the HashMap Entry API (rule R15; trusted)
// An entry holds the reborrowed map; its contracts are stated on that borrow, so that the map the caller sees after the
// match is exactly what the arms did through the entry (prophecy: *final(e.map) == *final(m)).
#[verifier::reject_recursive_types(K)]
#[verifier::reject_recursive_types(S)]
pub enum Entry<'a, K, V, S> { Occupied(OccupiedEntry<'a, K, V, S>), Vacant(VacantEntry<'a, K, V, S>) }
#[verifier::reject_recursive_types(K)]
#[verifier::reject_recursive_types(S)]
pub struct OccupiedEntry<'a, K, V, S> { pub map: &'a mut HashMap<K, V, S>, pub key: K }
#[verifier::reject_recursive_types(K)]
#[verifier::reject_recursive_types(S)]
pub struct VacantEntry<'a, K, V, S> { pub map: &'a mut HashMap<K, V, S>, pub key: K }

/// HashMap::entry
#[verifier::external_body]
pub fn verif_entry<'a, K: Eq + Hash, V, S: BuildHasher>(m: &'a mut HashMap<K, V, S>, key: K) -> (e: Entry<'a, K, V, S>)
    ensures
        match e {
            Entry::Occupied(o) => old(m)@.contains_key(key) && o.key == key && *o.map == *old(m) && *final(o.map) == *final(m),
            Entry::Vacant(v) => !old(m)@.contains_key(key) && v.key == key && *v.map == *old(m) && *final(v.map) == *final(m),
        }
{ unimplemented!() }

impl<'a, K: Eq + Hash, V, S: BuildHasher> OccupiedEntry<'a, K, V, S> {
    /// OccupiedEntry::get_mut: a borrow of the value slot; nothing else in the map changes
    #[verifier::external_body]
    pub fn get_mut(&mut self) -> (r: &mut V)
        requires old(self).map@.contains_key(old(self).key)
        ensures
            *r == old(self).map@[old(self).key],
            final(self).map@ == old(self).map@.insert(old(self).key, *final(r)),
            final(self).key == old(self).key,
            *final(final(self).map) == *final(old(self).map),
    { unimplemented!() }
}
impl<'a, K: Eq + Hash, V, S: BuildHasher> VacantEntry<'a, K, V, S> {
    /// VacantEntry::insert
    #[verifier::external_body]
    pub fn insert(self, value: V) -> (r: &'a mut V)
        ensures final(self.map)@ == old(self.map)@.insert(self.key, *final(r)), *r == value
    { unimplemented!() }
}

// ---------------------------------------------------------------- the real types
//@ enum crates/storage/src/write_manager/write_behind.rs :: Operation
#[derive(Clone, Copy, PartialEq, Eq, Structural)]
//@ end

//@ struct crates/storage/src/write_manager/write_behind.rs :: TypedWideColumnWrites
#[verifier::reject_recursive_types(C)]
#[verifier::reject_recursive_types(V)]
#[verifier::reject_recursive_types(Db)]
//@ end

//@ struct crates/storage/src/write_manager/write_behind.rs :: TypedKeyOfSetWrites
#[verifier::reject_recursive_types(C)]
#[verifier::reject_recursive_types(Db)]
//@ end

// ---------------------------------------------------------------- vocabulary
/// one staged operation of a batch, in issue order
pub enum WOp<K, V> { Put(K, Option<V>) }
pub enum SOp<K, E> { Member(K, E, Operation) }

/// reference semantics: what the staged operations, applied IN ISSUE ORDER, leave for key k (None: untouched)
pub open spec fn last_put<K, V>(ops: Seq<(K, Option<V>)>, k: K) -> Option<Option<V>>
    decreases ops.len()
{
    if ops.len() == 0 { None }
    else if ops.last().0 == k { Some(ops.last().1) }
    else { last_put(ops.drop_last(), k) }
}
pub open spec fn last_member<K, E>(ops: Seq<(K, E, Operation)>, k: K, e: E) -> Option<Operation>
    decreases ops.len()
{
    if ops.len() == 0 { None }
    else if ops.last().0 == k && ops.last().1 == e { Some(ops.last().2) }
    else { last_member(ops.drop_last(), k, e) }
}

impl<C: WideColumn, V: WideColumnValue<C>, Db: KvDatabase> TypedWideColumnWrites<C, V, Db> {
    /// what the batch will write for key k (None: untouched, Some(None): delete, Some(Some(v)): put)
    pub open spec fn net(&self, k: C::Key) -> Option<Option<V>> {
        if self.writes@.contains_key(k) { Some(self.writes@[k]) } else { None }
    }
    /// the batch carries exactly the net effect of `ops`
    pub open spec fn carries(&self, ops: Seq<(C::Key, Option<V>)>) -> bool {
        forall|k: C::Key| #[trigger] self.net(k) == last_put(ops, k)
    }
}

impl<C: KeyOfSetColumn, Db: KvDatabase> TypedKeyOfSetWrites<C, Db> {
    /// what the batch will do to element e of the set of k (None: untouched)
    pub open spec fn net(&self, k: C::Key, e: C::Element) -> Option<Operation> {
        if self.writes@.contains_key(k) && self.writes@[k]@.contains_key(e) { Some(self.writes@[k]@[e]) } else { None }
    }
    pub open spec fn carries(&self, ops: Seq<(C::Key, C::Element, Operation)>) -> bool {
        forall|k: C::Key, e: C::Element| #[trigger] self.net(k, e) == last_member(ops, k, e)
    }
    /// the keys whose cached sets are flushed after the commit: exactly the keys that were touched
    pub open spec fn touched(&self) -> Set<C::Key> { self.writes@.dom() }
}

// ---------------------------------------------------------------- functions under contract
//@ impl crates/storage/src/write_manager/write_behind.rs :: impl<C: WideColumn, V: WideColumnValue<C>, Db: KvDatabase> TypedWideColumnWrites<C, V, Db>
//@ member insert
//@ ret r
//@ sig
        ensures
            forall|k: C::Key| #[trigger] final(self).net(k) == (if k == key { Some(value) } else { old(self).net(k) }),
            r == (old(self).net(key) is None),
//@ head
        proof { axiom_key_types::<C::Key>(); }
        broadcast use group_hash_axioms;
//@ end

//@ impl crates/storage/src/write_manager/write_behind.rs :: impl<C: KeyOfSetColumn, Db: KvDatabase> TypedKeyOfSetWrites<C, Db>
//@ member insert
//@ ret r
//@ sig
        ensures
            forall|k: C::Key, e: C::Element| #[trigger] final(self).net(k, e)
                == (if k == key && e == element { Some(op) } else { old(self).net(k, e) }),
            r == !old(self).touched().contains(key),
            final(self).touched() == old(self).touched().insert(key),
//@ head
        proof { axiom_key_types::<C::Key>(); axiom_key_types::<C::Element>(); }
        broadcast use group_hash_axioms;
//@ end

// ---------------------------------------------------------------- the steps compose to the reference semantics
/// a batch that carried the net effect of `ops` and then took the step of `insert(key, value)` carries the net effect of
/// `ops` followed by that operation: by induction, after any sequence of calls the batch holds exactly what applying the
/// staged operations IN ISSUE ORDER leaves (last writer wins per key, nothing lost, nothing invented)
pub proof fn lemma_wide_step<C: WideColumn, V: WideColumnValue<C>, Db: KvDatabase>(
    a: &TypedWideColumnWrites<C, V, Db>, b: &TypedWideColumnWrites<C, V, Db>, key: C::Key, value: Option<V>, ops: Seq<(C::Key, Option<V>)>)
    requires
        a.carries(ops),
        forall|k: C::Key| #[trigger] b.net(k) == (if k == key { Some(value) } else { a.net(k) }),
    ensures b.carries(ops.push((key, value)))
{
    assert(ops.push((key, value)).drop_last() =~= ops);
    assert forall|k: C::Key| #[trigger] b.net(k) == last_put(ops.push((key, value)), k) by {
        assert(a.net(k) == last_put(ops, k));
    }
}
pub proof fn lemma_set_step<C: KeyOfSetColumn, Db: KvDatabase>(
    a: &TypedKeyOfSetWrites<C, Db>, b: &TypedKeyOfSetWrites<C, Db>, key: C::Key, element: C::Element, op: Operation,
    ops: Seq<(C::Key, C::Element, Operation)>)
    requires
        a.carries(ops),
        forall|k: C::Key, e: C::Element| #[trigger] b.net(k, e) == (if k == key && e == element { Some(op) } else { a.net(k, e) }),
    ensures b.carries(ops.push((key, element, op)))
{
    assert(ops.push((key, element, op)).drop_last() =~= ops);
    assert forall|k: C::Key, e: C::Element| #[trigger] b.net(k, e) == last_member(ops.push((key, element, op)), k, e) by {
        assert(a.net(k, e) == last_member(ops, k, e));
    }
}
/// an empty batch carries the empty sequence
pub proof fn lemma_empty_carries<C: KeyOfSetColumn, Db: KvDatabase>(a: &TypedKeyOfSetWrites<C, Db>)
    requires a.writes@.len() == 0
    ensures a.carries(Seq::empty())
{
    assert forall|k: C::Key, e: C::Element| #[trigger] a.net(k, e) == last_member(Seq::<(C::Key, C::Element, Operation)>::empty(), k, e) by {
        if a.writes@.contains_key(k) { assert(a.writes@.dom().len() > 0) by { vstd::set_lib::lemma_set_empty_equivalency_len(a.writes@.dom()); } }
    }
}

// ---------------------------------------------------------------- what the batch writes: one operation per staged slot
/// the operation a staged wide-column slot turns into
pub open spec fn wide_ev<C: WideColumn, V: WideColumnValue<C>>(k: C::Key, v: Option<V>) -> Ev {
    match v { Some(x) => ev_put::<C, V>(k, x), None => ev_del::<C, V>(k) }
}
//@ impl crates/storage/src/write_manager/write_behind.rs :: impl<C: WideColumn, V: WideColumnValue<C>, Db: KvDatabase> WriteEntry<Db> for TypedWideColumnWrites<C, V, Db>
//@ extra
    /// an admissible emission: exactly one operation per staged key, put or delete as staged, the keys in some order
    open spec fn emits(&self, out: Seq<Ev>) -> bool {
        exists|order: Seq<C::Key>| #![trigger order.no_duplicates()] order.no_duplicates()
            && (forall|k: C::Key| order.contains(k) <==> self.writes@.contains_key(k))
            && out =~= order.map_values(|k: C::Key| wide_ev::<C, V>(k, self.writes@[k]))
    }
//@ member write_to_db
//@ sig
        ensures
            // exactly one operation per staged key, carrying the staged value (put) or the staged deletion; in SOME order of
            // the keys (hash-map iteration order: immaterial, the keys are distinct)
            exists|order: Seq<C::Key>| #![trigger order.no_duplicates()] order.no_duplicates()
                && (forall|k: C::Key| order.contains(k) <==> self.writes@.contains_key(k))
                && final(tx).log() =~= old(tx).log() + order.map_values(|k: C::Key| wide_ev::<C, V>(k, self.writes@[k])),
//@ head
        proof { axiom_key_types::<C::Key>(); }
        broadcast use group_hash_axioms;
        let ghost mut order: Seq<C::Key> = Seq::empty();
//@ loop 0 iter __it
//@ loop 0 itercall
//@ loop 0 inv
            invariant
                obeys_key_model::<C::Key>(), builds_valid_hashers::<FxBuildHasher>(),
                order.len() == __it.index@,
                order =~= __it.snapshot@.remaining().take(__it.index@ as int).map_values(|kv: (&C::Key, &Option<V>)| *kv.0),
                order.no_duplicates(),
                forall|k: C::Key| order.contains(k) ==> self.writes@.contains_key(k),
                tx.log() =~= old(tx).log() + order.map_values(|k: C::Key| wide_ev::<C, V>(k, self.writes@[k])),
                __it.index@ == __it.snapshot@.remaining().len() ==> (forall|k: C::Key| self.writes@.contains_key(k) ==> order.contains(k)),
//@ loop 0 head
            let ghost order0 = order;
            proof { order = order0.push(*key); }
            proof {
                let rem = __it.snapshot@.remaining();
                let i = __it.index@ as int;
                assert(*rem[i].0 == *key && *rem[i].1 == *value_opt);
                assert(self.writes@.contains_key(*key) && self.writes@[*key] == *value_opt);
                // the key was not produced before: pairs are distinct and a key determines its value
                assert forall|j: int| 0 <= j < i implies order0[j] != *key by {
                    assert(order0[j] == *rem.take(i)[j].0);
                    if order0[j] == *key { assert(*rem[j].1 == self.writes@[*rem[j].0]); assert(rem[j] == rem[i]); }
                }
                assert(rem.take(i + 1) =~= rem.take(i).push(rem[i]));
                assert(order.map_values(|k: C::Key| wide_ev::<C, V>(k, self.writes@[k]))
                    =~= order0.map_values(|k: C::Key| wide_ev::<C, V>(k, self.writes@[k])).push(wide_ev::<C, V>(*key, *value_opt)));
                assert forall|k: C::Key| i + 1 == rem.len() && self.writes@.contains_key(k) implies order.contains(k) by {
                    assert(rem.take(i + 1) =~= rem);
                    let w = choose|w: int| 0 <= w < rem.len() && *(#[trigger] rem[w]).0 == k;
                    assert(order[w] == k);
                }
            }
//@ loop 0 after
        proof { assert(self.emits(order.map_values(|k: C::Key| wide_ev::<C, V>(k, self.writes@[k])))); }
//@ end


/// the operation a staged key-of-set slot turns into
pub open spec fn set_ev<C: KeyOfSetColumn>(k: C::Key, e: C::Element, op: Operation) -> Ev {
    match op { Operation::Insert => ev_ins::<C>(k, e), Operation::Remove => ev_rem::<C>(k, e) }
}
impl<C: KeyOfSetColumn, Db: KvDatabase> TypedKeyOfSetWrites<C, Db> {
    pub open spec fn slot_ev(&self, p: (C::Key, C::Element)) -> Ev { set_ev::<C>(p.0, p.1, self.writes@[p.0]@[p.1]) }
}
//@ impl crates/storage/src/write_manager/write_behind.rs :: impl<C: KeyOfSetColumn, Db: KvDatabase> WriteEntry<Db> for TypedKeyOfSetWrites<C, Db>
//@ extra
    /// an admissible emission: exactly one operation per staged (key, element) slot, in some order
    open spec fn emits(&self, out: Seq<Ev>) -> bool {
        exists|order: Seq<(C::Key, C::Element)>| #![trigger order.no_duplicates()] order.no_duplicates()
            && (forall|k: C::Key, e: C::Element| order.contains((k, e)) <==> self.net(k, e) is Some)
            && out =~= order.map_values(|p: (C::Key, C::Element)| self.slot_ev(p))
    }
//@ member write_to_db
//@ sig
        ensures
            // exactly one operation per staged (key, element) slot, insert_member or delete_member as staged, in some order
            exists|order: Seq<(C::Key, C::Element)>| #![trigger order.no_duplicates()] order.no_duplicates()
                && (forall|k: C::Key, e: C::Element| order.contains((k, e)) <==> self.net(k, e) is Some)
                && final(tx).log() =~= old(tx).log() + order.map_values(|p: (C::Key, C::Element)| self.slot_ev(p)),
//@ head
        proof { axiom_key_types::<C::Key>(); axiom_key_types::<C::Element>(); }
        broadcast use group_hash_axioms;
        let ghost mut order: Seq<(C::Key, C::Element)> = Seq::empty();
        let ghost mut keys_done: Seq<C::Key> = Seq::empty();
//@ loop 0 iter __it
//@ loop 0 itercall
//@ loop 0 inv
            invariant
                obeys_key_model::<C::Key>(), obeys_key_model::<C::Element>(), builds_valid_hashers::<FxBuildHasher>(),
                keys_done.len() == __it.index@,
                keys_done =~= __it.snapshot@.remaining().take(__it.index@ as int).map_values(|kv: (&C::Key, &HashMap<C::Element, Operation>)| *kv.0),
                keys_done.no_duplicates(),
                order.no_duplicates(),
                forall|k: C::Key, e: C::Element| #[trigger] order.contains((k, e)) <==> (keys_done.contains(k) && self.net(k, e) is Some),
                tx.log() =~= old(tx).log() + order.map_values(|p: (C::Key, C::Element)| self.slot_ev(p)),
                __it.index@ == __it.snapshot@.remaining().len() ==> (forall|k: C::Key| self.writes@.contains_key(k) ==> keys_done.contains(k)),
//@ loop 0 head
            let ghost order_out = order;
            let ghost keys0 = keys_done;
            let ghost mut inner: Seq<C::Element> = Seq::empty();
            proof { keys_done = keys0.push(*key); }
            proof {
                let rem = __it.snapshot@.remaining();
                let i = __it.index@ as int;
                assert(*rem[i].0 == *key && *rem[i].1 == *element_map);
                assert(self.writes@.contains_key(*key) && self.writes@[*key] == *element_map);
                assert forall|j: int| 0 <= j < i implies keys0[j] != *key by {
                    assert(keys0[j] == *rem.take(i)[j].0);
                    if keys0[j] == *key { assert(*rem[j].1 == self.writes@[*rem[j].0]); assert(rem[j] == rem[i]); }
                }
                assert(rem.take(i + 1) =~= rem.take(i).push(rem[i]));
                assert forall|k: C::Key| i + 1 == rem.len() && self.writes@.contains_key(k) implies keys_done.contains(k) by {
                    assert(rem.take(i + 1) =~= rem);
                    let w = choose|w: int| 0 <= w < rem.len() && *(#[trigger] rem[w]).0 == k;
                    assert(keys_done[w] == k);
                }
            }
//@ loop 1 iter __it2
//@ loop 1 itercall
//@ loop 1 inv
                invariant
                    obeys_key_model::<C::Key>(), obeys_key_model::<C::Element>(), builds_valid_hashers::<FxBuildHasher>(),
                    self.writes@.contains_key(*key), self.writes@[*key] == *element_map,
                    !keys0.contains(*key), keys_done == keys0.push(*key), keys0.no_duplicates(),
                    order_out.no_duplicates(),
                    forall|k: C::Key, e: C::Element| #[trigger] order_out.contains((k, e)) <==> (keys0.contains(k) && self.net(k, e) is Some),
                    inner.len() == __it2.index@,
                    inner =~= __it2.snapshot@.remaining().take(__it2.index@ as int).map_values(|kv: (&C::Element, &Operation)| *kv.0),
                    inner.no_duplicates(),
                    forall|e: C::Element| inner.contains(e) ==> element_map@.contains_key(e),
                    order =~= order_out + inner.map_values(|e: C::Element| (*key, e)),
                    tx.log() =~= old(tx).log() + order.map_values(|p: (C::Key, C::Element)| self.slot_ev(p)),
                    __it2.index@ == __it2.snapshot@.remaining().len() ==> (forall|e: C::Element| element_map@.contains_key(e) ==> inner.contains(e)),
//@ loop 1 head
                let ghost order1 = order;
                let ghost inner0 = inner;
                proof { inner = inner0.push(*element); order = order1.push((*key, *element)); }
                proof {
                    let rem2 = __it2.snapshot@.remaining();
                    let i2 = __it2.index@ as int;
                    assert(*rem2[i2].0 == *element && *rem2[i2].1 == *op);
                    assert(element_map@.contains_key(*element) && element_map@[*element] == *op);
                    assert forall|j: int| 0 <= j < i2 implies inner0[j] != *element by {
                        assert(inner0[j] == *rem2.take(i2)[j].0);
                        if inner0[j] == *element { assert(*rem2[j].1 == element_map@[*rem2[j].0]); assert(rem2[j] == rem2[i2]); }
                    }
                    assert(rem2.take(i2 + 1) =~= rem2.take(i2).push(rem2[i2]));
                    assert(inner.map_values(|e: C::Element| (*key, e)) =~= inner0.map_values(|e: C::Element| (*key, e)).push((*key, *element)));
                    assert(order.map_values(|p: (C::Key, C::Element)| self.slot_ev(p))
                        =~= order1.map_values(|p: (C::Key, C::Element)| self.slot_ev(p)).push(set_ev::<C>(*key, *element, *op)));
                    assert forall|e: C::Element| i2 + 1 == rem2.len() && element_map@.contains_key(e) implies inner.contains(e) by {
                        assert(rem2.take(i2 + 1) =~= rem2);
                        let w = choose|w: int| 0 <= w < rem2.len() && *(#[trigger] rem2[w]).0 == e;
                        assert(inner[w] == e);
                    }
                }
//@ loop 1 after
            proof {
                // order = order_out ++ (key, e) for every element e of key's map: still duplicate free, and complete for keys_done
                let tailp = inner.map_values(|e: C::Element| (*key, e));
                assert forall|a: int, b: int| 0 <= a < order.len() && 0 <= b < order.len() && a != b implies order[a] != order[b] by {
                    let n0 = order_out.len() as int;
                    if a >= n0 && b >= n0 { assert(inner[a - n0] != inner[b - n0]); }
                    else if a < n0 && b >= n0 { assert(order_out.contains(order_out[a])); }
                    else if a >= n0 && b < n0 { assert(order_out.contains(order_out[b])); }
                }
                assert forall|k: C::Key, e: C::Element| #[trigger] order.contains((k, e)) <==> (keys_done.contains(k) && self.net(k, e) is Some) by {
                    if order.contains((k, e)) {
                        let a = choose|a: int| 0 <= a < order.len() && order[a] == (k, e);
                        if a < order_out.len() { assert(order_out.contains((k, e))); assert(keys_done[keys0.index_of(k)] == k); }
                        else { assert(inner.contains(inner[a - order_out.len()])); assert(keys_done[keys0.len() as int] == *key); }
                    }
                    if keys_done.contains(k) && self.net(k, e) is Some {
                        if k == *key {
                            assert(element_map@.contains_key(e));
                            assert(inner.contains(e));
                            let w = inner.index_of(e);
                            assert(0 <= w < inner.len() && inner[w] == e);
                            assert(tailp[w] == (*key, e));
                            assert(order[order_out.len() + w] == (k, e));
                        } else {
                            let a = choose|a: int| 0 <= a < keys_done.len() && keys_done[a] == k;
                            assert(keys0[a] == k);
                            assert(order_out.contains((k, e)));
                            let b = order_out.index_of((k, e));
                            assert(order[b] == (k, e));
                        }
                    }
                }
            }
//@ loop 0 after
        proof { assert(self.emits(order.map_values(|p: (C::Key, C::Element)| self.slot_ev(p)))); }
//@ end

// ---------------------------------------------------------------- the batch as a whole: maps of `Box<dyn WriteEntry>`
// WideColumnWrites / KeyOfSetWrites hold one type-erased entry per (column, value type) resp. per column; a WriteBatch
// holds one of each. write_to_db of all three is under contract against the TRAIT contract of WriteEntry (a caller is
// checked against the callee's contract: whichever typed map sits behind the `dyn`, its emission is appended once).
/// std::any::TypeId is opaque
#[verifier::external_type_specification]
#[verifier::external_body]
pub struct ExTypeId(std::any::TypeId);

//@ struct crates/storage/src/write_manager/write_behind.rs :: WideColumnWritesID
#[derive(Clone, Copy, PartialEq, Eq, Hash)]
//@ end
//@ struct crates/storage/src/write_manager/write_behind.rs :: WideColumnWrites
#[verifier::reject_recursive_types(Db)]
//@ end
//@ struct crates/storage/src/write_manager/write_behind.rs :: KeyOfSetWrites
#[verifier::reject_recursive_types(Db)]
//@ end
//@ struct crates/storage/src/write_manager/write_behind.rs :: Epoch
//@ struct crates/storage/src/write_manager/write_behind.rs :: WriteBatch
#[verifier::reject_recursive_types(Db)]
//@ end

/// concatenation of the emissions, in the order the entries were visited
pub open spec fn concat_all(outs: Seq<Seq<Ev>>) -> Seq<Ev>
    decreases outs.len()
{
    if outs.len() == 0 { Seq::empty() } else { concat_all(outs.drop_last()) + outs.last() }
}
/// every entry of the map emitted exactly once: `ids` lists the map's keys without repetition, `outs[i]` is an
/// admissible emission of the entry stored under `ids[i]`, and `out` is their concatenation
pub open spec fn each_entry_once<Id, Db: KvDatabase>(m: Map<Id, Box<dyn WriteEntry<Db>>>, out: Seq<Ev>) -> bool {
    exists|ids: Seq<Id>, outs: Seq<Seq<Ev>>| #![trigger ids.no_duplicates(), concat_all(outs)]
        ids.no_duplicates() && (forall|k: Id| ids.contains(k) <==> m.contains_key(k)) && outs.len() == ids.len()
        && (forall|i: int| 0 <= i < ids.len() ==> (#[trigger] m[ids[i]]).emits(outs[i]))
        && out =~= concat_all(outs)
}

// std model (trusted): HashMap::values() is iter().map(|(_, v)| v) -- it yields the value of every key exactly once.
// vstd only states the SET of yielded values and their number (which does not exclude yielding one of two equal values
// twice); the axiom names the key sequence behind the yielded values. It is stated on the iterator object, so it
// cannot be instantiated on a hand-made sequence.
pub open spec fn values_match<K, V>(rem: Seq<&V>, m: Map<K, V>) -> bool {
    rem.unref().to_set() == m.values() && rem.len() == m.dom().len()
}
pub open spec fn keyed_by<K, V>(ks: Seq<K>, rem: Seq<&V>, m: Map<K, V>) -> bool {
    ks.no_duplicates() && ks.len() == rem.len() && (forall|k: K| ks.contains(k) <==> m.contains_key(k))
    && (forall|i: int| 0 <= i < ks.len() ==> m[#[trigger] ks[i]] == *rem[i])
}
pub uninterp spec fn keys_of<'a, K, V>(it: std::collections::hash_map::Values<'a, K, V>) -> Seq<K>;
pub proof fn axiom_values<'a, K, V>(it: std::collections::hash_map::Values<'a, K, V>, m: Map<K, V>)
    requires values_match(it.remaining(), m)
    ensures keyed_by(keys_of(it), it.remaining(), m)
{ admit(); }
pub proof fn axiom_id_types()
    ensures obeys_key_model::<WideColumnWritesID>(), obeys_key_model::<std::any::TypeId>(), builds_valid_hashers::<FxBuildHasher>()
{ admit(); }

//@ impl crates/storage/src/write_manager/write_behind.rs :: impl<Db: KvDatabase> WideColumnWrites<Db>
//@ member write_to_db
//@ sig
        ensures exists|out: Seq<Ev>| #[trigger] each_entry_once(self.writes@, out) && final(tx).log() =~= old(tx).log() + out
//@ head
        proof { axiom_id_types(); }
        broadcast use group_hash_axioms;
        let ghost mut outs: Seq<Seq<Ev>> = Seq::empty();
        let ghost mut ids: Seq<WideColumnWritesID> = Seq::empty();
//@ loop 0 iter __it
//@ loop 0 inv
            invariant
                values_match(__it.snapshot@.remaining(), self.writes@),
                outs.len() == __it.index@, ids.len() == __it.index@,
                ids =~= keys_of(__it.snapshot@).take(__it.index@ as int),
                forall|i: int| 0 <= i < outs.len() ==> (#[trigger] self.writes@[ids[i]]).emits(outs[i]),
                tx.log() =~= old(tx).log() + concat_all(outs),
                __it.index@ == __it.snapshot@.remaining().len() ==> ids.no_duplicates()
                    && (forall|k: WideColumnWritesID| ids.contains(k) <==> self.writes@.contains_key(k)),
//@ loop 0 head
            let ghost before = tx.log();
            let ghost outs0 = outs;
            let ghost ids0 = ids;
//@ loop 0 tail
            proof {
                axiom_values(__it.snapshot@, self.writes@);
                ids = ids0.push(keys_of(__it.snapshot@)[__it.index@ as int]);
            }
            proof {
                let out = choose|out: Seq<Ev>| #[trigger] write_entry.emits(out) && tx.log() =~= before + out;
                outs = outs0.push(out);
            }
            proof {
                assert(outs.drop_last() =~= outs0);
                let ks = keys_of(__it.snapshot@);
                let i = __it.index@ as int;
                assert(ks.take(i + 1) =~= ks.take(i).push(ks[i]));
                assert(self.writes@[ks[i]] == *__it.snapshot@.remaining()[i]);
                assert(i + 1 == ks.len() ==> ks.take(i + 1) =~= ks);
            }
//@ loop 0 after
        proof { assert(each_entry_once(self.writes@, concat_all(outs))); }
//@ end

//@ impl crates/storage/src/write_manager/write_behind.rs :: impl<Db: KvDatabase> KeyOfSetWrites<Db>
//@ member write_to_db
//@ sig
        ensures exists|out: Seq<Ev>| #[trigger] each_entry_once(self.writes@, out) && final(tx).log() =~= old(tx).log() + out
//@ head
        proof { axiom_id_types(); }
        broadcast use group_hash_axioms;
        let ghost mut outs: Seq<Seq<Ev>> = Seq::empty();
        let ghost mut ids: Seq<std::any::TypeId> = Seq::empty();
//@ loop 0 iter __it
//@ loop 0 inv
            invariant
                values_match(__it.snapshot@.remaining(), self.writes@),
                outs.len() == __it.index@, ids.len() == __it.index@,
                ids =~= keys_of(__it.snapshot@).take(__it.index@ as int),
                forall|i: int| 0 <= i < outs.len() ==> (#[trigger] self.writes@[ids[i]]).emits(outs[i]),
                tx.log() =~= old(tx).log() + concat_all(outs),
                __it.index@ == __it.snapshot@.remaining().len() ==> ids.no_duplicates()
                    && (forall|k: std::any::TypeId| ids.contains(k) <==> self.writes@.contains_key(k)),
//@ loop 0 head
            let ghost before = tx.log();
            let ghost outs0 = outs;
            let ghost ids0 = ids;
//@ loop 0 tail
            proof {
                axiom_values(__it.snapshot@, self.writes@);
                ids = ids0.push(keys_of(__it.snapshot@)[__it.index@ as int]);
            }
            proof {
                let out = choose|out: Seq<Ev>| #[trigger] write_entry.emits(out) && tx.log() =~= before + out;
                outs = outs0.push(out);
            }
            proof {
                assert(outs.drop_last() =~= outs0);
                let ks = keys_of(__it.snapshot@);
                let i = __it.index@ as int;
                assert(ks.take(i + 1) =~= ks.take(i).push(ks[i]));
                assert(self.writes@[ks[i]] == *__it.snapshot@.remaining()[i]);
                assert(i + 1 == ks.len() ==> ks.take(i + 1) =~= ks);
            }
//@ loop 0 after
        proof { assert(each_entry_once(self.writes@, concat_all(outs))); }
//@ end

/// what ONE logical batch hands to its serialization buffer: every wide-column entry once, then every key-of-set entry
/// once -- nothing else, nothing twice (the two families live in different column kinds, so their relative order is
/// immaterial for the store; the order is nevertheless pinned as in the code)
//@ impl crates/storage/src/write_manager/write_behind.rs :: impl<Db: KvDatabase> WriteBatch<Db>
//@ member write_to_db
//@ sig
        ensures exists|a: Seq<Ev>, b: Seq<Ev>| #![trigger each_entry_once(self.wide_column_writes.writes@, a), each_entry_once(self.key_of_set_writes.writes@, b)]
            each_entry_once(self.wide_column_writes.writes@, a) && each_entry_once(self.key_of_set_writes.writes@, b)
            && final(tx).log() =~= old(tx).log() + a + b
//@ end

// ---------------------------------------------------------------- vacuity guards (must FAIL)
/// if the Entry model were contradictory this would verify
fn canary_entry_model(m: &mut HashMap<u64, u64>, k: u64)
    ensures false
{
    match verif_entry(m, k) {
        Entry::Occupied(mut o) => { *o.get_mut() = 1; }
        Entry::Vacant(v) => { v.insert(2); }
    }
}

/// if the values() axiom or the trait contract of WriteEntry were contradictory these would verify
fn canary_values_axiom(m: &HashMap<u64, u64, FxBuildHasher>)
{
    proof { axiom_key_types::<u64>(); }
    broadcast use group_hash_axioms;
    for v in __it: m.values()
        invariant values_match(__it.snapshot@.remaining(), m@)
    {
        proof { axiom_values(__it.snapshot@, m@); }
        assert(false);
    }
}
fn canary_batch_contract<Db: KvDatabase>(b: &WriteBatch<Db>, tx: &mut Db::SerializationBuffer)
    ensures false
{
    b.write_to_db(tx);
}

} // verus!
fn main() {}
