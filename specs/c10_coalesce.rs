// C10 — what ONE logical batch carries (crates/storage/src/write_manager/write_behind.rs): the per-batch coalescers
// TypedWideColumnWrites::insert and TypedKeyOfSetWrites::insert. "The store equals applying the batches in creation
// order" needs each batch to carry the NET EFFECT of the operations staged into it, in issue order: per key (wide
// column) resp. per (key, element) (key-of-set) the LAST operation staged wins and nothing else is lost or invented.
// Plain lines = specification; `//@` = real source text.
//@ rule R15
#![feature(allocator_api)]
#![allow(unused_imports, unused_variables, dead_code, non_snake_case)]
use vstd::prelude::*;
use vstd::std_specs::hash::*;
use std::collections::HashMap;
use std::hash::{BuildHasher, Hash};
use std::sync::Weak;
verus! {

// ---------------------------------------------------------------- interface stand-ins (declarations only)
pub trait KvDatabase: 'static {}
pub trait WideColumn: 'static { type Key: Hash + Eq + Clone + 'static; }
pub trait WideColumnValue<C: WideColumn>: 'static {}
pub trait KeyOfSetColumn: 'static { type Key: Hash + Eq + Clone + 'static; type Element: Hash + Eq + Clone + 'static; }
pub trait WideColumnCache<C: WideColumn, V: WideColumnValue<C>, Db: KvDatabase> {}
pub trait KeyOfSetCache<C: KeyOfSetColumn, Db: KvDatabase> {}

/// std::sync::Weak is opaque (the coalescers never touch `original_cache`)
#[verifier::reject_recursive_types(A)]
#[verifier::reject_recursive_types(T)]
#[verifier::external_type_specification]
#[verifier::external_body]
pub struct ExWeak<T, A>(std::sync::Weak<T, A>)
where A: std::alloc::Allocator, T: std::marker::MetaSized + ?Sized;

/// interface stand-in for fxhash::FxBuildHasher (a deterministic BuildHasher; trusted)
#[verifier::external_body]
pub struct FxBuildHasher { _p: u8 }
#[verifier::external]
impl std::hash::BuildHasher for FxBuildHasher {
    type Hasher = std::collections::hash_map::DefaultHasher;
    fn build_hasher(&self) -> Self::Hasher { unimplemented!() }
}
impl Default for FxBuildHasher {
    #[verifier::external_body]
    fn default() -> Self { unimplemented!() }
}

/// keys/elements are well-behaved hash keys (Hash/Eq agree: the bound `Hash + Eq` plus the usual law), Fx hashes validly
pub proof fn axiom_key_types<K>()
    ensures obeys_key_model::<K>(), builds_valid_hashers::<FxBuildHasher>()
{ admit(); }

// ---------------------------------------------------------------- std model: the HashMap Entry API (rule R15; trusted)
// An entry holds the reborrowed map; its contracts are stated on that borrow, so that the map the caller sees after the
// match is exactly what the arms did through the entry (prophecy: *final(e.map) == *final(m)).
#[verifier::reject_recursive_types(K)]
#[verifier::reject_recursive_types(S)]
pub enum Entry<'a, K, V, S> { Occupied(OccupiedEntry<'a, K, V, S>), Vacant(VacantEntry<'a, K, V, S>) }
#[verifier::reject_recursive_types(K)]
#[verifier::reject_recursive_types(S)]
pub struct OccupiedEntry<'a, K, V, S> { pub map: &'a mut HashMap<K, V, S>, pub key: K }
#[verifier::reject_recursive_types(K)]
#[verifier::reject_recursive_types(S)]
pub struct VacantEntry<'a, K, V, S> { pub map: &'a mut HashMap<K, V, S>, pub key: K }

/// HashMap::entry
#[verifier::external_body]
pub fn verif_entry<'a, K: Eq + Hash, V, S: BuildHasher>(m: &'a mut HashMap<K, V, S>, key: K) -> (e: Entry<'a, K, V, S>)
    ensures
        match e {
            Entry::Occupied(o) => old(m)@.contains_key(key) && o.key == key && *o.map == *old(m) && *final(o.map) == *final(m),
            Entry::Vacant(v) => !old(m)@.contains_key(key) && v.key == key && *v.map == *old(m) && *final(v.map) == *final(m),
        }
{ unimplemented!() }

impl<'a, K: Eq + Hash, V, S: BuildHasher> OccupiedEntry<'a, K, V, S> {
    /// OccupiedEntry::get_mut: a borrow of the value slot; nothing else in the map changes
    #[verifier::external_body]
    pub fn get_mut(&mut self) -> (r: &mut V)
        requires old(self).map@.contains_key(old(self).key)
        ensures
            *r == old(self).map@[old(self).key],
            final(self).map@ == old(self).map@.insert(old(self).key, *final(r)),
            final(self).key == old(self).key,
            *final(final(self).map) == *final(old(self).map),
    { unimplemented!() }
}
impl<'a, K: Eq + Hash, V, S: BuildHasher> VacantEntry<'a, K, V, S> {
    /// VacantEntry::insert
    #[verifier::external_body]
    pub fn insert(self, value: V) -> (r: &'a mut V)
        ensures final(self.map)@ == old(self.map)@.insert(self.key, *final(r)), *r == value
    { unimplemented!() }
}

// ---------------------------------------------------------------- the real types
//@ enum crates/storage/src/write_manager/write_behind.rs :: Operation
#[derive(Clone, Copy, PartialEq, Eq, Structural)]
//@ end

//@ struct crates/storage/src/write_manager/write_behind.rs :: TypedWideColumnWrites
#[verifier::reject_recursive_types(C)]
#[verifier::reject_recursive_types(V)]
#[verifier::reject_recursive_types(Db)]
//@ end

//@ struct crates/storage/src/write_manager/write_behind.rs :: TypedKeyOfSetWrites
#[verifier::reject_recursive_types(C)]
#[verifier::reject_recursive_types(Db)]
//@ end

// ---------------------------------------------------------------- vocabulary
/// one staged operation of a batch, in issue order
pub enum WOp<K, V> { Put(K, Option<V>) }
pub enum SOp<K, E> { Member(K, E, Operation) }

/// reference semantics: what the staged operations, applied IN ISSUE ORDER, leave for key k (None: untouched)
pub open spec fn last_put<K, V>(ops: Seq<(K, Option<V>)>, k: K) -> Option<Option<V>>
    decreases ops.len()
{
    if ops.len() == 0 { None }
    else if ops.last().0 == k { Some(ops.last().1) }
    else { last_put(ops.drop_last(), k) }
}
pub open spec fn last_member<K, E>(ops: Seq<(K, E, Operation)>, k: K, e: E) -> Option<Operation>
    decreases ops.len()
{
    if ops.len() == 0 { None }
    else if ops.last().0 == k && ops.last().1 == e { Some(ops.last().2) }
    else { last_member(ops.drop_last(), k, e) }
}

impl<C: WideColumn, V: WideColumnValue<C>, Db: KvDatabase> TypedWideColumnWrites<C, V, Db> {
    /// what the batch will write for key k (None: untouched, Some(None): delete, Some(Some(v)): put)
    pub open spec fn net(&self, k: C::Key) -> Option<Option<V>> {
        if self.writes@.contains_key(k) { Some(self.writes@[k]) } else { None }
    }
    /// the batch carries exactly the net effect of `ops`
    pub open spec fn carries(&self, ops: Seq<(C::Key, Option<V>)>) -> bool {
        forall|k: C::Key| #[trigger] self.net(k) == last_put(ops, k)
    }
}

impl<C: KeyOfSetColumn, Db: KvDatabase> TypedKeyOfSetWrites<C, Db> {
    /// what the batch will do to element e of the set of k (None: untouched)
    pub open spec fn net(&self, k: C::Key, e: C::Element) -> Option<Operation> {
        if self.writes@.contains_key(k) && self.writes@[k]@.contains_key(e) { Some(self.writes@[k]@[e]) } else { None }
    }
    pub open spec fn carries(&self, ops: Seq<(C::Key, C::Element, Operation)>) -> bool {
        forall|k: C::Key, e: C::Element| #[trigger] self.net(k, e) == last_member(ops, k, e)
    }
    /// the keys whose cached sets are flushed after the commit: exactly the keys that were touched
    pub open spec fn touched(&self) -> Set<C::Key> { self.writes@.dom() }
}

// ---------------------------------------------------------------- functions under contract
//@ impl crates/storage/src/write_manager/write_behind.rs :: impl<C: WideColumn, V: WideColumnValue<C>, Db: KvDatabase> TypedWideColumnWrites<C, V, Db>
//@ member insert
//@ ret r
//@ sig
        ensures
            forall|k: C::Key| #[trigger] final(self).net(k) == (if k == key { Some(value) } else { old(self).net(k) }),
            r == (old(self).net(key) is None),
//@ head
        proof { axiom_key_types::<C::Key>(); }
        broadcast use group_hash_axioms;
//@ end

//@ impl crates/storage/src/write_manager/write_behind.rs :: impl<C: KeyOfSetColumn, Db: KvDatabase> TypedKeyOfSetWrites<C, Db>
//@ member insert
//@ ret r
//@ sig
        ensures
            forall|k: C::Key, e: C::Element| #[trigger] final(self).net(k, e)
                == (if k == key && e == element { Some(op) } else { old(self).net(k, e) }),
            r == !old(self).touched().contains(key),
            final(self).touched() == old(self).touched().insert(key),
//@ head
        proof { axiom_key_types::<C::Key>(); axiom_key_types::<C::Element>(); }
        broadcast use group_hash_axioms;
//@ end

// ---------------------------------------------------------------- the steps compose to the reference semantics
/// a batch that carried the net effect of `ops` and then took the step of `insert(key, value)` carries the net effect of
/// `ops` followed by that operation: by induction, after any sequence of calls the batch holds exactly what applying the
/// staged operations IN ISSUE ORDER leaves (last writer wins per key, nothing lost, nothing invented)
pub proof fn lemma_wide_step<C: WideColumn, V: WideColumnValue<C>, Db: KvDatabase>(
    a: &TypedWideColumnWrites<C, V, Db>, b: &TypedWideColumnWrites<C, V, Db>, key: C::Key, value: Option<V>, ops: Seq<(C::Key, Option<V>)>)
    requires
        a.carries(ops),
        forall|k: C::Key| #[trigger] b.net(k) == (if k == key { Some(value) } else { a.net(k) }),
    ensures b.carries(ops.push((key, value)))
{
    assert(ops.push((key, value)).drop_last() =~= ops);
    assert forall|k: C::Key| #[trigger] b.net(k) == last_put(ops.push((key, value)), k) by {
        assert(a.net(k) == last_put(ops, k));
    }
}
pub proof fn lemma_set_step<C: KeyOfSetColumn, Db: KvDatabase>(
    a: &TypedKeyOfSetWrites<C, Db>, b: &TypedKeyOfSetWrites<C, Db>, key: C::Key, element: C::Element, op: Operation,
    ops: Seq<(C::Key, C::Element, Operation)>)
    requires
        a.carries(ops),
        forall|k: C::Key, e: C::Element| #[trigger] b.net(k, e) == (if k == key && e == element { Some(op) } else { a.net(k, e) }),
    ensures b.carries(ops.push((key, element, op)))
{
    assert(ops.push((key, element, op)).drop_last() =~= ops);
    assert forall|k: C::Key, e: C::Element| #[trigger] b.net(k, e) == last_member(ops.push((key, element, op)), k, e) by {
        assert(a.net(k, e) == last_member(ops, k, e));
    }
}
/// an empty batch carries the empty sequence
pub proof fn lemma_empty_carries<C: KeyOfSetColumn, Db: KvDatabase>(a: &TypedKeyOfSetWrites<C, Db>)
    requires a.writes@.len() == 0
    ensures a.carries(Seq::empty())
{
    assert forall|k: C::Key, e: C::Element| #[trigger] a.net(k, e) == last_member(Seq::<(C::Key, C::Element, Operation)>::empty(), k, e) by {
        if a.writes@.contains_key(k) { assert(a.writes@.dom().len() > 0) by { vstd::set_lib::lemma_set_empty_equivalency_len(a.writes@.dom()); } }
    }
}

// ---------------------------------------------------------------- vacuity guards (must FAIL)
/// if the Entry model were contradictory this would verify
fn canary_entry_model(m: &mut HashMap<u64, u64>, k: u64)
    ensures false
{
    match verif_entry(m, k) {
        Entry::Occupied(mut o) => { *o.get_mut() = 1; }
        Entry::Vacant(v) => { v.insert(2); }
    }
}

} // verus!
fn main() {}
