// C12 — output of the real derive macros (qbice_serialize_derive) on fixture types.
// `@derive_expanded.rs` is produced on every run by expanding fixtures/derive_fix with the
// proc-macro crate from /repo (cargo +nightly rustc -- -Zunpretty=expanded).
//@ rule R13
//@ rule R14
#![feature(allocator_api)]
#![allow(unused_imports, unused_variables, dead_code, non_snake_case)]
use vstd::prelude::*;
use vstd::string::StringSliceAdditionalSpecFns;
use vstd::std_specs::convert::*;
use std::io;
use std::rc::Rc;
use std::sync::Arc;
verus! {

//@ include inc/c12_core.rs

/// the derive output names everything through `crate::…`
pub mod session { pub use crate::Session; }

// ---------------------------------------------------------------- fixture types (real text of the fixture crate, as expanded)
//@ struct @derive_expanded.rs :: Named
//@ struct @derive_expanded.rs :: Tuple
//@ struct @derive_expanded.rs :: Unit
//@ struct @derive_expanded.rs :: Generic
//@ struct @derive_expanded.rs :: SkipNamed
//@ struct @derive_expanded.rs :: SkipTuple
//@ enum @derive_expanded.rs :: Shape
//@ enum @derive_expanded.rs :: Either
//@ enum @derive_expanded.rs :: Wide

// ---------------------------------------------------------------- oracle: documented derive format
// structs: non-skipped fields in declaration order; enums: variant index as usize, then the non-skipped fields
impl Wire for Named { open spec fn bytes(&self) -> Seq<u8> { self.a.bytes() + self.b.bytes() + self.c.bytes() } }
impl Wire for Tuple { open spec fn bytes(&self) -> Seq<u8> { self.0.bytes() + self.1.bytes() + self.2.bytes() } }
impl Wire for Unit { open spec fn bytes(&self) -> Seq<u8> { Seq::<u8>::empty() } }
impl<T: Wire> Wire for Generic<T> { open spec fn bytes(&self) -> Seq<u8> { self.x.bytes() + self.y.bytes() } }
impl Wire for SkipNamed { open spec fn bytes(&self) -> Seq<u8> { self.b.bytes() + self.d.bytes() } }
impl Wire for SkipTuple { open spec fn bytes(&self) -> Seq<u8> { self.1.bytes() + self.2.bytes() + self.4.bytes() } }
impl Wire for Shape {
    open spec fn bytes(&self) -> Seq<u8> {
        match self {
            Shape::A => 0usize.bytes(),
            Shape::B(f0, f1) => 1usize.bytes() + f0.bytes() + f1.bytes(),
            Shape::C { x, y } => 2usize.bytes() + x.bytes() + y.bytes(),
            Shape::D(_, f1) => 3usize.bytes() + f1.bytes(),
            Shape::F { s, t } => 4usize.bytes() + t.bytes(),
        }
    }
}
impl<T: Wire, U: Wire> Wire for Either<T, U> {
    open spec fn bytes(&self) -> Seq<u8> {
        match self {
            Either::L(a) => 0usize.bytes() + a.bytes(),
            Either::R(b) => 1usize.bytes() + b.bytes(),
            Either::N => 2usize.bytes(),
        }
    }
}

// ---------------------------------------------------------------- the generated impls, verified against the trait contracts
//@ impl @derive_expanded.rs :: impl crate::Encode for Named
//@ member encode
//@ head
        broadcast use lemma_cat_assoc;
//@ end
//@ impl @derive_expanded.rs :: impl crate::Decode for Named
//@ extra
    proof fn prefix_free(a: &Self, b: &Self, ta: Seq<u8>, tb: Seq<u8>) {
        broadcast use lemma_cat_assoc;
        u32::prefix_free(&a.a, &b.a, a.b.bytes() + (a.c.bytes() + ta), b.b.bytes() + (b.c.bytes() + tb));
        i64::prefix_free(&a.b, &b.b, a.c.bytes() + ta, b.c.bytes() + tb);
        bool::prefix_free(&a.c, &b.c, ta, tb);
    }
//@ member decode
//@ head
        broadcast use lemma_cat_assoc;
//@ end

//@ impl @derive_expanded.rs :: impl crate::Encode for Tuple
//@ member encode
//@ head
        broadcast use lemma_cat_assoc;
//@ end
//@ impl @derive_expanded.rs :: impl crate::Decode for Tuple
//@ extra
    proof fn prefix_free(a: &Self, b: &Self, ta: Seq<u8>, tb: Seq<u8>) {
        broadcast use lemma_cat_assoc;
        u8::prefix_free(&a.0, &b.0, a.1.bytes() + (a.2.bytes() + ta), b.1.bytes() + (b.2.bytes() + tb));
        u64::prefix_free(&a.1, &b.1, a.2.bytes() + ta, b.2.bytes() + tb);
        i16::prefix_free(&a.2, &b.2, ta, tb);
    }
//@ member decode
//@ head
        broadcast use lemma_cat_assoc;
//@ end

//@ impl @derive_expanded.rs :: impl crate::Encode for Unit
//@ member encode
//@ head
        broadcast use lemma_cat_empty;
//@ end
//@ impl @derive_expanded.rs :: impl crate::Decode for Unit
//@ extra
    proof fn prefix_free(a: &Self, b: &Self, ta: Seq<u8>, tb: Seq<u8>) { broadcast use lemma_cat_empty; }
//@ member decode
//@ head
        broadcast use lemma_cat_empty;
//@ end

//@ impl @derive_expanded.rs :: impl<T> crate::Encode for Generic<T> where T: crate::Encode
//@ member encode
//@ head
        broadcast use lemma_cat_assoc;
//@ end
//@ impl @derive_expanded.rs :: impl<T> crate::Decode for Generic<T> where T: crate::Decode
//@ extra
    proof fn prefix_free(a: &Self, b: &Self, ta: Seq<u8>, tb: Seq<u8>) {
        broadcast use lemma_cat_assoc;
        T::prefix_free(&a.x, &b.x, a.y.bytes() + ta, b.y.bytes() + tb);
        u16::prefix_free(&a.y, &b.y, ta, tb);
    }
//@ member decode
//@ head
        broadcast use lemma_cat_assoc;
//@ end

//@ impl @derive_expanded.rs :: impl crate::Encode for SkipNamed
//@ member encode
//@ head
        broadcast use lemma_cat_assoc;
//@ end
//@ impl @derive_expanded.rs :: impl crate::Decode for SkipNamed
//@ extra
    proof fn prefix_free(a: &Self, b: &Self, ta: Seq<u8>, tb: Seq<u8>) {
        broadcast use lemma_cat_assoc;
        u16::prefix_free(&a.b, &b.b, a.d.bytes() + ta, b.d.bytes() + tb);
        u64::prefix_free(&a.d, &b.d, ta, tb);
    }
//@ member decode
//@ head
        broadcast use lemma_cat_assoc;
//@ end

//@ impl @derive_expanded.rs :: impl crate::Encode for SkipTuple
//@ member encode
//@ head
        broadcast use lemma_cat_assoc;
//@ end
//@ impl @derive_expanded.rs :: impl crate::Decode for SkipTuple
//@ extra
    proof fn prefix_free(a: &Self, b: &Self, ta: Seq<u8>, tb: Seq<u8>) {
        broadcast use lemma_cat_assoc;
        u16::prefix_free(&a.1, &b.1, a.2.bytes() + (a.4.bytes() + ta), b.2.bytes() + (b.4.bytes() + tb));
        u32::prefix_free(&a.2, &b.2, a.4.bytes() + ta, b.4.bytes() + tb);
        i8::prefix_free(&a.4, &b.4, ta, tb);
    }
//@ member decode
//@ head
        broadcast use lemma_cat_assoc;
//@ end

pub open spec fn shape_idx(s: &Shape) -> usize {
    match s { Shape::A => 0, Shape::B(_, _) => 1, Shape::C { .. } => 2, Shape::D(_, _) => 3, Shape::F { .. } => 4 }
}
pub open spec fn shape_payload(s: &Shape) -> Seq<u8> {
    match s {
        Shape::A => Seq::<u8>::empty(),
        Shape::B(f0, f1) => f0.bytes() + f1.bytes(),
        Shape::C { x, y } => x.bytes() + y.bytes(),
        Shape::D(_, f1) => f1.bytes(),
        Shape::F { s, t } => t.bytes(),
    }
}
pub proof fn lemma_shape_split(s: &Shape, tail: Seq<u8>)
    ensures s.bytes() + tail == shape_idx(s).bytes() + (shape_payload(s) + tail)
{
    broadcast use lemma_cat_assoc, lemma_cat_empty;
    assert(s.bytes() + tail =~= shape_idx(s).bytes() + (shape_payload(s) + tail));
}

//@ impl @derive_expanded.rs :: impl crate::Encode for Shape
//@ member encode
//@ head
        broadcast use lemma_cat_assoc;
//@ end
//@ impl @derive_expanded.rs :: impl crate::Decode for Shape
//@ extra
    proof fn prefix_free(a: &Self, b: &Self, ta: Seq<u8>, tb: Seq<u8>) {
        broadcast use lemma_cat_assoc, lemma_cat_empty;
        lemma_shape_split(a, ta);
        lemma_shape_split(b, tb);
        usize::prefix_free(&shape_idx(a), &shape_idx(b), shape_payload(a) + ta, shape_payload(b) + tb);
        lemma_inj_usize(shape_idx(a), shape_idx(b));
        match (a, b) {
            (Shape::B(a0, a1), Shape::B(b0, b1)) => {
                u32::prefix_free(a0, b0, a1.bytes() + ta, b1.bytes() + tb);
                i16::prefix_free(a1, b1, ta, tb);
            }
            (Shape::C { x: a0, y: a1 }, Shape::C { x: b0, y: b1 }) => {
                u64::prefix_free(a0, b0, a1.bytes() + ta, b1.bytes() + tb);
                bool::prefix_free(a1, b1, ta, tb);
            }
            (Shape::D(_, a1), Shape::D(_, b1)) => { u16::prefix_free(a1, b1, ta, tb); }
            (Shape::F { s: _, t: a1 }, Shape::F { s: _, t: b1 }) => { u8::prefix_free(a1, b1, ta, tb); }
            _ => {}
        }
    }
//@ member decode
//@ head
        broadcast use lemma_cat_assoc, lemma_cat_empty;
//@ end

pub open spec fn either_idx<T, U>(s: &Either<T, U>) -> usize {
    match s { Either::L(_) => 0, Either::R(_) => 1, Either::N => 2 }
}
pub open spec fn either_payload<T: Wire, U: Wire>(s: &Either<T, U>) -> Seq<u8> {
    match s { Either::L(a) => a.bytes(), Either::R(b) => b.bytes(), Either::N => Seq::<u8>::empty() }
}
pub proof fn lemma_either_split<T: Wire, U: Wire>(s: &Either<T, U>, tail: Seq<u8>)
    ensures s.bytes() + tail == either_idx(s).bytes() + (either_payload(s) + tail)
{
    broadcast use lemma_cat_assoc, lemma_cat_empty;
    assert(s.bytes() + tail =~= either_idx(s).bytes() + (either_payload(s) + tail));
}

//@ impl @derive_expanded.rs :: impl<T, U> crate::Encode for Either<T, U> where T: crate::Encode, U: crate::Encode
//@ member encode
//@ head
        broadcast use lemma_cat_assoc;
//@ end
//@ impl @derive_expanded.rs :: impl<T, U> crate::Decode for Either<T, U> where T: crate::Decode, U: crate::Decode
//@ extra
    proof fn prefix_free(a: &Self, b: &Self, ta: Seq<u8>, tb: Seq<u8>) {
        broadcast use lemma_cat_assoc, lemma_cat_empty;
        lemma_either_split(a, ta);
        lemma_either_split(b, tb);
        usize::prefix_free(&either_idx(a), &either_idx(b), either_payload(a) + ta, either_payload(b) + tb);
        lemma_inj_usize(either_idx(a), either_idx(b));
        match (a, b) {
            (Either::L(x), Either::L(y)) => { T::prefix_free(x, y, ta, tb); }
            (Either::R(x), Either::R(y)) => { U::prefix_free(x, y, ta, tb); }
            _ => {}
        }
    }
//@ member decode
//@ head
        broadcast use lemma_cat_assoc, lemma_cat_empty;
//@ end

// ---------------------------------------------------------------- an enum with more than 128 variants
// the variant tag is a usize on the wire: one LEB128 byte below 128, two bytes from index 128 on -- encode and decode must
// agree on that width (a fixture with a handful of variants cannot tell `read_u8` from `read_usize`)
pub open spec fn wide_idx(s: &Wide) -> usize {
    match s { Wide::V0 => 0, Wide::V1 => 1, Wide::V2 => 2, Wide::V3 => 3, Wide::V4 => 4, Wide::V5 => 5, Wide::V6 => 6, Wide::V7 => 7, Wide::V8 => 8, Wide::V9 => 9, Wide::V10 => 10, Wide::V11 => 11, Wide::V12 => 12, Wide::V13 => 13, Wide::V14 => 14, Wide::V15 => 15, Wide::V16 => 16, Wide::V17 => 17, Wide::V18 => 18, Wide::V19 => 19, Wide::V20 => 20, Wide::V21 => 21, Wide::V22 => 22, Wide::V23 => 23, Wide::V24 => 24, Wide::V25 => 25, Wide::V26 => 26, Wide::V27 => 27, Wide::V28 => 28, Wide::V29 => 29, Wide::V30 => 30, Wide::V31 => 31, Wide::V32 => 32, Wide::V33 => 33, Wide::V34 => 34, Wide::V35 => 35, Wide::V36 => 36, Wide::V37 => 37, Wide::V38 => 38, Wide::V39 => 39, Wide::V40 => 40, Wide::V41 => 41, Wide::V42 => 42, Wide::V43 => 43, Wide::V44 => 44, Wide::V45 => 45, Wide::V46 => 46, Wide::V47 => 47, Wide::V48 => 48, Wide::V49 => 49, Wide::V50 => 50, Wide::V51 => 51, Wide::V52 => 52, Wide::V53 => 53, Wide::V54 => 54, Wide::V55 => 55, Wide::V56 => 56, Wide::V57 => 57, Wide::V58 => 58, Wide::V59 => 59, Wide::V60 => 60, Wide::V61 => 61, Wide::V62 => 62, Wide::V63 => 63, Wide::V64 => 64, Wide::V65 => 65, Wide::V66 => 66, Wide::V67 => 67, Wide::V68 => 68, Wide::V69 => 69, Wide::V70 => 70, Wide::V71 => 71, Wide::V72 => 72, Wide::V73 => 73, Wide::V74 => 74, Wide::V75 => 75, Wide::V76 => 76, Wide::V77 => 77, Wide::V78 => 78, Wide::V79 => 79, Wide::V80 => 80, Wide::V81 => 81, Wide::V82 => 82, Wide::V83 => 83, Wide::V84 => 84, Wide::V85 => 85, Wide::V86 => 86, Wide::V87 => 87, Wide::V88 => 88, Wide::V89 => 89, Wide::V90 => 90, Wide::V91 => 91, Wide::V92 => 92, Wide::V93 => 93, Wide::V94 => 94, Wide::V95 => 95, Wide::V96 => 96, Wide::V97 => 97, Wide::V98 => 98, Wide::V99 => 99, Wide::V100 => 100, Wide::V101 => 101, Wide::V102 => 102, Wide::V103 => 103, Wide::V104 => 104, Wide::V105 => 105, Wide::V106 => 106, Wide::V107 => 107, Wide::V108 => 108, Wide::V109 => 109, Wide::V110 => 110, Wide::V111 => 111, Wide::V112 => 112, Wide::V113 => 113, Wide::V114 => 114, Wide::V115 => 115, Wide::V116 => 116, Wide::V117 => 117, Wide::V118 => 118, Wide::V119 => 119, Wide::V120 => 120, Wide::V121 => 121, Wide::V122 => 122, Wide::V123 => 123, Wide::V124 => 124, Wide::V125 => 125, Wide::V126 => 126, Wide::V127 => 127, Wide::V128 => 128, Wide::V129(_) => 129 }
}
pub open spec fn wide_payload(s: &Wide) -> Seq<u8> {
    match s { Wide::V129(x) => x.bytes(), _ => Seq::<u8>::empty() }
}
impl Wire for Wide { open spec fn bytes(&self) -> Seq<u8> { wide_idx(self).bytes() + wide_payload(self) } }
pub proof fn lemma_wide_split(s: &Wide, tail: Seq<u8>)
    ensures s.bytes() + tail == wide_idx(s).bytes() + (wide_payload(s) + tail)
{
    broadcast use lemma_cat_assoc, lemma_cat_empty;
    assert(s.bytes() + tail =~= wide_idx(s).bytes() + (wide_payload(s) + tail));
}
//@ impl @derive_expanded.rs :: impl crate::Encode for Wide
//@ member encode
//@ head
        broadcast use lemma_cat_assoc, lemma_cat_empty;
//@ end
//@ impl @derive_expanded.rs :: impl crate::Decode for Wide
//@ extra
    proof fn prefix_free(a: &Self, b: &Self, ta: Seq<u8>, tb: Seq<u8>) {
        broadcast use lemma_cat_assoc, lemma_cat_empty;
        lemma_wide_split(a, ta);
        lemma_wide_split(b, tb);
        usize::prefix_free(&wide_idx(a), &wide_idx(b), wide_payload(a) + ta, wide_payload(b) + tb);
        lemma_inj_usize(wide_idx(a), wide_idx(b));
        match (a, b) {
            (Wide::V129(x), Wide::V129(y)) => { u16::prefix_free(x, y, ta, tb); }
            _ => {}
        }
    }
//@ member decode
//@ head
        broadcast use lemma_cat_assoc, lemma_cat_empty;
//@ end

} // verus!
fn main() {}
