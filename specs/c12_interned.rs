// C12 — interned handles (crates/storage/src/intern.rs): the wire form of `Interned<T>` depends on the ENCODE SESSION
// (first occurrence of a value: tag 0 + the value; later occurrences: tag 1 + its 128-bit content hash).
// Under contract: the framing codec WiredInterned<T> (an ordinary self-delimiting Wire type, both directions) and the
// session step of `Encode for Interned<T>`: which form is written, under which IDENTITY (type id AND hash -- the key the
// decoder's `get_from_hash::<T>` looks under), and how the session's seen-set moves.
// NOT decided here (see DESIGN): that the decoder's interner still holds every referenced value (shared interner behind
// &Plugin, Weak handles: interior mutability and caller history).
//@ rule R13
//@ rule R14
#![feature(allocator_api)]
#![allow(unused_imports, unused_variables, dead_code, non_snake_case)]
use vstd::prelude::*;
use vstd::string::StringSliceAdditionalSpecFns;
use vstd::std_specs::convert::*;
use vstd::std_specs::hash::*;
use std::io;
use std::rc::Rc;
use std::sync::Arc;
use std::collections::HashSet;
verus! {

//@ include inc/c12_core.rs

// ---------------------------------------------------------------- tag lemmas (as in c12_generic)
pub broadcast proof fn lemma_tag_split(tag: u8, payload: Seq<u8>, tail: Seq<u8>)
    ensures
        #[trigger] ((seq![tag] + payload) + tail) == tag.bytes() + (payload + tail),
{
    let s = (seq![tag] + payload) + tail;
    assert(s =~= seq![tag] + (payload + tail));
}

// ---------------------------------------------------------------- interface stand-ins
/// fxhash (deterministic BuildHasher; trusted)
#[verifier::external_body]
pub struct FxBuildHasher { _p: u8 }
#[verifier::external]
impl std::hash::BuildHasher for FxBuildHasher {
    type Hasher = std::collections::hash_map::DefaultHasher;
    fn build_hasher(&self) -> Self::Hasher { unimplemented!() }
}
impl Default for FxBuildHasher {
    #[verifier::external_body]
    fn default() -> Self { unimplemented!() }
}
pub type FxHashSet<T> = HashSet<T, FxBuildHasher>;

/// qbice_stable_type_id::StableTypeID (a 128-bit value) and the Identifiable constant
#[derive(Clone, Copy, PartialEq, Eq, Hash, Structural)]
pub struct StableTypeID(pub u64, pub u64);
pub trait Identifiable { const STABLE_TYPE_ID: StableTypeID; }
pub trait StableHash {}

/// qbice_stable_hash::Compact128: derived Encode/Decode on a two-field tuple struct (that derive shape is verified on
/// the fixture `Tuple` in unit c12_derive; here the impls are declarations with the trait contract)
#[derive(Clone, Copy, PartialEq, Eq, Hash, Structural)]
pub struct Compact128(pub u64, pub u64);
impl Wire for Compact128 { open spec fn bytes(&self) -> Seq<u8> { self.0.bytes() + self.1.bytes() } }
impl Encode for Compact128 {
    #[verifier::external_body]
    fn encode<E: Encoder + ?Sized>(&self, encoder: &mut E, plugin: &Plugin, session: &mut Session) -> io::Result<()> { unimplemented!() }
}
impl Decode for Compact128 {
    proof fn prefix_free(a: &Self, b: &Self, ta: Seq<u8>, tb: Seq<u8>) {
        broadcast use lemma_cat_assoc;
        assert(a.bytes() + ta =~= a.0.bytes() + (a.1.bytes() + ta));
        assert(b.bytes() + tb =~= b.0.bytes() + (b.1.bytes() + tb));
        u64::prefix_free(&a.0, &b.0, a.1.bytes() + ta, b.1.bytes() + tb);
        u64::prefix_free(&a.1, &b.1, ta, tb);
    }
    #[verifier::external_body]
    fn decode<D: Decoder + ?Sized>(decoder: &mut D, plugin: &Plugin, session: &mut Session) -> io::Result<Self> { unimplemented!() }
}

/// the session: typed slots; `slot::<K>()` is the current value of the slot of key K (Default if never touched)
pub trait SessionKey { type Value; }
impl Session {
    pub uninterp spec fn slot<K: SessionKey>(&self) -> K::Value;
    /// Session::get_mut_or_default: a borrow of that slot; no other slot changes (not needed below, not stated)
    #[verifier::external_body]
    pub fn get_mut_or_default<K: SessionKey>(&mut self) -> (r: &mut K::Value)
        ensures *r == old(self).slot::<K>(), final(self).slot::<K>() == *final(r)
    { unimplemented!() }
}

/// the interner: `hash_of(v)` is the 128-bit content hash (a function of the value: C13)
pub uninterp spec fn hash_of<T: ?Sized>(v: &T) -> Compact128;
#[verifier::external_body]
pub struct Interner { _p: u8 }
impl Interner {
    #[verifier::external_body]
    pub fn hash_128<T: StableHash + ?Sized>(&self, value: &T) -> (r: Compact128)
        ensures r == hash_of(value)
    { unimplemented!() }
}
impl Plugin {
    /// ASSUMPTION: the plugin a value with interned handles is (de)serialized with carries the interner (absent: panic)
    #[verifier::external_body]
    pub fn get<T>(&self) -> (r: Option<&T>)
        ensures r is Some
    { unimplemented!() }
}

// ---------------------------------------------------------------- the real types
//@ struct crates/storage/src/intern.rs :: InternedID
#[derive(Clone, Copy, PartialEq, Eq, Hash, Structural)]
//@ end
//@ struct crates/storage/src/intern.rs :: SeenInterned
//@ impl crates/storage/src/intern.rs :: impl SessionKey for SeenInterned
//@ assoc Value
//@ end
//@ struct crates/storage/src/intern.rs :: Interned
//@ enum crates/storage/src/intern.rs :: WiredInterned

pub proof fn axiom_interned_id_key()
    ensures obeys_key_model::<InternedID>(), builds_valid_hashers::<FxBuildHasher>()
{ admit(); }

// ---------------------------------------------------------------- WiredInterned<T>: an ordinary Wire type
impl<T: Wire> Wire for WiredInterned<T> {
    open spec fn bytes(&self) -> Seq<u8> {
        match self { WiredInterned::Source(v) => seq![0u8] + v.bytes(), WiredInterned::Reference(h) => seq![1u8] + h.bytes() }
    }
}
//@ impl crates/storage/src/intern.rs :: impl<T: Encode> Encode for WiredInterned<T>
//@ member encode
//@ head
        broadcast use lemma_cat_assoc;
//@ end
//@ impl crates/storage/src/intern.rs :: impl<T: Decode> Decode for WiredInterned<T>
//@ extra
    proof fn prefix_free(a: &Self, b: &Self, ta: Seq<u8>, tb: Seq<u8>) {
        broadcast use lemma_cat_assoc;
        match (a, b) {
            (WiredInterned::Source(x), WiredInterned::Source(y)) => {
                lemma_one_byte_split(0u8, 0u8, x.bytes() + ta, y.bytes() + tb);
                T::prefix_free(x, y, ta, tb);
            }
            (WiredInterned::Reference(x), WiredInterned::Reference(y)) => {
                lemma_one_byte_split(1u8, 1u8, x.bytes() + ta, y.bytes() + tb);
                Compact128::prefix_free(x, y, ta, tb);
            }
            (WiredInterned::Source(x), WiredInterned::Reference(y)) => { lemma_one_byte_split(0u8, 1u8, x.bytes() + ta, y.bytes() + tb); }
            (WiredInterned::Reference(x), WiredInterned::Source(y)) => { lemma_one_byte_split(1u8, 0u8, x.bytes() + ta, y.bytes() + tb); }
        }
    }
//@ member decode
//@ head
        broadcast use lemma_tag_split;
        proof {
            assert forall|v: Self, tail: Seq<u8>| #![trigger v.bytes() + tail] old(decoder).rest() == v.bytes() + tail implies
                old(decoder).rest() == (match v { WiredInterned::Source(_) => 0u8, WiredInterned::Reference(_) => 1u8 }).bytes()
                    + ((match v { WiredInterned::Source(x) => x.bytes(), WiredInterned::Reference(h) => h.bytes() }) + tail) by {
                broadcast use lemma_cat_assoc;
            }
        }
//@ end

// ---------------------------------------------------------------- the session step of Encode for Interned<T>
/// the identity under which a handle of type T with this content is remembered -- and looked up by the decoder
pub open spec fn id_of<T: Identifiable + ?Sized>(v: &T) -> InternedID {
    InternedID { stable_type_id: T::STABLE_TYPE_ID, hash_128: hash_of(v) }
}
pub open spec fn seen(s: &Session) -> Set<InternedID> { s.slot::<SeenInterned>()@ }

/// contract trait for the session-dependent encoder (the `Encode` contract of c12_core speaks about images that are a
/// function of the value alone, which an interned handle's image is not)
pub trait SessionEncode<T: ?Sized + Wire + Identifiable> {
    spec fn value(&self) -> &T;
    fn encode<E: Encoder + ?Sized>(&self, encoder: &mut E, plugin: &Plugin, session: &mut Session) -> (r: io::Result<()>)
        ensures
            // first occurrence IN THIS SESSION of (type, content): the value itself, tag 0
            r is Ok && !seen(old(session)).contains(id_of(self.value())) ==>
                final(encoder).out() =~= old(encoder).out() + seq![0u8] + self.value().bytes(),
            // later occurrence of the SAME (type, content): a reference, tag 1 + hash
            r is Ok && seen(old(session)).contains(id_of(self.value())) ==>
                final(encoder).out() =~= old(encoder).out() + seq![1u8] + hash_of(self.value()).bytes(),
        ;
}

//@ impl crates/storage/src/intern.rs :: impl<T: Identifiable + StableHash + Encode + Send + Sync + 'static + ?Sized> Encode for Interned<T>
//@ header-sub Encode for Interned<T> => SessionEncode<T> for Interned<T>
//@ extra
    open spec fn value(&self) -> &T { &*self.0 }
//@ member encode
//@ head
        proof { axiom_interned_id_key(); }
        broadcast use lemma_cat_assoc, group_hash_axioms;
//@ end

} // verus!
fn main() {}
