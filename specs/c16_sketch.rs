// C16 — frequency sketch (crates/storage/src/tiny_lfu/sketch.rs): index safety, 4-bit counter saturation without carry,
// halving reset. Purpose: the admission policy cannot panic or corrupt neighbouring counters whatever the access pattern.
#![allow(unused_imports, unused_variables, dead_code, non_snake_case)]
use vstd::prelude::*;
use vstd::std_specs::iter::IteratorSpec;
verus! {

// target assumption: 64-bit usize (the sketch arithmetic is only bounded for this width)
global size_of usize == 8;

// ---------------------------------------------------------------- std facts (trusted)
pub open spec fn is_pow2(n: usize) -> bool { n > 0 && (n & ((n - 1) as usize)) == 0 }

/// usize::next_power_of_two (panics / wraps only beyond 2^63: excluded by the precondition)
pub assume_specification[ usize::next_power_of_two ](x: usize) -> (r: usize)
    requires x <= 0x4000_0000_0000_0000,
    ensures is_pow2(r), r >= x, r >= 1, r as int <= 2 * x as int || x == 0;

pub assume_specification[ usize::div_ceil ](a: usize, b: usize) -> (r: usize)
    requires b > 0,
    ensures r as int == (a as int + b as int - 1) / (b as int);

pub assume_specification[ u64::rotate_left ](a: u64, n: u32) -> (r: u64);

// ---------------------------------------------------------------- the real types
//@ struct crates/storage/src/tiny_lfu/sketch.rs :: BloomFilter
//@ struct crates/storage/src/tiny_lfu/sketch.rs :: CountMinSketch
//@ struct crates/storage/src/tiny_lfu/sketch.rs :: Sketch

// ---------------------------------------------------------------- vocabulary
impl BloomFilter {
    /// bitmap holds exactly size_mask+1 bits, a power of two >= 64
    pub open spec fn wf(&self) -> bool {
        &&& self.size_mask < usize::MAX
        &&& is_pow2((self.size_mask + 1) as usize)
        &&& self.size_mask + 1 >= 64
        &&& self.bitmap@.len() * 64 == self.size_mask + 1
    }
}

impl CountMinSketch {
    pub open spec fn width(&self) -> int { self.mask as int + 1 }
    /// 4 rows of `width` 4-bit counters, 16 counters per word
    pub open spec fn wf(&self) -> bool {
        &&& self.mask < 0x1000_0000_0000_0000
        &&& is_pow2((self.mask + 1) as usize)
        &&& self.table@.len() == (self.width() * 4 + 15) / 16
    }
}

impl Sketch {
    pub open spec fn wf(&self) -> bool {
        &&& self.bloom_filter.wf()
        &&& self.cms.wf()
        &&& (self.additions < self.reset_threshold || self.additions == 0)
    }
}

pub broadcast proof fn lemma_mask_le(a: usize, m: usize)
    ensures #[trigger] (a & m) <= m
{
    assert((a & m) <= m) by (bit_vector);
}

pub broadcast proof fn lemma_nibble_le(w: u64, off: usize)
    ensures #[trigger] ((w >> off) & 0xF) <= 15
{
    assert(((w >> off) & 0xF) <= 15) by (bit_vector);
}

/// adding 1 to a non-saturated 4-bit counter cannot overflow the word
pub broadcast proof fn lemma_nibble_inc_no_overflow(w: u64, off: usize)
    requires off % 4 == 0, off <= 60, #[trigger] ((w >> off) & 0xF) < 15
    ensures w + (1u64 << off) <= u64::MAX, (1u64 << off) >= 1
{
    assert(off % 4 == 0 && off <= 60 && ((w >> off) & 0xF) < 15 ==> w <= 0xFFFF_FFFF_FFFF_FFFFu64 - (1u64 << off)) by (bit_vector);
    assert(off <= 60 ==> (1u64 << off) >= 1) by (bit_vector);
}

pub proof fn lemma_pow2_64(n: usize)
    requires is_pow2(n), n >= 64
    ensures n % 64 == 0, (n / 64) * 64 == n
{
    assert(n > 0 && (n & ((n - 1) as usize)) == 0 && n >= 64 ==> n % 64 == 0) by (bit_vector);
}

/// the aging step on one word of sixteen 4-bit counters
pub open spec fn halved(w: u64) -> u64 { (w >> 1) & 0x7777_7777_7777_7777u64 }
/// ... is the nibble-wise floor(counter / 2): counter k of the result is counter k of the input shifted right by one
pub proof fn lemma_halved_nibbles(w: u64, off: u64)
    requires off % 4 == 0, off <= 60
    ensures ((halved(w) >> off) & 0xF) == (((w >> off) & 0xF) >> 1)
{
    assert(off % 4 == 0 && off <= 60 ==> (((((w >> 1) & 0x7777_7777_7777_7777u64) >> off) & 0xF) == (((w >> off) & 0xF) >> 1))) by (bit_vector);
}

// ---------------------------------------------------------------- functions under contract
//@ impl crates/storage/src/tiny_lfu/sketch.rs :: impl BloomFilter
//@ member new
//@ ret r
//@ sig
        requires capacity <= 0x2000_0000_0000_0000
        ensures r.wf()
//@ head
        proof {
            let b = if capacity >= 64 { capacity } else { 64usize };
            assert forall|n: usize| is_pow2(n) && n >= 64 implies n % 64 == 0 && (n / 64) * 64 == n by { lemma_pow2_64(n); }
        }
//@ member contains_or_add
//@ sig
        requires old(self).wf()
        ensures final(self).wf(), final(self).size_mask == old(self).size_mask
//@ head
        broadcast use lemma_mask_le;
//@ member read_access
//@ sig
        requires self.wf()
//@ head
        broadcast use lemma_mask_le;
//@ member clear
//@ sig
        requires old(self).wf()
        ensures final(self).wf(), final(self).size_mask == old(self).size_mask,
            // the filter is empty afterwards: every word is zero
            forall|i: int| 0 <= i < final(self).bitmap@.len() ==> final(self).bitmap@[i] == 0
//@ loop 0 iter __it
//@ loop 0 itercall
//@ loop 0 inv
            invariant
                self.size_mask == old(self).size_mask,
                __it.snapshot@.remaining().len() == old(self).bitmap@.len(),
                final(self).bitmap@.len() == old(self).bitmap@.len(),
                forall|j: int| 0 <= j < __it.snapshot@.remaining().len() ==> *final(#[trigger] __it.snapshot@.remaining()[j]) == final(self).bitmap@[j],
                forall|j: int| 0 <= j < __it.index@ ==> *final(#[trigger] __it.snapshot@.remaining()[j]) == 0,
//@ end

//@ impl crates/storage/src/tiny_lfu/sketch.rs :: impl CountMinSketch
//@ member new
//@ ret r
//@ sig
        requires capacity <= 0x0800_0000_0000_0000
        ensures r.wf()
//@ member increment
//@ sig
        requires old(self).wf()
        ensures final(self).wf(), final(self).mask == old(self).mask
//@ loop 0 iter __it
//@ loop 0 inv
            invariant self.wf(), self.mask == old(self).mask,
//@ loop 0 head
            broadcast use lemma_mask_le, lemma_nibble_le, lemma_nibble_inc_no_overflow;
            proof {
                assert(r < 4);
                let (ri, wi) = (r as int, self.mask as int + 1);
                assert(ri * wi <= 3 * wi) by (nonlinear_arith) requires ri <= 3, wi >= 0;
            }
//@ member estimate
//@ ret res
//@ sig
        requires self.wf()
        ensures res <= 15
//@ loop 0 iter __it
//@ loop 0 inv
            invariant self.wf(), min <= 15,
//@ loop 0 head
            broadcast use lemma_mask_le, lemma_nibble_le;
            proof {
                assert(r < 4);
                let (ri, wi) = (r as int, self.mask as int + 1);
                assert(ri * wi <= 3 * wi) by (nonlinear_arith) requires ri <= 3, wi >= 0;
            }
//@ member reset
//@ sig
        requires old(self).wf()
        ensures final(self).wf(), final(self).mask == old(self).mask,
            // every word is halved nibble-wise: each 4-bit counter becomes floor(counter / 2), no bit crosses into a neighbour
            forall|i: int| 0 <= i < final(self).table@.len() ==> final(self).table@[i] == halved(old(self).table@[i])
//@ loop 0 iter __it
//@ loop 0 itercall
//@ loop 0 inv
            invariant
                self.mask == old(self).mask,
                __it.snapshot@.remaining().len() == old(self).table@.len(),
                final(self).table@.len() == old(self).table@.len(),
                forall|j: int| 0 <= j < __it.snapshot@.remaining().len() ==> *(#[trigger] __it.snapshot@.remaining()[j]) == old(self).table@[j],
                forall|j: int| 0 <= j < __it.snapshot@.remaining().len() ==> *final(#[trigger] __it.snapshot@.remaining()[j]) == final(self).table@[j],
                forall|j: int| 0 <= j < __it.index@ ==> *final(#[trigger] __it.snapshot@.remaining()[j]) == halved(old(self).table@[j]),
//@ end

//@ impl crates/storage/src/tiny_lfu/sketch.rs :: impl Sketch
//@ member new
//@ ret r
//@ sig
        requires capacity <= 0x0800_0000_0000_0000
        ensures r.wf()
//@ member record_access
//@ sig
        requires old(self).wf()
        ensures final(self).wf()
//@ member estimate_frequency
//@ ret r
//@ sig
        requires self.wf()
        ensures r <= 16
//@ end

} // verus!
fn main() {}
