// C11 — byte-level key scheme of the RocksDB backend (crates/storage/src/kv_database/rocksdb.rs).
// Plain lines: hand-written specification. `//@` directives: real source text, re-extracted every run.
//@ rule R10
//@ rule R11
//@ rule R17
#![allow(unused_imports, unused_variables, dead_code, non_snake_case)]
use vstd::prelude::*;
use vstd::std_specs::convert::*;
use vstd::std_specs::iter::IteratorSpec;
use std::sync::Arc;
verus! {

//@ include inc/bytes_order.rs

//@ include inc/c11_prelude.rs

/// struct stand-in (field subset): `plugin` is passed through opaquely, `db` is the RocksDB handle (point reads)
pub struct Impl { pub plugin: Plugin, pub db: DbHandle }

// ---------------------------------------------------------------- functions under contract
//@ impl crates/storage/src/kv_database/rocksdb.rs :: impl Impl
//@ member prefix_upper_bound
//@ ret r
//@ sig
        ensures
            r@ == ub(prefix@),
            // top-level, from the property: the scan window [prefix, r) holds exactly the keys that start with prefix
            forall|k: Seq<u8>| in_window(prefix@, r@, k) <==> is_prefix(prefix@, k),
//@ head
        proof {
            assert forall|k: Seq<u8>| in_window(prefix@, ub(prefix@), k) <==> is_prefix(prefix@, k) by { lemma_window(prefix@, k); }
            if all_ff(prefix@) { lemma_ub_allff(prefix@); }
        }
//@ loop 0 iter __it
//@ loop 0 inv
            invariant
                upper_bound@ == prefix@,
                __it.snapshot@.remaining().len() == prefix@.len(),
                forall|k: int| 0 <= k < prefix@.len() ==> __it.snapshot@.remaining()[k] == prefix@.len() - 1 - k,
                forall|j: int| prefix@.len() - __it.index@ <= j < prefix@.len() ==> #[trigger] prefix@[j] == 0xFFu8,
                forall|k: Seq<u8>| in_window(prefix@, ub(prefix@), k) <==> is_prefix(prefix@, k),
//@ loop 0 head
            proof {
                assert(i == prefix@.len() - 1 - __it.index@);
                if prefix@[i as int] < 0xFFu8 {
                    lemma_ub_shape(prefix@, i as int);
                    assert(prefix@.update(i as int, (prefix@[i as int] + 1) as u8).subrange(0, i + 1) =~= prefix@.subrange(0, i as int).push((prefix@[i as int] + 1) as u8));
                }
            }
//@ member transform_key
//@ ret r
//@ sig
        requires
            // call-site invariant (RocksDB only hands us keys of this column family or bounds derived from them):
            // the 8-byte length field cannot make `8 + length` overflow
            key@.len() >= 8 ==> le64_val(key@.subrange(0, 8)) + 8 <= usize::MAX,
        ensures
            r@ == tk(key@),
//@ head
        proof { axiom_try_from_slice8(); }
//@ member encode_value
//@ sig
        ensures final(buffer)@ == old(buffer)@ + key.bytes()
//@ member encode_value_length_prefixed
//@ sig
        requires old(buffer)@.len() + 8 + key.bytes().len() <= usize::MAX
        ensures final(buffer)@ == old(buffer)@ + lp(key.bytes())
//@ head
        proof { lemma_le64_roundtrip(0); }
//@ member encode_wide_column_key
//@ sig
        ensures
            W::enc() == DiscriminantEncoding::Prefixed ==>
                final(buffer)@ =~= old(buffer)@ + C::disc().bytes() + key.bytes(),
            W::enc() == DiscriminantEncoding::Suffixed ==>
                final(buffer)@ =~= old(buffer)@ + key.bytes() + C::disc().bytes(),
//@ end

// ---------------------------------------------------------------- consequences (spec level): what the contracts give the property
/// a stored member key `lp(k) ++ e` is mapped by the prefix extractor to the seek prefix `lp(k)`
pub proof fn lemma_tk_member(kb: Seq<u8>, e: Seq<u8>)
    requires kb.len() < 0x1_0000_0000_0000_0000
    ensures tk(lp(kb) + e) == lp(kb), tk(lp(kb)) == lp(kb)
{
    lemma_le64_roundtrip(kb.len());
    let s = lp(kb) + e;
    assert(s.subrange(0, 8) =~= le64(kb.len()));
    assert(s.subrange(0, 8 + kb.len() as int) =~= lp(kb));
    assert(lp(kb).subrange(0, 8) =~= le64(kb.len()));
    assert(lp(kb).subrange(0, 8 + kb.len() as int) =~= lp(kb));
}

/// no leakage between set keys: if lp(k1) is a prefix of a stored key lp(k2) ++ e then k1 == k2
/// (even when k1's bytes are a prefix / extension of k2's, or either is empty)
pub proof fn lemma_no_leak(k1: Seq<u8>, k2: Seq<u8>, e: Seq<u8>)
    requires is_prefix(lp(k1), lp(k2) + e), k1.len() < 0x1_0000_0000_0000_0000, k2.len() < 0x1_0000_0000_0000_0000
    ensures k1 == k2
{
    lemma_le64_roundtrip(k1.len());
    lemma_le64_roundtrip(k2.len());
    let s = lp(k2) + e;
    let pre = s.subrange(0, lp(k1).len() as int);
    assert(pre =~= lp(k1));
    assert(pre.subrange(0, 8) =~= le64(k1.len()));
    assert(pre.subrange(0, 8) =~= s.subrange(0, 8));
    assert(s.subrange(0, 8) =~= le64(k2.len()));
    assert(k1.len() == k2.len());
    assert(k1 =~= pre.subrange(8, 8 + k1.len() as int));
    assert(k2 =~= s.subrange(8, 8 + k2.len() as int));
    assert(pre.subrange(8, 8 + k1.len() as int) =~= s.subrange(8, 8 + k1.len() as int));
}

/// the scan prefix of a realistic key (< 2^56 bytes) is never all-0xFF, so `scan_members` always has an upper bound
pub proof fn lemma_lp_has_upper_bound(kb: Seq<u8>)
    requires kb.len() < 0x100_0000_0000_0000
    ensures ub(lp(kb)).len() > 0
{
    lemma_le64_roundtrip(kb.len());
    assert(lp(kb)[7] == le64(kb.len())[7]);
    assert(!all_ff(lp(kb)));
    lemma_ub_nonempty(lp(kb));
}

/// element split used by ScanMembersIterator::next: skipping 8 + length bytes of a stored key yields the element bytes
pub proof fn lemma_member_split(kb: Seq<u8>, e: Seq<u8>)
    requires kb.len() < 0x1_0000_0000_0000_0000
    ensures ({ let s = lp(kb) + e; s.subrange(8 + le64_val(s.subrange(0, 8)) as int, s.len() as int) == e })
{
    lemma_le64_roundtrip(kb.len());
    let s = lp(kb) + e;
    assert(s.subrange(0, 8) =~= le64(kb.len()));
    assert(s.subrange(8 + kb.len() as int, s.len() as int) =~= e);
}

/// a member scan of key k sees exactly the stored members of k: combines window tightness, no-leak and the element split
pub proof fn lemma_scan_exact(k1: Seq<u8>, k2: Seq<u8>, e: Seq<u8>)
    requires k1.len() < 0x100_0000_0000_0000, k2.len() < 0x100_0000_0000_0000
    ensures in_window(lp(k1), ub(lp(k1)), lp(k2) + e) <==> k1 == k2
{
    lemma_window(lp(k1), lp(k2) + e);
    if is_prefix(lp(k1), lp(k2) + e) { lemma_no_leak(k1, k2, e); }
    if k1 == k2 { assert((lp(k2) + e).subrange(0, lp(k1).len() as int) =~= lp(k1)); }
}

//@ include inc/c11_pair.rs

// ---------------------------------------------------------------- vacuity canaries: each MUST fail
proof fn canary_window_contract(p: Seq<u8>, k: Seq<u8>)
{
    lemma_window(p, k);
    assert(false);
}

fn canary_transform_key_pre(key: &[u8])
    requires key@.len() >= 8 ==> le64_val(key@.subrange(0, 8)) + 8 <= usize::MAX
{
    let r = Impl::transform_key(key);
    assert(false);
}

fn canary_encode_lp_pre<K: Encode>(x: &Impl, key: &K, buffer: &mut Vec<u8>)
    requires old(buffer)@.len() + 8 + key.bytes().len() <= usize::MAX
{
    x.encode_value_length_prefixed(key, buffer);
    assert(false);
}


// ================================================================ the operations layer: which backend operation each
// trait method issues, on which column family, with which key / value bytes -- on the direct path (WriteBatch) and on the
// recorded path (SerializationBuffer -> consume_serialization_buffer), which must agree with each other and with the readers
//@ enum crates/storage/src/kv_database/rocksdb.rs :: ColumnKind
#[derive(Clone, Copy, PartialEq, Eq, Structural)]
//@ end

/// the key under which (column W, value type C, key k) lives
pub open spec fn wide_key<W: WideColumn, C: WideColumnValue<W>>(k: &W::Key) -> Seq<u8> {
    if W::enc() == DiscriminantEncoding::Prefixed { C::disc().bytes() + k.bytes() } else { k.bytes() + C::disc().bytes() }
}
/// the key under which member e of the set of k lives
pub open spec fn member_key<C: KeyOfSetColumn>(k: &C::Key, e: &C::Element) -> Seq<u8> { lp(k.bytes()) + e.bytes() }


//@ include inc/c11_ops.rs
pub mod rust_rocksdb {
    use super::*;
    /// interface stand-in for rust_rocksdb::WriteOptions
    #[verifier::external_body]
    pub struct WriteOptions { _p: u8 }
    impl WriteOptions {
        #[verifier::external_body]
        pub fn default() -> Self { unimplemented!() }
        #[verifier::external_body]
        pub fn disable_wal(&mut self, disable: bool) { unimplemented!() }
    }
    /// interface stand-in for rust_rocksdb::WriteBatch: an ordered log of operations (atomic application at `write`: trusted backend)
    #[verifier::external_body]
    pub struct WriteBatch { _p: u8 }
    impl WriteBatch {
        pub uninterp spec fn ops(&self) -> Seq<BOp>;
        #[verifier::external_body]
        pub fn put_cf<K: AsBytes, V: AsBytes>(&mut self, cf: &Handle, key: K, value: V)
            ensures final(self).ops() == old(self).ops().push(BOp::Put { ty: cf.ty(), kind: cf.kind(), key: key.seq(), value: value.seq() })
        { unimplemented!() }
        #[verifier::external_body]
        pub fn delete_cf<K: AsBytes>(&mut self, cf: &Handle, key: K)
            ensures final(self).ops() == old(self).ops().push(BOp::Del { ty: cf.ty(), kind: cf.kind(), key: key.seq() })
        { unimplemented!() }
    }
}

impl Impl {
    /// get_or_create_cf / get_or_create_cf_from_cf_identifier (DashMap cache + RocksDB handles: not under contract):
    /// the handle names the column family of (type id, kind)
    #[verifier::external_body]
    pub fn get_or_create_cf<C: Identifiable>(&self, kind: ColumnKind) -> (r: Handle)
        ensures r.ty() == C::STABLE_TYPE_ID, r.kind() == kind
    { unimplemented!() }
    #[verifier::external_body]
    pub fn get_or_create_cf_from_cf_identifier(&self, stable_type_id: StableTypeID, kind: ColumnKind) -> (r: Handle)
        ensures r.ty() == stable_type_id, r.kind() == kind
    { unimplemented!() }
}

//@ struct crates/storage/src/kv_database/rocksdb.rs :: CfIdentifier
//@ enum crates/storage/src/kv_database/rocksdb.rs :: Operation
//@ struct crates/storage/src/kv_database/rocksdb.rs :: RocksDBWriteBatch
//@ struct crates/storage/src/kv_database/rocksdb.rs :: RocksDBSerializationBuffer
//@ const crates/storage/src/kv_database/rocksdb.rs :: PREFERRED_WRITE_BATCH_SIZE

/// what a recorded operation becomes when the buffer is consumed
pub open spec fn replayed(op: &Operation) -> BOp {
    match op {
        Operation::WideColumnPut { cf, key, value } => BOp::Put { ty: cf.stable_type_id, kind: cf.kind, key: key@, value: value@ },
        Operation::WideColumnDelete { cf, key } => BOp::Del { ty: cf.stable_type_id, kind: cf.kind, key: key@ },
        Operation::InsertMember { cf, key } => BOp::Put { ty: cf.stable_type_id, kind: cf.kind, key: key@, value: Seq::empty() },
        Operation::DeleteMember { cf, key } => BOp::Del { ty: cf.stable_type_id, kind: cf.kind, key: key@ },
    }
}
pub open spec fn replayed_all(ops: Seq<Operation>) -> Seq<BOp> { Seq::new(ops.len(), |i: int| replayed(&ops[i])) }
/// bytes a recorded operation adds to the size estimate
pub open spec fn op_cost(op: &Operation) -> nat {
    match op {
        Operation::WideColumnPut { cf, key, value } => key@.len() + value@.len(),
        Operation::WideColumnDelete { cf, key } => key@.len(),
        Operation::InsertMember { cf, key } => key@.len(),
        Operation::DeleteMember { cf, key } => key@.len(),
    }
}
pub open spec fn ops_cost(ops: Seq<Operation>) -> nat
    decreases ops.len()
{
    if ops.len() == 0 { 0 } else { ops_cost(ops.drop_last()) + op_cost(&ops.last()) }
}
pub proof fn lemma_ops_cost_take(ops: Seq<Operation>, i: int)
    requires 0 <= i < ops.len()
    ensures ops_cost(ops.take(i + 1)) == ops_cost(ops.take(i)) + op_cost(&ops[i]), ops_cost(ops.take(i + 1)) <= ops_cost(ops)
    decreases ops.len() - i
{
    assert(ops.take(i + 1).drop_last() =~= ops.take(i));
    if i + 1 < ops.len() { lemma_ops_cost_take(ops, i + 1); } else { assert(ops.take(i + 1) =~= ops); }
}

//@ impl crates/storage/src/kv_database/rocksdb.rs :: impl WriteBatch for RocksDBWriteBatch
//@ extra
    type SerializationBuffer = RocksDBSerializationBuffer;
    open spec fn est(&self) -> nat { self.estimated_size as nat }
    open spec fn cost(buffer: &RocksDBSerializationBuffer) -> nat { ops_cost(buffer.operations@) }
//@ member consume_serialization_buffer
//@ sig
        ensures final(self).batch.ops() =~= old(self).batch.ops() + replayed_all(buffer.operations@)
//@ head
        let ghost ops = buffer.operations@;
        proof { assert(ops.take(0) =~= Seq::<Operation>::empty()); }
//@ loop 0 iter __it
//@ loop 0 inv
            invariant
                ops == buffer.operations@,
                self.batch.ops() =~= old(self).batch.ops() + replayed_all(ops.take(__it.index@ as int)),
                self.estimated_size as nat == old(self).estimated_size as nat + ops_cost(ops.take(__it.index@ as int)),
                old(self).estimated_size as nat + ops_cost(ops) <= usize::MAX,
//@ loop 0 head
            proof {
                let i = __it.index@ as int;
                lemma_ops_cost_take(ops, i);
                assert(replayed_all(ops.take(i + 1)) =~= replayed_all(ops.take(i)).push(replayed(&ops[i])));
            }
//@ loop 0 after
        proof { assert(ops.take(ops.len() as int) =~= ops); }
//@ member put
//@ sig
        ensures final(self).batch.ops() == old(self).batch.ops().push(BOp::Put {
            ty: W::STABLE_TYPE_ID, kind: ColumnKind::WideColumn, key: wide_key::<W, C>(key), value: value.bytes() })
//@ member delete
//@ sig
        ensures final(self).batch.ops() == old(self).batch.ops().push(BOp::Del {
            ty: W::STABLE_TYPE_ID, kind: ColumnKind::WideColumn, key: wide_key::<W, C>(key) })
//@ member insert_member
//@ sig
        ensures final(self).batch.ops() == old(self).batch.ops().push(BOp::Put {
            ty: C::STABLE_TYPE_ID, kind: ColumnKind::KeyOfSet, key: member_key::<C>(key, value), value: Seq::empty() })
//@ member delete_member
//@ sig
        ensures final(self).batch.ops() == old(self).batch.ops().push(BOp::Del {
            ty: C::STABLE_TYPE_ID, kind: ColumnKind::KeyOfSet, key: member_key::<C>(key, value) })
//@ member should_write_more
//@ member commit
//@ sig
        // whatever the batch holds -- also when its size estimate is 0 (empty keys, deletions only) -- is handed to the store
        ensures written(self.batch.ops())
//@ end

//@ impl crates/storage/src/kv_database/rocksdb.rs :: impl SerializationBuffer for RocksDBSerializationBuffer
//@ member put
//@ sig
        ensures replayed_all(final(self).operations@) =~= replayed_all(old(self).operations@).push(BOp::Put {
            ty: W::STABLE_TYPE_ID, kind: ColumnKind::WideColumn, key: wide_key::<W, C>(key), value: value.bytes() })
//@ member delete
//@ sig
        ensures replayed_all(final(self).operations@) =~= replayed_all(old(self).operations@).push(BOp::Del {
            ty: W::STABLE_TYPE_ID, kind: ColumnKind::WideColumn, key: wide_key::<W, C>(key) })
//@ member insert_member
//@ sig
        ensures replayed_all(final(self).operations@) =~= replayed_all(old(self).operations@).push(BOp::Put {
            ty: C::STABLE_TYPE_ID, kind: ColumnKind::KeyOfSet, key: member_key::<C>(key, value), value: Seq::empty() })
//@ member delete_member
//@ sig
        ensures replayed_all(final(self).operations@) =~= replayed_all(old(self).operations@).push(BOp::Del {
            ty: C::STABLE_TYPE_ID, kind: ColumnKind::KeyOfSet, key: member_key::<C>(key, value) })
//@ end



// ---------------------------------------------------------------- point read: the same column, the same key bytes as the writers
/// interface stand-in for the RocksDB handle (`DBWithThreadMode`): a point read reports the committed content
#[verifier::external_body]
pub struct DbHandle { _p: u8 }
impl DbHandle {
    /// DB::key_may_exist_cf: a bloom-filter style hint about the COMMITTED store; it knows nothing about operations already
    /// staged in the batch being built, and may answer anything
    #[verifier::external_body]
    pub fn key_may_exist_cf<K: AsBytes>(&self, cf: &Handle, key: K) -> bool { unimplemented!() }
    /// DB::write_opt: hands the whole batch to RocksDB as one write
    #[verifier::external_body]
    pub fn write_opt(&self, batch: &rust_rocksdb::WriteBatch, opts: &rust_rocksdb::WriteOptions) -> (r: Result<(), std::fmt::Error>)
        ensures r is Ok, written(batch.ops())
    { unimplemented!() }
    #[verifier::external_body]
    pub fn get_cf<K: AsBytes>(&self, cf: &Handle, key: K) -> (r: Result<Option<Vec<u8>>, std::fmt::Error>)
        ensures r matches Ok(o) && (match o { Some(b) => stored(cf.ty(), cf.kind(), key.seq()) == Some(b@), None => stored(cf.ty(), cf.kind(), key.seq()) is None })
    { unimplemented!() }
}
//@ struct crates/storage/src/kv_database/rocksdb.rs :: RocksDB
//@ impl crates/storage/src/kv_database/rocksdb.rs :: impl KvDatabase for RocksDB
//@ member get_wide_column
//@ ret r
//@ sig
        ensures
            match stored(W::STABLE_TYPE_ID, ColumnKind::WideColumn, wide_key::<W, C>(key)) {
                None => r is None,
                Some(b) => r matches Some(w) && (forall|v: C| b == #[trigger] v.bytes() ==> w.bytes() == v.bytes()),
            }
//@ end


// ---------------------------------------------------------------- member scan, element side: what `next` makes of a stored key
/// interface stand-in for the self-referencing RocksDB iterator wrapper (ouroboros): it yields the stored keys of the scan
/// window, one by one. ASSUMPTION (write paths above): every key stored in a key-of-set column family is a member_key image
/// `lp(kb) ++ eb` with kb shorter than 2^56 bytes.
#[verifier::external_body]
pub struct OwnedScannedMembersIterator { _p: u8 }
impl OwnedScannedMembersIterator {
    /// the stored key the iterator is positioned at (None: window exhausted)
    pub uninterp spec fn at(&self) -> Option<Seq<u8>>;
    #[verifier::external_body]
    pub fn next(&mut self) -> (r: Option<Result<(Box<[u8]>, Box<[u8]>), std::fmt::Error>>)
        ensures
            old(self).at() is None ==> r is None,
            old(self).at() matches Some(k) ==> (r matches Some(Ok(kv)) && kv.0@ == k
                && exists|kb: Seq<u8>, eb: Seq<u8>| #![trigger lp(kb) + eb] k == lp(kb) + eb && kb.len() < 0x100_0000_0000_0000 && 8 + kb.len() + eb.len() <= usize::MAX),
    { unimplemented!() }
}
//@ struct crates/storage/src/kv_database/rocksdb.rs :: ScanMembersIterator
//@ impl crates/storage/src/kv_database/rocksdb.rs :: impl<C: KeyOfSetColumn> Iterator for ScanMembersIterator<C>
//@ header-sub Iterator for ScanMembersIterator<C> => ScanMembersIterator<C>
//@ member next
//@ text-sub Option<Self::Item> => Option<C::Element>
//@ ret r
//@ sig
        ensures
            old(self).inner.at() is None ==> r is None,
            // the element is decoded from exactly the element part of the stored key lp(kb) ++ eb
            old(self).inner.at() matches Some(k) ==> (r matches Some(e)
                && forall|kb: Seq<u8>, e0: C::Element| #![trigger lp(kb) + e0.bytes()] k == lp(kb) + e0.bytes() && kb.len() < 0x100_0000_0000_0000 ==> e.bytes() == e0.bytes()),
//@ head
        proof {
            axiom_try_from_slice8();
            assert forall|kb: Seq<u8>, eb: Seq<u8>| #![trigger lp(kb) + eb] kb.len() < 0x100_0000_0000_0000 implies ({
                let s = lp(kb) + eb;
                s.subrange(0, 8) =~= le64(kb.len()) && le64_val(s.subrange(0, 8)) == kb.len() && s.subrange(8 + kb.len() as int, s.len() as int) =~= eb && s.len() == 8 + kb.len() + eb.len()
            }) by { lemma_le64_roundtrip(kb.len()); lemma_member_split(kb, eb); }
        }
//@ end

} // verus!
fn main() {}
