// C14 — identifier plumbing (crates/stable_type_id/src/lib.rs, crates/stable_hash/src/lib.rs Compact128):
// the id functions are total (no index out of bounds, no overflow, no shift >= 64) for EVERY name / operand, and the
// 128-bit conversions are lossless. Distinctness of ids is a collision property and is NOT decided here (DESIGN C14).
//@ rule R11
#![allow(unused_imports, unused_variables, dead_code, non_snake_case)]
use vstd::prelude::*;
use vstd::std_specs::convert::*;
use vstd::string::StringSliceAdditionalSpecFns;
verus! {

// target assumption: 64-bit usize
global size_of usize == 8;

// std facts (trusted): wrapping / rotating integer operations are total
pub assume_specification[ u64::rotate_left ](a: u64, n: u32) -> (r: u64);

//@ struct crates/stable_type_id/src/lib.rs :: StableTypeID
#[derive(Clone, Copy)]
//@ end

/// little-endian value of an 8-byte block (arithmetic definition, independent of the shift/or code)
pub open spec fn le_word(b: Seq<u8>) -> nat {
    (b[0] as nat) + (b[1] as nat) * 0x100 + (b[2] as nat) * 0x1_0000 + (b[3] as nat) * 0x100_0000 + (b[4] as nat) * 0x1_0000_0000
        + (b[5] as nat) * 0x100_0000_0000 + (b[6] as nat) * 0x1_0000_0000_0000 + (b[7] as nat) * 0x100_0000_0000_0000
}
pub proof fn lemma_le_word_bits(b0: u8, b1: u8, b2: u8, b3: u8, b4: u8, b5: u8, b6: u8, b7: u8)
    ensures
        ((b0 as u64) | ((b1 as u64) << 8) | ((b2 as u64) << 16) | ((b3 as u64) << 24) | ((b4 as u64) << 32) | ((b5 as u64) << 40)
            | ((b6 as u64) << 48) | ((b7 as u64) << 56)) as nat
        == (b0 as nat) + (b1 as nat) * 0x100 + (b2 as nat) * 0x1_0000 + (b3 as nat) * 0x100_0000 + (b4 as nat) * 0x1_0000_0000
            + (b5 as nat) * 0x100_0000_0000 + (b6 as nat) * 0x1_0000_0000_0000 + (b7 as nat) * 0x100_0000_0000_0000
{
    assert(((b0 as u64) | ((b1 as u64) << 8) | ((b2 as u64) << 16) | ((b3 as u64) << 24) | ((b4 as u64) << 32) | ((b5 as u64) << 40)
            | ((b6 as u64) << 48) | ((b7 as u64) << 56))
        == (b0 as u64) + (b1 as u64) * 0x100 + (b2 as u64) * 0x1_0000 + (b3 as u64) * 0x100_0000 + (b4 as u64) * 0x1_0000_0000
            + (b5 as u64) * 0x100_0000_0000 + (b6 as u64) * 0x1_0000_0000_0000 + (b7 as u64) * 0x100_0000_0000_0000) by (bit_vector);
}
/// distinct 8-byte blocks give distinct words
pub proof fn lemma_le_word_injective(a: Seq<u8>, b: Seq<u8>)
    requires a.len() == 8, b.len() == 8, le_word(a) == le_word(b)
    ensures a =~= b
{
    assert(a[0] == b[0] && a[1] == b[1] && a[2] == b[2] && a[3] == b[3] && a[4] == b[4] && a[5] == b[5] && a[6] == b[6] && a[7] == b[7]) by (nonlinear_arith)
        requires le_word(a) == le_word(b), a.len() == 8, b.len() == 8;
}

//@ impl crates/stable_type_id/src/lib.rs :: impl StableTypeID
//@ member from_raw_parts
//@ ret r
//@ sig
        ensures r.0 == high, r.1 == low
//@ member sipround
//@ member read_u64_le
//@ ret r
//@ sig
        requires start + 8 <= bytes@.len()
        // the word is the little-endian value of the 8 bytes: every byte of the block reaches its own 8 bits of the word
        // (so two blocks that differ in any byte give different words: lemma_le_word_injective)
        ensures r as nat == le_word(bytes@.subrange(start as int, start + 8))
//@ head
        proof {
            let b = bytes@.subrange(start as int, start + 8);
            assert(b[0] == bytes@[start as int] && b[1] == bytes@[start + 1] && b[2] == bytes@[start + 2] && b[3] == bytes@[start + 3]
                && b[4] == bytes@[start + 4] && b[5] == bytes@[start + 5] && b[6] == bytes@[start + 6] && b[7] == bytes@[start + 7]);
            lemma_le_word_bits(b[0], b[1], b[2], b[3], b[4], b[5], b[6], b[7]);
        }
//@ member from_unique_type_name
//@ sig
        // Rust invariant (trusted): no string is longer than isize::MAX bytes
        requires name.spec_bytes().len() <= 0x7FFF_FFFF_FFFF_FFFF
//@ loop 0 inv
            invariant i <= len, len == bytes@.len(), i % 8 == 0, len <= 0x7FFF_FFFF_FFFF_FFFF,
            decreases len - i,
//@ loop 1 inv
            invariant i <= len, len == bytes@.len(), shift == 8 * (i - (len - len % 8)), len - len % 8 <= i, shift <= 56,
            decreases len - i,
//@ loop 2 inv
            invariant round <= 4,
            decreases 4 - round,
//@ member combine
//@ member high
//@ ret r
//@ sig
        ensures r == self.0
//@ member low
//@ ret r
//@ sig
        ensures r == self.1
//@ member as_u128
//@ ret r
//@ sig
        ensures (r >> 64) as u64 == self.0, (r & 0xFFFF_FFFF_FFFF_FFFFu128) as u64 == self.1
//@ head
        proof {
            let (a, b) = (self.0, self.1);
            assert(((((a as u128) << 64) | (b as u128)) >> 64) as u64 == a) by (bit_vector);
            assert(((((a as u128) << 64) | (b as u128)) & 0xFFFF_FFFF_FFFF_FFFFu128) as u64 == b) by (bit_vector);
        }
//@ end

/// lossless: two ids are equal iff their u128 images are equal
pub proof fn lemma_as_u128_injective(a0: u64, a1: u64, b0: u64, b1: u64)
    requires (((a0 as u128) << 64) | (a1 as u128)) == (((b0 as u128) << 64) | (b1 as u128))
    ensures a0 == b0, a1 == b1
{
    assert((((a0 as u128) << 64) | (a1 as u128)) == (((b0 as u128) << 64) | (b1 as u128)) ==> a0 == b0 && a1 == b1) by (bit_vector);
}

//@ struct crates/stable_hash/src/lib.rs :: Compact128
#[derive(Clone, Copy)]
//@ end

/// the spec side of `impl From<u128> for Compact128`: low half / high half, nothing dropped
impl FromSpecImpl<u128> for Compact128 {
    open spec fn obeys_from_spec() -> bool { true }
    open spec fn from_spec(v: u128) -> Self { Compact128((v & 0xFFFF_FFFF_FFFF_FFFFu128) as u64, (v >> 64) as u64) }
}

//@ impl crates/stable_hash/src/lib.rs :: impl From<u128> for Compact128
//@ member from
//@ ret r
//@ sig
        ensures r.0 == (value & 0xFFFF_FFFF_FFFF_FFFFu128) as u64, r.1 == (value >> 64) as u64
//@ head
        proof { assert((value as u64) == (value & 0xFFFF_FFFF_FFFF_FFFFu128) as u64) by (bit_vector); }
//@ end

//@ impl crates/stable_hash/src/lib.rs :: impl Compact128
//@ member to_u128
//@ ret r
//@ sig
        ensures r == ((self.0 as u128) | ((self.1 as u128) << 64))
//@ member low
//@ ret r
//@ sig
        ensures r == self.0
//@ member high
//@ ret r
//@ sig
        ensures r == self.1
//@ end

/// round trip: Compact128::from(v).to_u128() == v for every v (consequence of the two contracts above)
pub proof fn lemma_compact128_roundtrip(v: u128)
    ensures ((((v & 0xFFFF_FFFF_FFFF_FFFFu128) as u64) as u128) | ((((v >> 64) as u64) as u128) << 64)) == v
{
    assert(((((v & 0xFFFF_FFFF_FFFF_FFFFu128) as u64) as u128) | ((((v >> 64) as u64) as u128) << 64)) == v) by (bit_vector);
}

// ---------------------------------------------------------------- QueryID (crates/qbice/src/query.rs)
/// interface stand-in for `Query` (only the associated constant the id uses)
pub trait Query {
    spec fn type_id_spec() -> StableTypeID;
    /// stands for `Q::STABLE_TYPE_ID` (an associated constant of `Identifiable`)
    fn stable_type_id_const() -> (r: StableTypeID) ensures r == Self::type_id_spec();
}

//@ struct crates/qbice/src/query.rs :: QueryID
#[derive(Clone, Copy)]
//@ end

//@ impl crates/qbice/src/query.rs :: impl QueryID
//@ member from_parts
//@ ret r
//@ sig
        ensures r.stable_type_id == stable_type_id, r.hash_128 == hash_128
//@ member stable_type_id
//@ ret r
//@ sig
        ensures r.0 == self.stable_type_id.1, r.1 == self.stable_type_id.0
//@ member hash_128
//@ ret r
//@ sig
        ensures r == ((self.hash_128.0 as u128) | ((self.hash_128.1 as u128) << 64))
//@ member compact_hash_128
//@ ret r
//@ sig
        ensures r == self.hash_128
//@ member compact_stable_type_id
//@ ret r
//@ sig
        ensures r == self.stable_type_id
//@ end

/// a QueryID built from a type id and a key hash gives both back unchanged: two queries share a slot only if BOTH
/// 128-bit components coincide
pub proof fn lemma_query_id_parts(t: StableTypeID, h: u128)
    ensures ({
        let v = ((t.0 as u128) << 64) | (t.1 as u128);                       // StableTypeID::as_u128
        let c = Compact128((v & 0xFFFF_FFFF_FFFF_FFFFu128) as u64, (v >> 64) as u64);   // Compact128::from
        c.1 == t.0 && c.0 == t.1                                             // QueryID::stable_type_id reads (high, low) = (c.1, c.0)
    })
{
    let (a, b) = (t.0, t.1);
    assert((((((a as u128) << 64) | (b as u128)) >> 64) as u64) == a) by (bit_vector);
    assert((((((a as u128) << 64) | (b as u128)) & 0xFFFF_FFFF_FFFF_FFFFu128) as u64) == b) by (bit_vector);
}

fn canary_read_u64_le(bytes: &[u8], start: usize)
    requires start + 8 <= bytes@.len()
{
    let r = StableTypeID::read_u64_le(bytes, start);
    assert(false);
}

} // verus!
fn main() {}
