// C12 — generic Encode / Decode impls against the trait contracts.
// Template: plain lines are hand-written specification (never code);
// `//@` directives pull the real source text from /repo on every run.
//@ rule R14
#![feature(allocator_api)]
#![allow(unused_imports, unused_variables, dead_code, non_snake_case)]
use vstd::prelude::*;
use vstd::string::StringSliceAdditionalSpecFns;
use vstd::std_specs::convert::*;
use std::io;
use std::borrow::Cow;
use std::collections::{BTreeMap, BTreeSet, HashMap, HashSet, LinkedList, VecDeque};
use std::rc::Rc;
use std::sync::Arc;
verus! {

//@ include inc/c12_core.rs

// ---------------------------------------------------------------- references and smart pointers (transparent)
impl<T: Wire + ?Sized> Wire for &T { open spec fn bytes(&self) -> Seq<u8> { (**self).bytes() } }
impl<T: Wire + ?Sized> Wire for &mut T { open spec fn bytes(&self) -> Seq<u8> { (**self).bytes() } }
impl<T: Wire + ?Sized> Wire for Box<T> { open spec fn bytes(&self) -> Seq<u8> { (**self).bytes() } }
impl<T: Wire + ?Sized> Wire for Rc<T> { open spec fn bytes(&self) -> Seq<u8> { (**self).bytes() } }
impl<T: Wire + ?Sized> Wire for Arc<T> { open spec fn bytes(&self) -> Seq<u8> { (**self).bytes() } }

//@ impl crates/serialize/src/encode.rs :: impl<T: Encode + ?Sized> Encode for &T
//@ member encode
//@ end
//@ impl crates/serialize/src/encode.rs :: impl<T: Encode + ?Sized> Encode for &mut T
//@ member encode
//@ end
//@ impl crates/serialize/src/encode.rs :: impl<T: Encode + ?Sized> Encode for Box<T>
//@ member encode
//@ end
//@ impl crates/serialize/src/encode.rs :: impl<T: Encode + ?Sized> Encode for Rc<T>
//@ member encode
//@ end
//@ impl crates/serialize/src/encode.rs :: impl<T: Encode + ?Sized> Encode for Arc<T>
//@ member encode
//@ end
//@ impl crates/serialize/src/decode.rs :: impl<T: Decode> Decode for Box<T>
//@ extra
    proof fn prefix_free(a: &Self, b: &Self, ta: Seq<u8>, tb: Seq<u8>) {
        T::prefix_free(&**a, &**b, ta, tb);
    }
//@ member decode
//@ end
//@ impl crates/serialize/src/decode.rs :: impl<T: Decode> Decode for Rc<T>
//@ extra
    proof fn prefix_free(a: &Self, b: &Self, ta: Seq<u8>, tb: Seq<u8>) {
        T::prefix_free(&**a, &**b, ta, tb);
    }
//@ member decode
//@ end
//@ impl crates/serialize/src/decode.rs :: impl<T: Decode> Decode for Arc<T>
//@ extra
    proof fn prefix_free(a: &Self, b: &Self, ta: Seq<u8>, tb: Seq<u8>) {
        T::prefix_free(&**a, &**b, ta, tb);
    }
//@ member decode
//@ end


// ---------------------------------------------------------------- Option / Result
impl<T: Wire> Wire for Option<T> {
    open spec fn bytes(&self) -> Seq<u8> {
        match self { Some(v) => seq![1u8] + v.bytes(), None => seq![0u8] }
    }
}
impl<T: Wire, U: Wire> Wire for Result<T, U> {
    open spec fn bytes(&self) -> Seq<u8> {
        match self { Ok(v) => seq![1u8] + v.bytes(), Err(e) => seq![0u8] + e.bytes() }
    }
}

/// a one-byte tag followed by a payload: first byte / remainder of `tag + payload + tail`
pub broadcast proof fn lemma_tag_split(tag: u8, payload: Seq<u8>, tail: Seq<u8>)
    ensures
        #[trigger] ((seq![tag] + payload) + tail) == true.bytes() + (payload + tail) <==> tag == 1u8,
        ((seq![tag] + payload) + tail) == false.bytes() + (payload + tail) <==> tag == 0u8,
        ((seq![tag] + payload) + tail) == tag.bytes() + (payload + tail),
{
    let s = (seq![tag] + payload) + tail;
    assert(s =~= seq![tag] + (payload + tail));
    assert(s[0] == tag);
    assert((true.bytes() + (payload + tail))[0] == 1u8);
    assert((false.bytes() + (payload + tail))[0] == 0u8);
}

pub broadcast proof fn lemma_tag_only(tag: u8, tail: Seq<u8>)
    ensures
        #[trigger] (seq![tag] + tail) == true.bytes() + tail <==> tag == 1u8,
        (seq![tag] + tail) == false.bytes() + tail <==> tag == 0u8,
        (seq![tag] + tail) == tag.bytes() + tail,
{
    let s = seq![tag] + tail;
    assert(s[0] == tag);
    assert((true.bytes() + tail)[0] == 1u8);
    assert((false.bytes() + tail)[0] == 0u8);
}

//@ impl crates/serialize/src/encode.rs :: impl<T: Encode> Encode for Option<T>
//@ member encode
//@ end
//@ impl crates/serialize/src/decode.rs :: impl<T: Decode> Decode for Option<T>
//@ extra
    proof fn prefix_free(a: &Self, b: &Self, ta: Seq<u8>, tb: Seq<u8>) {
        broadcast use lemma_cat_assoc;
        match (a, b) {
            (Some(x), Some(y)) => {
                lemma_one_byte_split(1u8, 1u8, x.bytes() + ta, y.bytes() + tb);
                T::prefix_free(x, y, ta, tb);
            }
            (None, None) => { lemma_one_byte_split(0u8, 0u8, ta, tb); }
            (Some(x), None) => { lemma_one_byte_split(1u8, 0u8, x.bytes() + ta, tb); }
            (None, Some(y)) => { lemma_one_byte_split(0u8, 1u8, ta, y.bytes() + tb); }
        }
    }
//@ member decode
//@ head
        broadcast use lemma_tag_split, lemma_tag_only;
//@ end

//@ impl crates/serialize/src/encode.rs :: impl<T: Encode, U: Encode> Encode for Result<T, U>
//@ member encode
//@ end
//@ impl crates/serialize/src/decode.rs :: impl<T: Decode, E: Decode> Decode for Result<T, E>
//@ extra
    proof fn prefix_free(a: &Self, b: &Self, ta: Seq<u8>, tb: Seq<u8>) {
        broadcast use lemma_cat_assoc;
        match (a, b) {
            (Ok(x), Ok(y)) => {
                lemma_one_byte_split(1u8, 1u8, x.bytes() + ta, y.bytes() + tb);
                T::prefix_free(x, y, ta, tb);
            }
            (Err(x), Err(y)) => {
                lemma_one_byte_split(0u8, 0u8, x.bytes() + ta, y.bytes() + tb);
                E::prefix_free(x, y, ta, tb);
            }
            (Ok(x), Err(y)) => { lemma_one_byte_split(1u8, 0u8, x.bytes() + ta, y.bytes() + tb); }
            (Err(x), Ok(y)) => { lemma_one_byte_split(0u8, 1u8, x.bytes() + ta, y.bytes() + tb); }
        }
    }
//@ member decode
//@ head
        broadcast use lemma_tag_split, lemma_tag_only;
//@ end


// ---------------------------------------------------------------- unit and tuples (fields in declaration order, no framing)
impl Wire for () { open spec fn bytes(&self) -> Seq<u8> { Seq::<u8>::empty() } }
//@ impl crates/serialize/src/encode.rs :: impl Encode for ()
//@ member encode
//@ end
//@ impl crates/serialize/src/decode.rs :: impl Decode for ()
//@ extra
    proof fn prefix_free(a: &Self, b: &Self, ta: Seq<u8>, tb: Seq<u8>) {
        broadcast use lemma_cat_empty;
    }
//@ member decode
//@ head
        broadcast use lemma_cat_empty;
//@ end

impl<T0: Wire> Wire for (T0, ) { open spec fn bytes(&self) -> Seq<u8> { self.0.bytes() } }
//@ macro crates/serialize/src/encode.rs :: impl_encode_tuple!(A)
//@ member encode
//@ head
        broadcast use lemma_cat_assoc;
//@ end
//@ macro crates/serialize/src/decode.rs :: impl_decode_tuple!(A)
//@ extra
    proof fn prefix_free(a: &Self, b: &Self, ta: Seq<u8>, tb: Seq<u8>) {
        broadcast use lemma_cat_assoc;
        assert(a.bytes() + ta =~= a.0.bytes() + (ta));
        assert(b.bytes() + tb =~= b.0.bytes() + (tb));
        A::prefix_free(&a.0, &b.0, ta, tb);
    }
//@ member decode
//@ head
        broadcast use lemma_cat_assoc;
//@ end
impl<T0: Wire, T1: Wire> Wire for (T0, T1, ) { open spec fn bytes(&self) -> Seq<u8> { self.0.bytes() + self.1.bytes() } }
//@ macro crates/serialize/src/encode.rs :: impl_encode_tuple!(A, B)
//@ member encode
//@ head
        broadcast use lemma_cat_assoc;
//@ end
//@ macro crates/serialize/src/decode.rs :: impl_decode_tuple!(A, B)
//@ extra
    proof fn prefix_free(a: &Self, b: &Self, ta: Seq<u8>, tb: Seq<u8>) {
        broadcast use lemma_cat_assoc;
        assert(a.bytes() + ta =~= a.0.bytes() + (a.1.bytes() + (ta)));
        assert(b.bytes() + tb =~= b.0.bytes() + (b.1.bytes() + (tb)));
        A::prefix_free(&a.0, &b.0, a.1.bytes() + (ta), b.1.bytes() + (tb));
        B::prefix_free(&a.1, &b.1, ta, tb);
    }
//@ member decode
//@ head
        broadcast use lemma_cat_assoc;
//@ end
impl<T0: Wire, T1: Wire, T2: Wire> Wire for (T0, T1, T2, ) { open spec fn bytes(&self) -> Seq<u8> { self.0.bytes() + self.1.bytes() + self.2.bytes() } }
//@ macro crates/serialize/src/encode.rs :: impl_encode_tuple!(A, B, C)
//@ member encode
//@ head
        broadcast use lemma_cat_assoc;
//@ end
//@ macro crates/serialize/src/decode.rs :: impl_decode_tuple!(A, B, C)
//@ extra
    proof fn prefix_free(a: &Self, b: &Self, ta: Seq<u8>, tb: Seq<u8>) {
        broadcast use lemma_cat_assoc;
        assert(a.bytes() + ta =~= a.0.bytes() + (a.1.bytes() + (a.2.bytes() + (ta))));
        assert(b.bytes() + tb =~= b.0.bytes() + (b.1.bytes() + (b.2.bytes() + (tb))));
        A::prefix_free(&a.0, &b.0, a.1.bytes() + (a.2.bytes() + (ta)), b.1.bytes() + (b.2.bytes() + (tb)));
        B::prefix_free(&a.1, &b.1, a.2.bytes() + (ta), b.2.bytes() + (tb));
        C::prefix_free(&a.2, &b.2, ta, tb);
    }
//@ member decode
//@ head
        broadcast use lemma_cat_assoc;
//@ end
impl<T0: Wire, T1: Wire, T2: Wire, T3: Wire> Wire for (T0, T1, T2, T3, ) { open spec fn bytes(&self) -> Seq<u8> { self.0.bytes() + self.1.bytes() + self.2.bytes() + self.3.bytes() } }
//@ macro crates/serialize/src/encode.rs :: impl_encode_tuple!(A, B, C, D)
//@ member encode
//@ head
        broadcast use lemma_cat_assoc;
//@ end
//@ macro crates/serialize/src/decode.rs :: impl_decode_tuple!(A, B, C, D_)
//@ extra
    proof fn prefix_free(a: &Self, b: &Self, ta: Seq<u8>, tb: Seq<u8>) {
        broadcast use lemma_cat_assoc;
        assert(a.bytes() + ta =~= a.0.bytes() + (a.1.bytes() + (a.2.bytes() + (a.3.bytes() + (ta)))));
        assert(b.bytes() + tb =~= b.0.bytes() + (b.1.bytes() + (b.2.bytes() + (b.3.bytes() + (tb)))));
        A::prefix_free(&a.0, &b.0, a.1.bytes() + (a.2.bytes() + (a.3.bytes() + (ta))), b.1.bytes() + (b.2.bytes() + (b.3.bytes() + (tb))));
        B::prefix_free(&a.1, &b.1, a.2.bytes() + (a.3.bytes() + (ta)), b.2.bytes() + (b.3.bytes() + (tb)));
        C::prefix_free(&a.2, &b.2, a.3.bytes() + (ta), b.3.bytes() + (tb));
        D_::prefix_free(&a.3, &b.3, ta, tb);
    }
//@ member decode
//@ head
        broadcast use lemma_cat_assoc;
//@ end
impl<T0: Wire, T1: Wire, T2: Wire, T3: Wire, T4: Wire> Wire for (T0, T1, T2, T3, T4, ) { open spec fn bytes(&self) -> Seq<u8> { self.0.bytes() + self.1.bytes() + self.2.bytes() + self.3.bytes() + self.4.bytes() } }
//@ macro crates/serialize/src/encode.rs :: impl_encode_tuple!(A, B, C, D, E_)
//@ member encode
//@ head
        broadcast use lemma_cat_assoc;
//@ end
//@ macro crates/serialize/src/decode.rs :: impl_decode_tuple!(A, B, C, D_, E)
//@ extra
    proof fn prefix_free(a: &Self, b: &Self, ta: Seq<u8>, tb: Seq<u8>) {
        broadcast use lemma_cat_assoc;
        assert(a.bytes() + ta =~= a.0.bytes() + (a.1.bytes() + (a.2.bytes() + (a.3.bytes() + (a.4.bytes() + (ta))))));
        assert(b.bytes() + tb =~= b.0.bytes() + (b.1.bytes() + (b.2.bytes() + (b.3.bytes() + (b.4.bytes() + (tb))))));
        A::prefix_free(&a.0, &b.0, a.1.bytes() + (a.2.bytes() + (a.3.bytes() + (a.4.bytes() + (ta)))), b.1.bytes() + (b.2.bytes() + (b.3.bytes() + (b.4.bytes() + (tb)))));
        B::prefix_free(&a.1, &b.1, a.2.bytes() + (a.3.bytes() + (a.4.bytes() + (ta))), b.2.bytes() + (b.3.bytes() + (b.4.bytes() + (tb))));
        C::prefix_free(&a.2, &b.2, a.3.bytes() + (a.4.bytes() + (ta)), b.3.bytes() + (b.4.bytes() + (tb)));
        D_::prefix_free(&a.3, &b.3, a.4.bytes() + (ta), b.4.bytes() + (tb));
        E::prefix_free(&a.4, &b.4, ta, tb);
    }
//@ member decode
//@ head
        broadcast use lemma_cat_assoc;
//@ end
impl<T0: Wire, T1: Wire, T2: Wire, T3: Wire, T4: Wire, T5: Wire> Wire for (T0, T1, T2, T3, T4, T5, ) { open spec fn bytes(&self) -> Seq<u8> { self.0.bytes() + self.1.bytes() + self.2.bytes() + self.3.bytes() + self.4.bytes() + self.5.bytes() } }
//@ macro crates/serialize/src/encode.rs :: impl_encode_tuple!(A, B, C, D, E_, F)
//@ member encode
//@ head
        broadcast use lemma_cat_assoc;
//@ end
//@ macro crates/serialize/src/decode.rs :: impl_decode_tuple!(A, B, C, D_, E, F)
//@ extra
    proof fn prefix_free(a: &Self, b: &Self, ta: Seq<u8>, tb: Seq<u8>) {
        broadcast use lemma_cat_assoc;
        assert(a.bytes() + ta =~= a.0.bytes() + (a.1.bytes() + (a.2.bytes() + (a.3.bytes() + (a.4.bytes() + (a.5.bytes() + (ta)))))));
        assert(b.bytes() + tb =~= b.0.bytes() + (b.1.bytes() + (b.2.bytes() + (b.3.bytes() + (b.4.bytes() + (b.5.bytes() + (tb)))))));
        A::prefix_free(&a.0, &b.0, a.1.bytes() + (a.2.bytes() + (a.3.bytes() + (a.4.bytes() + (a.5.bytes() + (ta))))), b.1.bytes() + (b.2.bytes() + (b.3.bytes() + (b.4.bytes() + (b.5.bytes() + (tb))))));
        B::prefix_free(&a.1, &b.1, a.2.bytes() + (a.3.bytes() + (a.4.bytes() + (a.5.bytes() + (ta)))), b.2.bytes() + (b.3.bytes() + (b.4.bytes() + (b.5.bytes() + (tb)))));
        C::prefix_free(&a.2, &b.2, a.3.bytes() + (a.4.bytes() + (a.5.bytes() + (ta))), b.3.bytes() + (b.4.bytes() + (b.5.bytes() + (tb))));
        D_::prefix_free(&a.3, &b.3, a.4.bytes() + (a.5.bytes() + (ta)), b.4.bytes() + (b.5.bytes() + (tb)));
        E::prefix_free(&a.4, &b.4, a.5.bytes() + (ta), b.5.bytes() + (tb));
        F::prefix_free(&a.5, &b.5, ta, tb);
    }
//@ member decode
//@ head
        broadcast use lemma_cat_assoc;
//@ end
impl<T0: Wire, T1: Wire, T2: Wire, T3: Wire, T4: Wire, T5: Wire, T6: Wire> Wire for (T0, T1, T2, T3, T4, T5, T6, ) { open spec fn bytes(&self) -> Seq<u8> { self.0.bytes() + self.1.bytes() + self.2.bytes() + self.3.bytes() + self.4.bytes() + self.5.bytes() + self.6.bytes() } }
//@ macro crates/serialize/src/encode.rs :: impl_encode_tuple!(A, B, C, D, E_, F, G)
//@ member encode
//@ head
        broadcast use lemma_cat_assoc;
//@ end
//@ macro crates/serialize/src/decode.rs :: impl_decode_tuple!(A, B, C, D_, E, F, G)
//@ extra
    proof fn prefix_free(a: &Self, b: &Self, ta: Seq<u8>, tb: Seq<u8>) {
        broadcast use lemma_cat_assoc;
        assert(a.bytes() + ta =~= a.0.bytes() + (a.1.bytes() + (a.2.bytes() + (a.3.bytes() + (a.4.bytes() + (a.5.bytes() + (a.6.bytes() + (ta))))))));
        assert(b.bytes() + tb =~= b.0.bytes() + (b.1.bytes() + (b.2.bytes() + (b.3.bytes() + (b.4.bytes() + (b.5.bytes() + (b.6.bytes() + (tb))))))));
        A::prefix_free(&a.0, &b.0, a.1.bytes() + (a.2.bytes() + (a.3.bytes() + (a.4.bytes() + (a.5.bytes() + (a.6.bytes() + (ta)))))), b.1.bytes() + (b.2.bytes() + (b.3.bytes() + (b.4.bytes() + (b.5.bytes() + (b.6.bytes() + (tb)))))));
        B::prefix_free(&a.1, &b.1, a.2.bytes() + (a.3.bytes() + (a.4.bytes() + (a.5.bytes() + (a.6.bytes() + (ta))))), b.2.bytes() + (b.3.bytes() + (b.4.bytes() + (b.5.bytes() + (b.6.bytes() + (tb))))));
        C::prefix_free(&a.2, &b.2, a.3.bytes() + (a.4.bytes() + (a.5.bytes() + (a.6.bytes() + (ta)))), b.3.bytes() + (b.4.bytes() + (b.5.bytes() + (b.6.bytes() + (tb)))));
        D_::prefix_free(&a.3, &b.3, a.4.bytes() + (a.5.bytes() + (a.6.bytes() + (ta))), b.4.bytes() + (b.5.bytes() + (b.6.bytes() + (tb))));
        E::prefix_free(&a.4, &b.4, a.5.bytes() + (a.6.bytes() + (ta)), b.5.bytes() + (b.6.bytes() + (tb)));
        F::prefix_free(&a.5, &b.5, a.6.bytes() + (ta), b.6.bytes() + (tb));
        G::prefix_free(&a.6, &b.6, ta, tb);
    }
//@ member decode
//@ head
        broadcast use lemma_cat_assoc;
//@ end
impl<T0: Wire, T1: Wire, T2: Wire, T3: Wire, T4: Wire, T5: Wire, T6: Wire, T7: Wire> Wire for (T0, T1, T2, T3, T4, T5, T6, T7, ) { open spec fn bytes(&self) -> Seq<u8> { self.0.bytes() + self.1.bytes() + self.2.bytes() + self.3.bytes() + self.4.bytes() + self.5.bytes() + self.6.bytes() + self.7.bytes() } }
//@ macro crates/serialize/src/encode.rs :: impl_encode_tuple!(A, B, C, D, E_, F, G, H)
//@ member encode
//@ head
        broadcast use lemma_cat_assoc;
//@ end
//@ macro crates/serialize/src/decode.rs :: impl_decode_tuple!(A, B, C, D_, E, F, G, H)
//@ extra
    proof fn prefix_free(a: &Self, b: &Self, ta: Seq<u8>, tb: Seq<u8>) {
        broadcast use lemma_cat_assoc;
        assert(a.bytes() + ta =~= a.0.bytes() + (a.1.bytes() + (a.2.bytes() + (a.3.bytes() + (a.4.bytes() + (a.5.bytes() + (a.6.bytes() + (a.7.bytes() + (ta)))))))));
        assert(b.bytes() + tb =~= b.0.bytes() + (b.1.bytes() + (b.2.bytes() + (b.3.bytes() + (b.4.bytes() + (b.5.bytes() + (b.6.bytes() + (b.7.bytes() + (tb)))))))));
        A::prefix_free(&a.0, &b.0, a.1.bytes() + (a.2.bytes() + (a.3.bytes() + (a.4.bytes() + (a.5.bytes() + (a.6.bytes() + (a.7.bytes() + (ta))))))), b.1.bytes() + (b.2.bytes() + (b.3.bytes() + (b.4.bytes() + (b.5.bytes() + (b.6.bytes() + (b.7.bytes() + (tb))))))));
        B::prefix_free(&a.1, &b.1, a.2.bytes() + (a.3.bytes() + (a.4.bytes() + (a.5.bytes() + (a.6.bytes() + (a.7.bytes() + (ta)))))), b.2.bytes() + (b.3.bytes() + (b.4.bytes() + (b.5.bytes() + (b.6.bytes() + (b.7.bytes() + (tb)))))));
        C::prefix_free(&a.2, &b.2, a.3.bytes() + (a.4.bytes() + (a.5.bytes() + (a.6.bytes() + (a.7.bytes() + (ta))))), b.3.bytes() + (b.4.bytes() + (b.5.bytes() + (b.6.bytes() + (b.7.bytes() + (tb))))));
        D_::prefix_free(&a.3, &b.3, a.4.bytes() + (a.5.bytes() + (a.6.bytes() + (a.7.bytes() + (ta)))), b.4.bytes() + (b.5.bytes() + (b.6.bytes() + (b.7.bytes() + (tb)))));
        E::prefix_free(&a.4, &b.4, a.5.bytes() + (a.6.bytes() + (a.7.bytes() + (ta))), b.5.bytes() + (b.6.bytes() + (b.7.bytes() + (tb))));
        F::prefix_free(&a.5, &b.5, a.6.bytes() + (a.7.bytes() + (ta)), b.6.bytes() + (b.7.bytes() + (tb)));
        G::prefix_free(&a.6, &b.6, a.7.bytes() + (ta), b.7.bytes() + (tb));
        H::prefix_free(&a.7, &b.7, ta, tb);
    }
//@ member decode
//@ head
        broadcast use lemma_cat_assoc;
//@ end
impl<T0: Wire, T1: Wire, T2: Wire, T3: Wire, T4: Wire, T5: Wire, T6: Wire, T7: Wire, T8: Wire> Wire for (T0, T1, T2, T3, T4, T5, T6, T7, T8, ) { open spec fn bytes(&self) -> Seq<u8> { self.0.bytes() + self.1.bytes() + self.2.bytes() + self.3.bytes() + self.4.bytes() + self.5.bytes() + self.6.bytes() + self.7.bytes() + self.8.bytes() } }
//@ macro crates/serialize/src/encode.rs :: impl_encode_tuple!(A, B, C, D, E_, F, G, H, I)
//@ member encode
//@ head
        broadcast use lemma_cat_assoc;
//@ end
//@ macro crates/serialize/src/decode.rs :: impl_decode_tuple!(A, B, C, D_, E, F, G, H, I)
//@ extra
    proof fn prefix_free(a: &Self, b: &Self, ta: Seq<u8>, tb: Seq<u8>) {
        broadcast use lemma_cat_assoc;
        assert(a.bytes() + ta =~= a.0.bytes() + (a.1.bytes() + (a.2.bytes() + (a.3.bytes() + (a.4.bytes() + (a.5.bytes() + (a.6.bytes() + (a.7.bytes() + (a.8.bytes() + (ta))))))))));
        assert(b.bytes() + tb =~= b.0.bytes() + (b.1.bytes() + (b.2.bytes() + (b.3.bytes() + (b.4.bytes() + (b.5.bytes() + (b.6.bytes() + (b.7.bytes() + (b.8.bytes() + (tb))))))))));
        A::prefix_free(&a.0, &b.0, a.1.bytes() + (a.2.bytes() + (a.3.bytes() + (a.4.bytes() + (a.5.bytes() + (a.6.bytes() + (a.7.bytes() + (a.8.bytes() + (ta)))))))), b.1.bytes() + (b.2.bytes() + (b.3.bytes() + (b.4.bytes() + (b.5.bytes() + (b.6.bytes() + (b.7.bytes() + (b.8.bytes() + (tb)))))))));
        B::prefix_free(&a.1, &b.1, a.2.bytes() + (a.3.bytes() + (a.4.bytes() + (a.5.bytes() + (a.6.bytes() + (a.7.bytes() + (a.8.bytes() + (ta))))))), b.2.bytes() + (b.3.bytes() + (b.4.bytes() + (b.5.bytes() + (b.6.bytes() + (b.7.bytes() + (b.8.bytes() + (tb))))))));
        C::prefix_free(&a.2, &b.2, a.3.bytes() + (a.4.bytes() + (a.5.bytes() + (a.6.bytes() + (a.7.bytes() + (a.8.bytes() + (ta)))))), b.3.bytes() + (b.4.bytes() + (b.5.bytes() + (b.6.bytes() + (b.7.bytes() + (b.8.bytes() + (tb)))))));
        D_::prefix_free(&a.3, &b.3, a.4.bytes() + (a.5.bytes() + (a.6.bytes() + (a.7.bytes() + (a.8.bytes() + (ta))))), b.4.bytes() + (b.5.bytes() + (b.6.bytes() + (b.7.bytes() + (b.8.bytes() + (tb))))));
        E::prefix_free(&a.4, &b.4, a.5.bytes() + (a.6.bytes() + (a.7.bytes() + (a.8.bytes() + (ta)))), b.5.bytes() + (b.6.bytes() + (b.7.bytes() + (b.8.bytes() + (tb)))));
        F::prefix_free(&a.5, &b.5, a.6.bytes() + (a.7.bytes() + (a.8.bytes() + (ta))), b.6.bytes() + (b.7.bytes() + (b.8.bytes() + (tb))));
        G::prefix_free(&a.6, &b.6, a.7.bytes() + (a.8.bytes() + (ta)), b.7.bytes() + (b.8.bytes() + (tb)));
        H::prefix_free(&a.7, &b.7, a.8.bytes() + (ta), b.8.bytes() + (tb));
        I::prefix_free(&a.8, &b.8, ta, tb);
    }
//@ member decode
//@ head
        broadcast use lemma_cat_assoc;
//@ end
impl<T0: Wire, T1: Wire, T2: Wire, T3: Wire, T4: Wire, T5: Wire, T6: Wire, T7: Wire, T8: Wire, T9: Wire> Wire for (T0, T1, T2, T3, T4, T5, T6, T7, T8, T9, ) { open spec fn bytes(&self) -> Seq<u8> { self.0.bytes() + self.1.bytes() + self.2.bytes() + self.3.bytes() + self.4.bytes() + self.5.bytes() + self.6.bytes() + self.7.bytes() + self.8.bytes() + self.9.bytes() } }
//@ macro crates/serialize/src/encode.rs :: impl_encode_tuple!(A, B, C, D, E_, F, G, H, I, J)
//@ member encode
//@ head
        broadcast use lemma_cat_assoc;
//@ end
//@ macro crates/serialize/src/decode.rs :: impl_decode_tuple!(A, B, C, D_, E, F, G, H, I, J)
//@ extra
    proof fn prefix_free(a: &Self, b: &Self, ta: Seq<u8>, tb: Seq<u8>) {
        broadcast use lemma_cat_assoc;
        assert(a.bytes() + ta =~= a.0.bytes() + (a.1.bytes() + (a.2.bytes() + (a.3.bytes() + (a.4.bytes() + (a.5.bytes() + (a.6.bytes() + (a.7.bytes() + (a.8.bytes() + (a.9.bytes() + (ta)))))))))));
        assert(b.bytes() + tb =~= b.0.bytes() + (b.1.bytes() + (b.2.bytes() + (b.3.bytes() + (b.4.bytes() + (b.5.bytes() + (b.6.bytes() + (b.7.bytes() + (b.8.bytes() + (b.9.bytes() + (tb)))))))))));
        A::prefix_free(&a.0, &b.0, a.1.bytes() + (a.2.bytes() + (a.3.bytes() + (a.4.bytes() + (a.5.bytes() + (a.6.bytes() + (a.7.bytes() + (a.8.bytes() + (a.9.bytes() + (ta))))))))), b.1.bytes() + (b.2.bytes() + (b.3.bytes() + (b.4.bytes() + (b.5.bytes() + (b.6.bytes() + (b.7.bytes() + (b.8.bytes() + (b.9.bytes() + (tb))))))))));
        B::prefix_free(&a.1, &b.1, a.2.bytes() + (a.3.bytes() + (a.4.bytes() + (a.5.bytes() + (a.6.bytes() + (a.7.bytes() + (a.8.bytes() + (a.9.bytes() + (ta)))))))), b.2.bytes() + (b.3.bytes() + (b.4.bytes() + (b.5.bytes() + (b.6.bytes() + (b.7.bytes() + (b.8.bytes() + (b.9.bytes() + (tb)))))))));
        C::prefix_free(&a.2, &b.2, a.3.bytes() + (a.4.bytes() + (a.5.bytes() + (a.6.bytes() + (a.7.bytes() + (a.8.bytes() + (a.9.bytes() + (ta))))))), b.3.bytes() + (b.4.bytes() + (b.5.bytes() + (b.6.bytes() + (b.7.bytes() + (b.8.bytes() + (b.9.bytes() + (tb))))))));
        D_::prefix_free(&a.3, &b.3, a.4.bytes() + (a.5.bytes() + (a.6.bytes() + (a.7.bytes() + (a.8.bytes() + (a.9.bytes() + (ta)))))), b.4.bytes() + (b.5.bytes() + (b.6.bytes() + (b.7.bytes() + (b.8.bytes() + (b.9.bytes() + (tb)))))));
        E::prefix_free(&a.4, &b.4, a.5.bytes() + (a.6.bytes() + (a.7.bytes() + (a.8.bytes() + (a.9.bytes() + (ta))))), b.5.bytes() + (b.6.bytes() + (b.7.bytes() + (b.8.bytes() + (b.9.bytes() + (tb))))));
        F::prefix_free(&a.5, &b.5, a.6.bytes() + (a.7.bytes() + (a.8.bytes() + (a.9.bytes() + (ta)))), b.6.bytes() + (b.7.bytes() + (b.8.bytes() + (b.9.bytes() + (tb)))));
        G::prefix_free(&a.6, &b.6, a.7.bytes() + (a.8.bytes() + (a.9.bytes() + (ta))), b.7.bytes() + (b.8.bytes() + (b.9.bytes() + (tb))));
        H::prefix_free(&a.7, &b.7, a.8.bytes() + (a.9.bytes() + (ta)), b.8.bytes() + (b.9.bytes() + (tb)));
        I::prefix_free(&a.8, &b.8, a.9.bytes() + (ta), b.9.bytes() + (tb));
        J::prefix_free(&a.9, &b.9, ta, tb);
    }
//@ member decode
//@ head
        broadcast use lemma_cat_assoc;
//@ end
impl<T0: Wire, T1: Wire, T2: Wire, T3: Wire, T4: Wire, T5: Wire, T6: Wire, T7: Wire, T8: Wire, T9: Wire, T10: Wire> Wire for (T0, T1, T2, T3, T4, T5, T6, T7, T8, T9, T10, ) { open spec fn bytes(&self) -> Seq<u8> { self.0.bytes() + self.1.bytes() + self.2.bytes() + self.3.bytes() + self.4.bytes() + self.5.bytes() + self.6.bytes() + self.7.bytes() + self.8.bytes() + self.9.bytes() + self.10.bytes() } }
//@ macro crates/serialize/src/encode.rs :: impl_encode_tuple!(A, B, C, D, E_, F, G, H, I, J, K)
//@ member encode
//@ head
        broadcast use lemma_cat_assoc;
//@ end
//@ macro crates/serialize/src/decode.rs :: impl_decode_tuple!(A, B, C, D_, E, F, G, H, I, J, K)
//@ extra
    proof fn prefix_free(a: &Self, b: &Self, ta: Seq<u8>, tb: Seq<u8>) {
        broadcast use lemma_cat_assoc;
        assert(a.bytes() + ta =~= a.0.bytes() + (a.1.bytes() + (a.2.bytes() + (a.3.bytes() + (a.4.bytes() + (a.5.bytes() + (a.6.bytes() + (a.7.bytes() + (a.8.bytes() + (a.9.bytes() + (a.10.bytes() + (ta))))))))))));
        assert(b.bytes() + tb =~= b.0.bytes() + (b.1.bytes() + (b.2.bytes() + (b.3.bytes() + (b.4.bytes() + (b.5.bytes() + (b.6.bytes() + (b.7.bytes() + (b.8.bytes() + (b.9.bytes() + (b.10.bytes() + (tb))))))))))));
        A::prefix_free(&a.0, &b.0, a.1.bytes() + (a.2.bytes() + (a.3.bytes() + (a.4.bytes() + (a.5.bytes() + (a.6.bytes() + (a.7.bytes() + (a.8.bytes() + (a.9.bytes() + (a.10.bytes() + (ta)))))))))), b.1.bytes() + (b.2.bytes() + (b.3.bytes() + (b.4.bytes() + (b.5.bytes() + (b.6.bytes() + (b.7.bytes() + (b.8.bytes() + (b.9.bytes() + (b.10.bytes() + (tb)))))))))));
        B::prefix_free(&a.1, &b.1, a.2.bytes() + (a.3.bytes() + (a.4.bytes() + (a.5.bytes() + (a.6.bytes() + (a.7.bytes() + (a.8.bytes() + (a.9.bytes() + (a.10.bytes() + (ta))))))))), b.2.bytes() + (b.3.bytes() + (b.4.bytes() + (b.5.bytes() + (b.6.bytes() + (b.7.bytes() + (b.8.bytes() + (b.9.bytes() + (b.10.bytes() + (tb))))))))));
        C::prefix_free(&a.2, &b.2, a.3.bytes() + (a.4.bytes() + (a.5.bytes() + (a.6.bytes() + (a.7.bytes() + (a.8.bytes() + (a.9.bytes() + (a.10.bytes() + (ta)))))))), b.3.bytes() + (b.4.bytes() + (b.5.bytes() + (b.6.bytes() + (b.7.bytes() + (b.8.bytes() + (b.9.bytes() + (b.10.bytes() + (tb)))))))));
        D_::prefix_free(&a.3, &b.3, a.4.bytes() + (a.5.bytes() + (a.6.bytes() + (a.7.bytes() + (a.8.bytes() + (a.9.bytes() + (a.10.bytes() + (ta))))))), b.4.bytes() + (b.5.bytes() + (b.6.bytes() + (b.7.bytes() + (b.8.bytes() + (b.9.bytes() + (b.10.bytes() + (tb))))))));
        E::prefix_free(&a.4, &b.4, a.5.bytes() + (a.6.bytes() + (a.7.bytes() + (a.8.bytes() + (a.9.bytes() + (a.10.bytes() + (ta)))))), b.5.bytes() + (b.6.bytes() + (b.7.bytes() + (b.8.bytes() + (b.9.bytes() + (b.10.bytes() + (tb)))))));
        F::prefix_free(&a.5, &b.5, a.6.bytes() + (a.7.bytes() + (a.8.bytes() + (a.9.bytes() + (a.10.bytes() + (ta))))), b.6.bytes() + (b.7.bytes() + (b.8.bytes() + (b.9.bytes() + (b.10.bytes() + (tb))))));
        G::prefix_free(&a.6, &b.6, a.7.bytes() + (a.8.bytes() + (a.9.bytes() + (a.10.bytes() + (ta)))), b.7.bytes() + (b.8.bytes() + (b.9.bytes() + (b.10.bytes() + (tb)))));
        H::prefix_free(&a.7, &b.7, a.8.bytes() + (a.9.bytes() + (a.10.bytes() + (ta))), b.8.bytes() + (b.9.bytes() + (b.10.bytes() + (tb))));
        I::prefix_free(&a.8, &b.8, a.9.bytes() + (a.10.bytes() + (ta)), b.9.bytes() + (b.10.bytes() + (tb)));
        J::prefix_free(&a.9, &b.9, a.10.bytes() + (ta), b.10.bytes() + (tb));
        K::prefix_free(&a.10, &b.10, ta, tb);
    }
//@ member decode
//@ head
        broadcast use lemma_cat_assoc;
//@ end
impl<T0: Wire, T1: Wire, T2: Wire, T3: Wire, T4: Wire, T5: Wire, T6: Wire, T7: Wire, T8: Wire, T9: Wire, T10: Wire, T11: Wire> Wire for (T0, T1, T2, T3, T4, T5, T6, T7, T8, T9, T10, T11, ) { open spec fn bytes(&self) -> Seq<u8> { self.0.bytes() + self.1.bytes() + self.2.bytes() + self.3.bytes() + self.4.bytes() + self.5.bytes() + self.6.bytes() + self.7.bytes() + self.8.bytes() + self.9.bytes() + self.10.bytes() + self.11.bytes() } }
//@ macro crates/serialize/src/encode.rs :: impl_encode_tuple!(A, B, C, D, E_, F, G, H, I, J, K, L)
//@ member encode
//@ head
        broadcast use lemma_cat_assoc;
//@ end
//@ macro crates/serialize/src/decode.rs :: impl_decode_tuple!(A, B, C, D_, E, F, G, H, I, J, K, L)
//@ extra
    proof fn prefix_free(a: &Self, b: &Self, ta: Seq<u8>, tb: Seq<u8>) {
        broadcast use lemma_cat_assoc;
        assert(a.bytes() + ta =~= a.0.bytes() + (a.1.bytes() + (a.2.bytes() + (a.3.bytes() + (a.4.bytes() + (a.5.bytes() + (a.6.bytes() + (a.7.bytes() + (a.8.bytes() + (a.9.bytes() + (a.10.bytes() + (a.11.bytes() + (ta)))))))))))));
        assert(b.bytes() + tb =~= b.0.bytes() + (b.1.bytes() + (b.2.bytes() + (b.3.bytes() + (b.4.bytes() + (b.5.bytes() + (b.6.bytes() + (b.7.bytes() + (b.8.bytes() + (b.9.bytes() + (b.10.bytes() + (b.11.bytes() + (tb)))))))))))));
        A::prefix_free(&a.0, &b.0, a.1.bytes() + (a.2.bytes() + (a.3.bytes() + (a.4.bytes() + (a.5.bytes() + (a.6.bytes() + (a.7.bytes() + (a.8.bytes() + (a.9.bytes() + (a.10.bytes() + (a.11.bytes() + (ta))))))))))), b.1.bytes() + (b.2.bytes() + (b.3.bytes() + (b.4.bytes() + (b.5.bytes() + (b.6.bytes() + (b.7.bytes() + (b.8.bytes() + (b.9.bytes() + (b.10.bytes() + (b.11.bytes() + (tb))))))))))));
        B::prefix_free(&a.1, &b.1, a.2.bytes() + (a.3.bytes() + (a.4.bytes() + (a.5.bytes() + (a.6.bytes() + (a.7.bytes() + (a.8.bytes() + (a.9.bytes() + (a.10.bytes() + (a.11.bytes() + (ta)))))))))), b.2.bytes() + (b.3.bytes() + (b.4.bytes() + (b.5.bytes() + (b.6.bytes() + (b.7.bytes() + (b.8.bytes() + (b.9.bytes() + (b.10.bytes() + (b.11.bytes() + (tb)))))))))));
        C::prefix_free(&a.2, &b.2, a.3.bytes() + (a.4.bytes() + (a.5.bytes() + (a.6.bytes() + (a.7.bytes() + (a.8.bytes() + (a.9.bytes() + (a.10.bytes() + (a.11.bytes() + (ta))))))))), b.3.bytes() + (b.4.bytes() + (b.5.bytes() + (b.6.bytes() + (b.7.bytes() + (b.8.bytes() + (b.9.bytes() + (b.10.bytes() + (b.11.bytes() + (tb))))))))));
        D_::prefix_free(&a.3, &b.3, a.4.bytes() + (a.5.bytes() + (a.6.bytes() + (a.7.bytes() + (a.8.bytes() + (a.9.bytes() + (a.10.bytes() + (a.11.bytes() + (ta)))))))), b.4.bytes() + (b.5.bytes() + (b.6.bytes() + (b.7.bytes() + (b.8.bytes() + (b.9.bytes() + (b.10.bytes() + (b.11.bytes() + (tb)))))))));
        E::prefix_free(&a.4, &b.4, a.5.bytes() + (a.6.bytes() + (a.7.bytes() + (a.8.bytes() + (a.9.bytes() + (a.10.bytes() + (a.11.bytes() + (ta))))))), b.5.bytes() + (b.6.bytes() + (b.7.bytes() + (b.8.bytes() + (b.9.bytes() + (b.10.bytes() + (b.11.bytes() + (tb))))))));
        F::prefix_free(&a.5, &b.5, a.6.bytes() + (a.7.bytes() + (a.8.bytes() + (a.9.bytes() + (a.10.bytes() + (a.11.bytes() + (ta)))))), b.6.bytes() + (b.7.bytes() + (b.8.bytes() + (b.9.bytes() + (b.10.bytes() + (b.11.bytes() + (tb)))))));
        G::prefix_free(&a.6, &b.6, a.7.bytes() + (a.8.bytes() + (a.9.bytes() + (a.10.bytes() + (a.11.bytes() + (ta))))), b.7.bytes() + (b.8.bytes() + (b.9.bytes() + (b.10.bytes() + (b.11.bytes() + (tb))))));
        H::prefix_free(&a.7, &b.7, a.8.bytes() + (a.9.bytes() + (a.10.bytes() + (a.11.bytes() + (ta)))), b.8.bytes() + (b.9.bytes() + (b.10.bytes() + (b.11.bytes() + (tb)))));
        I::prefix_free(&a.8, &b.8, a.9.bytes() + (a.10.bytes() + (a.11.bytes() + (ta))), b.9.bytes() + (b.10.bytes() + (b.11.bytes() + (tb))));
        J::prefix_free(&a.9, &b.9, a.10.bytes() + (a.11.bytes() + (ta)), b.10.bytes() + (b.11.bytes() + (tb)));
        K::prefix_free(&a.10, &b.10, a.11.bytes() + (ta), b.11.bytes() + (tb));
        L::prefix_free(&a.11, &b.11, ta, tb);
    }
//@ member decode
//@ head
        broadcast use lemma_cat_assoc;
//@ end


// ---------------------------------------------------------------- sequences: length prefix + elements in order
/// concatenated images of a sequence of values
pub open spec fn concat<T: Wire>(s: Seq<T>) -> Seq<u8>
    decreases s.len()
{
    if s.len() == 0 { Seq::<u8>::empty() } else { s[0].bytes() + concat(s.skip(1)) }
}

pub proof fn lemma_concat_push<T: Wire>(s: Seq<T>, x: T)
    ensures concat(s.push(x)) == concat(s) + x.bytes()
    decreases s.len()
{
    if s.len() == 0 {
        assert(s.push(x).skip(1) =~= Seq::<T>::empty());
        assert(concat(s.push(x)) =~= x.bytes() + concat(Seq::<T>::empty()));
        assert(concat(s.push(x)) =~= concat(s) + x.bytes());
    } else {
        assert(s.push(x).skip(1) =~= s.skip(1).push(x));
        lemma_concat_push(s.skip(1), x);
        assert(concat(s.push(x)) =~= s[0].bytes() + (concat(s.skip(1)) + x.bytes()));
        assert(concat(s.push(x)) =~= concat(s) + x.bytes());
    }
}

/// concat(s.take(i+1)) == concat(s.take(i)) + s[i].bytes()
pub broadcast proof fn lemma_concat_take_step<T: Wire>(s: Seq<T>, i: int)
    requires 0 <= i < s.len()
    ensures #[trigger] concat(s.take(i + 1)) == concat(s.take(i)) + s[i].bytes()
{
    assert(s.take(i + 1) =~= s.take(i).push(s[i]));
    lemma_concat_push(s.take(i), s[i]);
}

/// concat(s.skip(i)) == s[i].bytes() + concat(s.skip(i+1))
pub proof fn lemma_concat_skip_step<T: Wire>(s: Seq<T>, i: int)
    requires 0 <= i < s.len()
    ensures concat(s.skip(i)) == s[i].bytes() + concat(s.skip(i + 1))
{
    assert(s.skip(i).skip(1) =~= s.skip(i + 1));
}

pub broadcast proof fn lemma_take_all<T>(s: Seq<T>)
    ensures #[trigger] s.take(s.len() as int) == s
{
    assert(s.take(s.len() as int) =~= s);
}

/// image of a length-prefixed sequence
pub open spec fn seq_bytes<T: Wire>(s: Seq<T>) -> Seq<u8> { leb(s.len()) + concat(s) }

/// prefix-freeness of element sequences of equal length
pub proof fn lemma_concat_prefix_free<T: Decode>(a: Seq<T>, b: Seq<T>, ta: Seq<u8>, tb: Seq<u8>)
    requires a.len() == b.len(), concat(a) + ta == concat(b) + tb
    ensures concat(a) == concat(b), ta == tb
    decreases a.len()
{
    broadcast use lemma_cat_assoc, lemma_cat_empty;
    if a.len() > 0 {
        assert(concat(a) + ta =~= a[0].bytes() + (concat(a.skip(1)) + ta));
        assert(concat(b) + tb =~= b[0].bytes() + (concat(b.skip(1)) + tb));
        T::prefix_free(&a[0], &b[0], concat(a.skip(1)) + ta, concat(b.skip(1)) + tb);
        lemma_concat_prefix_free(a.skip(1), b.skip(1), ta, tb);
    }
}

pub proof fn lemma_seq_bytes_prefix_free<T: Decode>(a: Seq<T>, b: Seq<T>, ta: Seq<u8>, tb: Seq<u8>)
    requires seq_bytes(a) + ta == seq_bytes(b) + tb
    ensures seq_bytes(a) == seq_bytes(b), ta == tb
{
    broadcast use lemma_cat_assoc;
    assert(seq_bytes(a) + ta =~= leb(a.len()) + (concat(a) + ta));
    assert(seq_bytes(b) + tb =~= leb(b.len()) + (concat(b) + tb));
    lemma_leb_prefix_free(a.len(), b.len(), concat(a) + ta, concat(b) + tb);
    lemma_concat_prefix_free(a, b, ta, tb);
}

/// decode-loop invariant shared by all length-prefixed sequence decoders:
/// whatever sequence `s` the input started with the image of, after |got| elements the decoder has
/// produced elements whose images agree with s[0..|got|] and stands at the image of s[|got|..].
pub open spec fn seq_dec_inv<T: Wire>(before: Seq<u8>, len: usize, got: Seq<T>, rest: Seq<u8>) -> bool {
    forall|s: Seq<T>, tail: Seq<u8>| #![trigger seq_bytes(s) + tail] (before == seq_bytes(s) + tail && s.len() <= usize::MAX) ==> (
        s.len() == len && got.len() <= len && concat(got) == concat(s.take(got.len() as int))
        && rest == concat(s.skip(got.len() as int)) + tail)
}

pub broadcast proof fn lemma_seq_bytes_as_usize<T: Wire>(s: Seq<T>, tail: Seq<u8>)
    requires s.len() <= usize::MAX
    ensures #[trigger] (seq_bytes(s) + tail) == (s.len() as usize).bytes() + (concat(s) + tail)
{
    assert(seq_bytes(s) + tail =~= (s.len() as usize).bytes() + (concat(s) + tail));
}

pub broadcast proof fn lemma_take0<T>(s: Seq<T>)
    ensures #[trigger] s.take(0) == Seq::<T>::empty()
{
    assert(s.take(0) =~= Seq::<T>::empty());
}

pub broadcast proof fn lemma_skip0<T>(s: Seq<T>)
    ensures #[trigger] s.skip(0) == s
{
    assert(s.skip(0) =~= s);
}

/// established by read_usize
pub proof fn lemma_seq_dec_start<T: Wire>(before: Seq<u8>, r: io::Result<usize>, rest: Seq<u8>)
    requires reads_exact::<usize>(before, r, rest)
    ensures
        r matches Ok(len) ==> seq_dec_inv::<T>(before, len, Seq::<T>::empty(), rest),
        r is Err ==> forall|s: Seq<T>, tail: Seq<u8>| #![trigger seq_bytes(s) + tail] !(before == seq_bytes(s) + tail && s.len() <= usize::MAX),
{
    broadcast use lemma_cat_assoc, lemma_cat_empty;
    assert forall|s: Seq<T>, tail: Seq<u8>| #![trigger seq_bytes(s) + tail] (before == seq_bytes(s) + tail && s.len() <= usize::MAX) implies (
        r matches Ok(len) && s.len() == len && concat(Seq::<T>::empty()) == concat(s.take(0)) && rest == concat(s.skip(0)) + tail) by {
        let n = s.len() as usize;
        assert(seq_bytes(s) + tail =~= n.bytes() + (concat(s) + tail));
        assert(s.skip(0) =~= s);
        assert(s.take(0) =~= Seq::<T>::empty());
    }
}

/// what one element decode needs to see at the head of an iteration
pub proof fn lemma_seq_dec_peek<T: Wire>(before: Seq<u8>, len: usize, got: Seq<T>, rest: Seq<u8>)
    requires seq_dec_inv::<T>(before, len, got, rest), got.len() < len
    ensures forall|s: Seq<T>, tail: Seq<u8>| #![trigger seq_bytes(s) + tail] (before == seq_bytes(s) + tail && s.len() <= usize::MAX) ==>
        rest == s[got.len() as int].bytes() + (concat(s.skip(got.len() as int + 1)) + tail)
{
    broadcast use lemma_cat_assoc;
    assert forall|s: Seq<T>, tail: Seq<u8>| #![trigger seq_bytes(s) + tail] (before == seq_bytes(s) + tail && s.len() <= usize::MAX) implies
        rest == s[got.len() as int].bytes() + (concat(s.skip(got.len() as int + 1)) + tail) by {
        lemma_concat_skip_step(s, got.len() as int);
    }
}

/// one successful element decode re-establishes the invariant
pub proof fn lemma_seq_dec_step<T: Wire>(before: Seq<u8>, len: usize, got: Seq<T>, rest: Seq<u8>, r: io::Result<T>, rest2: Seq<u8>)
    requires seq_dec_inv::<T>(before, len, got, rest), got.len() < len, decodes_to::<T>(rest, r, rest2)
    ensures
        r matches Ok(w) ==> seq_dec_inv::<T>(before, len, got.push(w), rest2),
        r is Err ==> forall|s: Seq<T>, tail: Seq<u8>| #![trigger seq_bytes(s) + tail] !(before == seq_bytes(s) + tail && s.len() <= usize::MAX),
{
    lemma_seq_dec_peek(before, len, got, rest);
    assert forall|s: Seq<T>, tail: Seq<u8>| #![trigger seq_bytes(s) + tail] (before == seq_bytes(s) + tail && s.len() <= usize::MAX) implies
        (r matches Ok(w) && seq_one(before, len, got.push(w), rest2, s, tail)) by {
        let i = got.len() as int;
        let x = s[i];
        let tl = concat(s.skip(i + 1)) + tail;
        assert(rest == x.bytes() + tl);
        let w = r->Ok_0;
        assert(r is Ok && w.bytes() == x.bytes() && rest2 == tl);
        lemma_concat_push(got, w);
        lemma_concat_take_step(s, i);
    }
}

pub open spec fn seq_one<T: Wire>(before: Seq<u8>, len: usize, got: Seq<T>, rest: Seq<u8>, s: Seq<T>, tail: Seq<u8>) -> bool {
    s.len() == len && got.len() <= len && concat(got) == concat(s.take(got.len() as int))
        && rest == concat(s.skip(got.len() as int)) + tail
}

/// at the end: the produced sequence has the image the input started with
pub proof fn lemma_seq_dec_done<T: Wire>(before: Seq<u8>, len: usize, got: Seq<T>, rest: Seq<u8>)
    requires seq_dec_inv::<T>(before, len, got, rest), got.len() == len
    ensures forall|s: Seq<T>, tail: Seq<u8>| #![trigger seq_bytes(s) + tail] (before == seq_bytes(s) + tail && s.len() <= usize::MAX) ==>
        (seq_bytes(got) == seq_bytes(s) && rest == tail)
{
    broadcast use lemma_cat_empty;
    assert forall|s: Seq<T>, tail: Seq<u8>| #![trigger seq_bytes(s) + tail] (before == seq_bytes(s) + tail && s.len() <= usize::MAX) implies
        (seq_bytes(got) == seq_bytes(s) && rest == tail) by {
        assert(s.take(s.len() as int) =~= s);
        assert(s.skip(s.len() as int) =~= Seq::<T>::empty());
    }
}

impl<T: Wire> Wire for Vec<T> { open spec fn bytes(&self) -> Seq<u8> { seq_bytes(self@) } }

pub broadcast proof fn lemma_vec_len_fits<T: Wire>(v: Vec<T>)
    ensures #[trigger] v.bytes() == seq_bytes(v@), v@.len() <= usize::MAX
{
    let n = v.len();
    assert(n == v@.len());
}

//@ impl crates/serialize/src/encode.rs :: impl<T: Encode> Encode for Vec<T>
//@ member encode
//@ head
        broadcast use lemma_concat_take_step, lemma_take_all, lemma_cat_empty;
//@ loop 0 iter __it
//@ loop 0 inv
            invariant encoder.out() =~= old(encoder).out() + leb(self@.len()) + concat(self@.take(__it.index@ as int)),
//@ loop 0 head
            proof { lemma_concat_take_step(self@, __it.index@ as int); }
//@ end

//@ impl crates/serialize/src/decode.rs :: impl<T: Decode> Decode for Vec<T>
//@ extra
    proof fn prefix_free(a: &Self, b: &Self, ta: Seq<u8>, tb: Seq<u8>) {
        lemma_seq_bytes_prefix_free(a@, b@, ta, tb);
    }
//@ member decode
//@ head
        broadcast use lemma_seq_bytes_as_usize, lemma_vec_len_fits, lemma_take0, lemma_skip0, lemma_cat_empty;
        let ghost before = decoder.rest();
//@ loop 0 iter __it
//@ loop 0 inv
            invariant
                before == old(decoder).rest(),
                seq_dec_inv::<T>(before, len, vec@, decoder.rest()),
                vec@.len() == __it.index@,
//@ loop 0 head
            broadcast use lemma_seq_bytes_as_usize, lemma_vec_len_fits;
            let ghost rest0 = decoder.rest();
            let ghost got0 = vec@;
            proof { lemma_seq_dec_peek(before, len, got0, rest0); }
//@ loop 0 tail
            proof {
                lemma_seq_dec_step::<T>(before, len, got0, rest0, Ok(vec@.last()), decoder.rest());
                assert(got0.push(vec@.last()) =~= vec@);
            }
//@ end


// ---------------------------------------------------------------- slices, boxed / shared slices, arrays
impl<T: Wire> Wire for [T] { open spec fn bytes(&self) -> Seq<u8> { seq_bytes(self@) } }
impl<T: Wire, const N: usize> Wire for [T; N] { open spec fn bytes(&self) -> Seq<u8> { concat(self@) } }

pub broadcast proof fn lemma_slice_len_fits<T: Wire>(v: &[T])
    ensures #[trigger] v.bytes() == seq_bytes(v@), v@.len() <= usize::MAX
{
    let n = v.len();
    assert(n == v@.len());
}

// std facts (trusted): these conversions keep the element sequence
pub assume_specification<T, A: std::alloc::Allocator>[ Vec::<T, A>::into_boxed_slice ](v: Vec<T, A>) -> (r: Box<[T], A>)
    ensures r@ == v@;

#[verifier::external_body]
pub proof fn axiom_arc_slice_from_vec<T>()
    ensures
        <Arc<[T]> as FromSpec<Vec<T>>>::obeys_from_spec(),
        forall|v: Vec<T>| (#[trigger] <Arc<[T]> as FromSpec<Vec<T>>>::from_spec(v))@ == v@,
{
}

#[verifier::external_body]
pub proof fn axiom_rc_slice_from_vec<T>()
    ensures
        <Rc<[T]> as FromSpec<Vec<T>>>::obeys_from_spec(),
        forall|v: Vec<T>| (#[trigger] <Rc<[T]> as FromSpec<Vec<T>>>::from_spec(v))@ == v@,
{
}

//@ impl crates/serialize/src/encode.rs :: impl<T: Encode> Encode for [T]
//@ member encode
//@ head
        broadcast use lemma_take_all, lemma_cat_empty;
//@ loop 0 iter __it
//@ loop 0 inv
            invariant encoder.out() =~= old(encoder).out() + leb(self@.len()) + concat(self@.take(__it.index@ as int)),
//@ loop 0 head
            proof { lemma_concat_take_step(self@, __it.index@ as int); }
//@ end

//@ impl crates/serialize/src/encode.rs :: impl<T: Encode, const N: usize> Encode for [T; N]
//@ member encode
//@ head
        broadcast use lemma_take_all, lemma_take0, lemma_cat_empty;
//@ loop 0 iter __it
//@ loop 0 inv
            invariant encoder.out() =~= old(encoder).out() + concat(self@.take(__it.index@ as int)),
//@ loop 0 head
            proof { lemma_concat_take_step(self@, __it.index@ as int); }
//@ end

//@ impl crates/serialize/src/decode.rs :: impl<T: Decode> Decode for Box<[T]>
//@ extra
    proof fn prefix_free(a: &Self, b: &Self, ta: Seq<u8>, tb: Seq<u8>) {
        lemma_seq_bytes_prefix_free(a@, b@, ta, tb);
    }
//@ member decode
//@ head
        broadcast use lemma_seq_bytes_as_usize, lemma_vec_len_fits, lemma_slice_len_fits, lemma_take0, lemma_skip0, lemma_cat_empty;
        let ghost before = decoder.rest();
//@ loop 0 iter __it
//@ loop 0 inv
            invariant
                before == old(decoder).rest(),
                seq_dec_inv::<T>(before, len, vec@, decoder.rest()),
                vec@.len() == __it.index@,
//@ loop 0 head
            broadcast use lemma_seq_bytes_as_usize, lemma_vec_len_fits, lemma_slice_len_fits;
            let ghost rest0 = decoder.rest();
            let ghost got0 = vec@;
            proof { lemma_seq_dec_peek(before, len, got0, rest0); }
//@ loop 0 tail
            proof {
                lemma_seq_dec_step::<T>(before, len, got0, rest0, Ok(vec@.last()), decoder.rest());
                assert(got0.push(vec@.last()) =~= vec@);
            }
//@ end
//@ impl crates/serialize/src/decode.rs :: impl<T: Decode> Decode for Arc<[T]>
//@ extra
    proof fn prefix_free(a: &Self, b: &Self, ta: Seq<u8>, tb: Seq<u8>) {
        lemma_seq_bytes_prefix_free(a@, b@, ta, tb);
    }
//@ member decode
//@ head
        broadcast use lemma_seq_bytes_as_usize, lemma_vec_len_fits, lemma_slice_len_fits, lemma_take0, lemma_skip0, lemma_cat_empty;
        proof { axiom_arc_slice_from_vec::<T>(); }
        let ghost before = decoder.rest();
//@ loop 0 iter __it
//@ loop 0 inv
            invariant
                before == old(decoder).rest(),
                seq_dec_inv::<T>(before, len, vec@, decoder.rest()),
                vec@.len() == __it.index@,
//@ loop 0 head
            broadcast use lemma_seq_bytes_as_usize, lemma_vec_len_fits, lemma_slice_len_fits;
            let ghost rest0 = decoder.rest();
            let ghost got0 = vec@;
            proof { lemma_seq_dec_peek(before, len, got0, rest0); }
//@ loop 0 tail
            proof {
                lemma_seq_dec_step::<T>(before, len, got0, rest0, Ok(vec@.last()), decoder.rest());
                assert(got0.push(vec@.last()) =~= vec@);
            }
//@ end
//@ impl crates/serialize/src/decode.rs :: impl<T: Decode> Decode for Rc<[T]>
//@ extra
    proof fn prefix_free(a: &Self, b: &Self, ta: Seq<u8>, tb: Seq<u8>) {
        lemma_seq_bytes_prefix_free(a@, b@, ta, tb);
    }
//@ member decode
//@ head
        broadcast use lemma_seq_bytes_as_usize, lemma_vec_len_fits, lemma_slice_len_fits, lemma_take0, lemma_skip0, lemma_cat_empty;
        proof { axiom_rc_slice_from_vec::<T>(); }
        let ghost before = decoder.rest();
//@ loop 0 iter __it
//@ loop 0 inv
            invariant
                before == old(decoder).rest(),
                seq_dec_inv::<T>(before, len, vec@, decoder.rest()),
                vec@.len() == __it.index@,
//@ loop 0 head
            broadcast use lemma_seq_bytes_as_usize, lemma_vec_len_fits, lemma_slice_len_fits;
            let ghost rest0 = decoder.rest();
            let ghost got0 = vec@;
            proof { lemma_seq_dec_peek(before, len, got0, rest0); }
//@ loop 0 tail
            proof {
                lemma_seq_dec_step::<T>(before, len, got0, rest0, Ok(vec@.last()), decoder.rest());
                assert(got0.push(vec@.last()) =~= vec@);
            }
//@ end


// ---------------------------------------------------------------- transparent std wrappers
#[verifier::external_type_specification]
pub struct ExWrapping<T>(std::num::Wrapping<T>);
#[verifier::external_type_specification]
pub struct ExReverse<T>(std::cmp::Reverse<T>);

impl<T: Wire> Wire for std::num::Wrapping<T> { open spec fn bytes(&self) -> Seq<u8> { self.0.bytes() } }
impl<T: Wire> Wire for std::cmp::Reverse<T> { open spec fn bytes(&self) -> Seq<u8> { self.0.bytes() } }
impl<T> Wire for std::marker::PhantomData<T> { open spec fn bytes(&self) -> Seq<u8> { Seq::<u8>::empty() } }

//@ impl crates/serialize/src/encode.rs :: impl<T: Encode> Encode for std::num::Wrapping<T>
//@ member encode
//@ end
//@ impl crates/serialize/src/decode.rs :: impl<T: Decode> Decode for std::num::Wrapping<T>
//@ extra
    proof fn prefix_free(a: &Self, b: &Self, ta: Seq<u8>, tb: Seq<u8>) { T::prefix_free(&a.0, &b.0, ta, tb); }
//@ member decode
//@ end
//@ impl crates/serialize/src/encode.rs :: impl<T: Encode> Encode for std::cmp::Reverse<T>
//@ member encode
//@ end
//@ impl crates/serialize/src/decode.rs :: impl<T: Decode> Decode for std::cmp::Reverse<T>
//@ extra
    proof fn prefix_free(a: &Self, b: &Self, ta: Seq<u8>, tb: Seq<u8>) { T::prefix_free(&a.0, &b.0, ta, tb); }
//@ member decode
//@ end
//@ impl crates/serialize/src/encode.rs :: impl<T: Encode> Encode for std::marker::PhantomData<T>
//@ member encode
//@ head
        broadcast use lemma_cat_empty;
//@ end
//@ impl crates/serialize/src/decode.rs :: impl<T> Decode for std::marker::PhantomData<T>
//@ extra
    proof fn prefix_free(a: &Self, b: &Self, ta: Seq<u8>, tb: Seq<u8>) { broadcast use lemma_cat_empty; }
//@ member decode
//@ head
        broadcast use lemma_cat_empty;
//@ end

// ---------------------------------------------------------------- Cell (std model, trusted): a Cell holds one value
#[verifier::external_type_specification]
#[verifier::external_body]
#[verifier::reject_recursive_types(T)]
pub struct ExCell<T: ?Sized>(std::cell::Cell<T>);
pub uninterp spec fn cell_val<T>(c: &std::cell::Cell<T>) -> T;
pub assume_specification<T: Copy>[ std::cell::Cell::<T>::get ](c: &std::cell::Cell<T>) -> (r: T)
    ensures r == cell_val(c);
pub assume_specification<T>[ std::cell::Cell::<T>::new ](v: T) -> (r: std::cell::Cell<T>)
    ensures cell_val(&r) == v;
impl<T: Wire> Wire for std::cell::Cell<T> { open spec fn bytes(&self) -> Seq<u8> { cell_val(self).bytes() } }
//@ impl crates/serialize/src/encode.rs :: impl<T: Encode + Copy> Encode for std::cell::Cell<T>
//@ member encode
//@ end
//@ impl crates/serialize/src/decode.rs :: impl<T: Decode + Copy> Decode for std::cell::Cell<T>
//@ extra
    proof fn prefix_free(a: &Self, b: &Self, ta: Seq<u8>, tb: Seq<u8>) { T::prefix_free(&cell_val(a), &cell_val(b), ta, tb); }
//@ member decode
//@ end

// ---------------------------------------------------------------- RefCell (std model, trusted): holds one value; `borrow()` hands out a guard that dereferences to it
#[verifier::external_type_specification]
#[verifier::external_body]
#[verifier::reject_recursive_types(T)]
pub struct ExRefCell<T: ?Sized>(std::cell::RefCell<T>);
#[verifier::external_type_specification]
#[verifier::external_body]
#[verifier::reject_recursive_types(T)]
pub struct ExRef<'b, T: ?Sized>(std::cell::Ref<'b, T>);
pub uninterp spec fn refcell_val<T: ?Sized>(c: &std::cell::RefCell<T>) -> &T;
pub uninterp spec fn ref_val<'a, 'b, T: ?Sized>(r: &'a std::cell::Ref<'b, T>) -> &'a T;
/// (a RefCell that is mutably borrowed makes `borrow()` panic: no bytes are produced, outside the property)
pub assume_specification<'b, T: ?Sized>[ std::cell::RefCell::<T>::borrow ](c: &'b std::cell::RefCell<T>) -> (r: std::cell::Ref<'b, T>)
    ensures ref_val(&r) == refcell_val(c);
pub assume_specification<'b, 'a, T: ?Sized>[ <std::cell::Ref<'b, T> as std::ops::Deref>::deref ](r: &'a std::cell::Ref<'b, T>) -> (out: &'a T)
    ensures out == ref_val(r);
pub assume_specification<T>[ std::cell::RefCell::<T>::new ](v: T) -> (r: std::cell::RefCell<T>)
    ensures *refcell_val(&r) == v;
impl<T: Wire + ?Sized> Wire for std::cell::RefCell<T> { open spec fn bytes(&self) -> Seq<u8> { refcell_val(self).bytes() } }
impl<'b, T: Wire + ?Sized> Wire for std::cell::Ref<'b, T> { open spec fn bytes(&self) -> Seq<u8> { ref_val(self).bytes() } }
//@ impl crates/serialize/src/encode.rs :: impl<T: Encode + ?Sized> Encode for std::cell::RefCell<T>
//@ member encode
//@ end
//@ impl crates/serialize/src/decode.rs :: impl<T: Decode> Decode for std::cell::RefCell<T>
//@ extra
    proof fn prefix_free(a: &Self, b: &Self, ta: Seq<u8>, tb: Seq<u8>) { T::prefix_free(refcell_val(a), refcell_val(b), ta, tb); }
//@ member decode
//@ end

// ---------------------------------------------------------------- Duration (std model, trusted): (secs, nanos < 10^9)
pub uninterp spec fn dur_secs(d: &std::time::Duration) -> u64;
pub uninterp spec fn dur_nanos(d: &std::time::Duration) -> u32;
#[verifier::external_body]
pub broadcast proof fn axiom_duration_nanos(d: &std::time::Duration)
    ensures #[trigger] dur_nanos(d) < 1_000_000_000u32
{
}
pub assume_specification[ std::time::Duration::as_secs ](d: &std::time::Duration) -> (r: u64)
    ensures r == dur_secs(d);
pub assume_specification[ std::time::Duration::subsec_nanos ](d: &std::time::Duration) -> (r: u32)
    ensures r == dur_nanos(d);
pub assume_specification[ std::time::Duration::new ](secs: u64, nanos: u32) -> (r: std::time::Duration)
    ensures nanos < 1_000_000_000u32 ==> (dur_secs(&r) == secs && dur_nanos(&r) == nanos);
impl Wire for std::time::Duration { open spec fn bytes(&self) -> Seq<u8> { dur_secs(self).bytes() + dur_nanos(self).bytes() } }
//@ impl crates/serialize/src/encode.rs :: impl Encode for std::time::Duration
//@ member encode
//@ head
        broadcast use lemma_cat_assoc;
//@ end
//@ impl crates/serialize/src/decode.rs :: impl Decode for std::time::Duration
//@ extra
    proof fn prefix_free(a: &Self, b: &Self, ta: Seq<u8>, tb: Seq<u8>) {
        broadcast use lemma_cat_assoc;
        u64::prefix_free(&dur_secs(a), &dur_secs(b), dur_nanos(a).bytes() + ta, dur_nanos(b).bytes() + tb);
        u32::prefix_free(&dur_nanos(a), &dur_nanos(b), ta, tb);
    }
//@ member decode
//@ head
        broadcast use lemma_cat_assoc, axiom_duration_nanos, group_inj;
//@ end

// ---------------------------------------------------------------- ranges and Bound
impl<T: Wire> Wire for std::ops::Range<T> { open spec fn bytes(&self) -> Seq<u8> { self.start.bytes() + self.end.bytes() } }
impl<T: Wire> Wire for std::ops::RangeFrom<T> { open spec fn bytes(&self) -> Seq<u8> { self.start.bytes() } }
impl<T: Wire> Wire for std::ops::RangeTo<T> { open spec fn bytes(&self) -> Seq<u8> { self.end.bytes() } }
impl<T: Wire> Wire for std::ops::RangeToInclusive<T> { open spec fn bytes(&self) -> Seq<u8> { self.end.bytes() } }
impl Wire for std::ops::RangeFull { open spec fn bytes(&self) -> Seq<u8> { Seq::<u8>::empty() } }
impl<T: Wire> Wire for std::ops::Bound<T> {
    open spec fn bytes(&self) -> Seq<u8> {
        match self {
            std::ops::Bound::Unbounded => seq![0u8],
            std::ops::Bound::Included(v) => seq![1u8] + v.bytes(),
            std::ops::Bound::Excluded(v) => seq![2u8] + v.bytes(),
        }
    }
}
//@ impl crates/serialize/src/encode.rs :: impl<T: Encode> Encode for std::ops::Range<T>
//@ member encode
//@ head
        broadcast use lemma_cat_assoc;
//@ end
//@ impl crates/serialize/src/decode.rs :: impl<T: Decode> Decode for std::ops::Range<T>
//@ extra
    proof fn prefix_free(a: &Self, b: &Self, ta: Seq<u8>, tb: Seq<u8>) {
        broadcast use lemma_cat_assoc;
        T::prefix_free(&a.start, &b.start, a.end.bytes() + ta, b.end.bytes() + tb);
        T::prefix_free(&a.end, &b.end, ta, tb);
    }
//@ member decode
//@ head
        broadcast use lemma_cat_assoc;
//@ end
//@ impl crates/serialize/src/encode.rs :: impl<T: Encode> Encode for std::ops::RangeFrom<T>
//@ member encode
//@ end
//@ impl crates/serialize/src/decode.rs :: impl<T: Decode> Decode for std::ops::RangeFrom<T>
//@ extra
    proof fn prefix_free(a: &Self, b: &Self, ta: Seq<u8>, tb: Seq<u8>) { T::prefix_free(&a.start, &b.start, ta, tb); }
//@ member decode
//@ end
//@ impl crates/serialize/src/encode.rs :: impl<T: Encode> Encode for std::ops::RangeTo<T>
//@ member encode
//@ end
//@ impl crates/serialize/src/decode.rs :: impl<T: Decode> Decode for std::ops::RangeTo<T>
//@ extra
    proof fn prefix_free(a: &Self, b: &Self, ta: Seq<u8>, tb: Seq<u8>) { T::prefix_free(&a.end, &b.end, ta, tb); }
//@ member decode
//@ end
//@ impl crates/serialize/src/encode.rs :: impl<T: Encode> Encode for std::ops::RangeToInclusive<T>
//@ member encode
//@ end
//@ impl crates/serialize/src/decode.rs :: impl<T: Decode> Decode for std::ops::RangeToInclusive<T>
//@ extra
    proof fn prefix_free(a: &Self, b: &Self, ta: Seq<u8>, tb: Seq<u8>) { T::prefix_free(&a.end, &b.end, ta, tb); }
//@ member decode
//@ end
//@ impl crates/serialize/src/encode.rs :: impl Encode for std::ops::RangeFull
//@ member encode
//@ head
        broadcast use lemma_cat_empty;
//@ end
//@ impl crates/serialize/src/decode.rs :: impl Decode for std::ops::RangeFull
//@ extra
    proof fn prefix_free(a: &Self, b: &Self, ta: Seq<u8>, tb: Seq<u8>) { broadcast use lemma_cat_empty; }
//@ member decode
//@ head
        broadcast use lemma_cat_empty;
//@ end
//@ impl crates/serialize/src/encode.rs :: impl<T: Encode> Encode for std::ops::Bound<T>
//@ member encode
//@ end
//@ impl crates/serialize/src/decode.rs :: impl<T: Decode> Decode for std::ops::Bound<T>
//@ extra
    proof fn prefix_free(a: &Self, b: &Self, ta: Seq<u8>, tb: Seq<u8>) {
        broadcast use lemma_cat_assoc;
        let sa = a.bytes() + ta;
        let sb = b.bytes() + tb;
        let tag_a: u8 = match a { std::ops::Bound::Unbounded => 0u8, std::ops::Bound::Included(_) => 1u8, std::ops::Bound::Excluded(_) => 2u8 };
        let tag_b: u8 = match b { std::ops::Bound::Unbounded => 0u8, std::ops::Bound::Included(_) => 1u8, std::ops::Bound::Excluded(_) => 2u8 };
        let pa = match a { std::ops::Bound::Unbounded => ta, std::ops::Bound::Included(v) => v.bytes() + ta, std::ops::Bound::Excluded(v) => v.bytes() + ta };
        let pb = match b { std::ops::Bound::Unbounded => tb, std::ops::Bound::Included(v) => v.bytes() + tb, std::ops::Bound::Excluded(v) => v.bytes() + tb };
        assert(sa =~= seq![tag_a] + pa);
        assert(sb =~= seq![tag_b] + pb);
        lemma_one_byte_split(tag_a, tag_b, pa, pb);
        match (a, b) {
            (std::ops::Bound::Included(x), std::ops::Bound::Included(y)) => { T::prefix_free(x, y, ta, tb); }
            (std::ops::Bound::Excluded(x), std::ops::Bound::Excluded(y)) => { T::prefix_free(x, y, ta, tb); }
            _ => {}
        }
    }
//@ member decode
//@ head
        broadcast use lemma_tag_split, lemma_tag_only;
//@ end

// ---------------------------------------------------------------- NonZero*: image of the underlying integer
impl Wire for std::num::NonZeroU8 { open spec fn bytes(&self) -> Seq<u8> { (self@ as u8).bytes() } }
//@ macro crates/serialize/src/encode.rs :: impl_encode_nonzero! :: impl Encode for std::num::NonZeroU8
//@ member encode
//@ end
//@ macro crates/serialize/src/decode.rs :: impl_decode_nonzero!(std::num::NonZeroU8, u8)
//@ extra
    proof fn prefix_free(a: &Self, b: &Self, ta: Seq<u8>, tb: Seq<u8>) { u8::prefix_free(&(a@ as u8), &(b@ as u8), ta, tb); }
//@ member decode
//@ head
        broadcast use group_inj;
//@ end
impl Wire for std::num::NonZeroU16 { open spec fn bytes(&self) -> Seq<u8> { (self@ as u16).bytes() } }
//@ macro crates/serialize/src/encode.rs :: impl_encode_nonzero! :: impl Encode for std::num::NonZeroU16
//@ member encode
//@ end
//@ macro crates/serialize/src/decode.rs :: impl_decode_nonzero!(std::num::NonZeroU16, u16)
//@ extra
    proof fn prefix_free(a: &Self, b: &Self, ta: Seq<u8>, tb: Seq<u8>) { u16::prefix_free(&(a@ as u16), &(b@ as u16), ta, tb); }
//@ member decode
//@ head
        broadcast use group_inj;
//@ end
impl Wire for std::num::NonZeroU32 { open spec fn bytes(&self) -> Seq<u8> { (self@ as u32).bytes() } }
//@ macro crates/serialize/src/encode.rs :: impl_encode_nonzero! :: impl Encode for std::num::NonZeroU32
//@ member encode
//@ end
//@ macro crates/serialize/src/decode.rs :: impl_decode_nonzero!(std::num::NonZeroU32, u32)
//@ extra
    proof fn prefix_free(a: &Self, b: &Self, ta: Seq<u8>, tb: Seq<u8>) { u32::prefix_free(&(a@ as u32), &(b@ as u32), ta, tb); }
//@ member decode
//@ head
        broadcast use group_inj;
//@ end
impl Wire for std::num::NonZeroU64 { open spec fn bytes(&self) -> Seq<u8> { (self@ as u64).bytes() } }
//@ macro crates/serialize/src/encode.rs :: impl_encode_nonzero! :: impl Encode for std::num::NonZeroU64
//@ member encode
//@ end
//@ macro crates/serialize/src/decode.rs :: impl_decode_nonzero!(std::num::NonZeroU64, u64)
//@ extra
    proof fn prefix_free(a: &Self, b: &Self, ta: Seq<u8>, tb: Seq<u8>) { u64::prefix_free(&(a@ as u64), &(b@ as u64), ta, tb); }
//@ member decode
//@ head
        broadcast use group_inj;
//@ end
impl Wire for std::num::NonZeroU128 { open spec fn bytes(&self) -> Seq<u8> { (self@ as u128).bytes() } }
//@ macro crates/serialize/src/encode.rs :: impl_encode_nonzero! :: impl Encode for std::num::NonZeroU128
//@ member encode
//@ end
//@ macro crates/serialize/src/decode.rs :: impl_decode_nonzero!(std::num::NonZeroU128, u128)
//@ extra
    proof fn prefix_free(a: &Self, b: &Self, ta: Seq<u8>, tb: Seq<u8>) { u128::prefix_free(&(a@ as u128), &(b@ as u128), ta, tb); }
//@ member decode
//@ head
        broadcast use group_inj;
//@ end
impl Wire for std::num::NonZeroUsize { open spec fn bytes(&self) -> Seq<u8> { (self@ as usize).bytes() } }
//@ macro crates/serialize/src/encode.rs :: impl_encode_nonzero! :: impl Encode for std::num::NonZeroUsize
//@ member encode
//@ end
//@ macro crates/serialize/src/decode.rs :: impl_decode_nonzero!(std::num::NonZeroUsize, usize)
//@ extra
    proof fn prefix_free(a: &Self, b: &Self, ta: Seq<u8>, tb: Seq<u8>) { usize::prefix_free(&(a@ as usize), &(b@ as usize), ta, tb); }
//@ member decode
//@ head
        broadcast use group_inj;
//@ end
impl Wire for std::num::NonZeroI8 { open spec fn bytes(&self) -> Seq<u8> { (self@ as i8).bytes() } }
//@ macro crates/serialize/src/encode.rs :: impl_encode_nonzero! :: impl Encode for std::num::NonZeroI8
//@ member encode
//@ end
//@ macro crates/serialize/src/decode.rs :: impl_decode_nonzero!(std::num::NonZeroI8, i8)
//@ extra
    proof fn prefix_free(a: &Self, b: &Self, ta: Seq<u8>, tb: Seq<u8>) { i8::prefix_free(&(a@ as i8), &(b@ as i8), ta, tb); }
//@ member decode
//@ head
        broadcast use group_inj;
//@ end
impl Wire for std::num::NonZeroI16 { open spec fn bytes(&self) -> Seq<u8> { (self@ as i16).bytes() } }
//@ macro crates/serialize/src/encode.rs :: impl_encode_nonzero! :: impl Encode for std::num::NonZeroI16
//@ member encode
//@ end
//@ macro crates/serialize/src/decode.rs :: impl_decode_nonzero!(std::num::NonZeroI16, i16)
//@ extra
    proof fn prefix_free(a: &Self, b: &Self, ta: Seq<u8>, tb: Seq<u8>) { i16::prefix_free(&(a@ as i16), &(b@ as i16), ta, tb); }
//@ member decode
//@ head
        broadcast use group_inj;
//@ end
impl Wire for std::num::NonZeroI32 { open spec fn bytes(&self) -> Seq<u8> { (self@ as i32).bytes() } }
//@ macro crates/serialize/src/encode.rs :: impl_encode_nonzero! :: impl Encode for std::num::NonZeroI32
//@ member encode
//@ end
//@ macro crates/serialize/src/decode.rs :: impl_decode_nonzero!(std::num::NonZeroI32, i32)
//@ extra
    proof fn prefix_free(a: &Self, b: &Self, ta: Seq<u8>, tb: Seq<u8>) { i32::prefix_free(&(a@ as i32), &(b@ as i32), ta, tb); }
//@ member decode
//@ head
        broadcast use group_inj;
//@ end
impl Wire for std::num::NonZeroI64 { open spec fn bytes(&self) -> Seq<u8> { (self@ as i64).bytes() } }
//@ macro crates/serialize/src/encode.rs :: impl_encode_nonzero! :: impl Encode for std::num::NonZeroI64
//@ member encode
//@ end
//@ macro crates/serialize/src/decode.rs :: impl_decode_nonzero!(std::num::NonZeroI64, i64)
//@ extra
    proof fn prefix_free(a: &Self, b: &Self, ta: Seq<u8>, tb: Seq<u8>) { i64::prefix_free(&(a@ as i64), &(b@ as i64), ta, tb); }
//@ member decode
//@ head
        broadcast use group_inj;
//@ end
impl Wire for std::num::NonZeroI128 { open spec fn bytes(&self) -> Seq<u8> { (self@ as i128).bytes() } }
//@ macro crates/serialize/src/encode.rs :: impl_encode_nonzero! :: impl Encode for std::num::NonZeroI128
//@ member encode
//@ end
//@ macro crates/serialize/src/decode.rs :: impl_decode_nonzero!(std::num::NonZeroI128, i128)
//@ extra
    proof fn prefix_free(a: &Self, b: &Self, ta: Seq<u8>, tb: Seq<u8>) { i128::prefix_free(&(a@ as i128), &(b@ as i128), ta, tb); }
//@ member decode
//@ head
        broadcast use group_inj;
//@ end
impl Wire for std::num::NonZeroIsize { open spec fn bytes(&self) -> Seq<u8> { (self@ as isize).bytes() } }
//@ macro crates/serialize/src/encode.rs :: impl_encode_nonzero! :: impl Encode for std::num::NonZeroIsize
//@ member encode
//@ end
//@ macro crates/serialize/src/decode.rs :: impl_decode_nonzero!(std::num::NonZeroIsize, isize)
//@ extra
    proof fn prefix_free(a: &Self, b: &Self, ta: Seq<u8>, tb: Seq<u8>) { isize::prefix_free(&(a@ as isize), &(b@ as isize), ta, tb); }
//@ member decode
//@ head
        broadcast use group_inj;
//@ end


// ---------------------------------------------------------------- strings: LEB128 byte count + UTF-8 bytes
pub proof fn lemma_lenpref_prefix_free(p: Seq<u8>, q: Seq<u8>, ta: Seq<u8>, tb: Seq<u8>)
    requires lenpref(p) + ta == lenpref(q) + tb
    ensures p == q, ta == tb
{
    broadcast use lemma_cat_assoc;
    lemma_leb_prefix_free(p.len(), q.len(), p + ta, q + tb);
    assert(p =~= (p + ta).subrange(0, p.len() as int));
    assert(q =~= (q + tb).subrange(0, q.len() as int));
    assert(ta =~= tail_of(p + ta, p.len() as int));
    assert(tb =~= tail_of(q + tb, q.len() as int));
}

/// std facts (trusted): the owned/shared string conversions keep the characters
pub assume_specification[ String::into_boxed_str ](s: String) -> (r: Box<str>)
    ensures r@ == s@;
pub assume_specification[ <std::rc::Rc<str> as std::convert::From<std::string::String>>::from ](s: std::string::String) -> (r: std::rc::Rc<str>)
    ensures r@ == s@;
pub assume_specification[ <std::sync::Arc<str> as std::convert::From<std::string::String>>::from ](s: std::string::String) -> (r: std::sync::Arc<str>)
    ensures r@ == s@;

//@ impl crates/serialize/src/encode.rs :: impl Encode for str
//@ member encode
//@ end
//@ impl crates/serialize/src/encode.rs :: impl Encode for String
//@ member encode
//@ end
/// Rust invariant for the other string-carrying types
pub trait StrLike { spec fn chars(&self) -> Seq<char>; }
impl StrLike for String { open spec fn chars(&self) -> Seq<char> { self@ } }
impl StrLike for Box<str> { open spec fn chars(&self) -> Seq<char> { self@ } }
impl StrLike for Rc<str> { open spec fn chars(&self) -> Seq<char> { self@ } }
impl StrLike for Arc<str> { open spec fn chars(&self) -> Seq<char> { self@ } }
#[verifier::external_body]
pub proof fn axiom_len_bound_of<S: StrLike>(s: &S)
    ensures utf8(s.chars()).len() <= usize::MAX, utf8(s.chars()).len() <= isize::MAX
{
}

/// every string value's image is the image of its view: instantiates Decoder::read_str's contract
pub broadcast proof fn lemma_str_image(c: Seq<char>, tail: Seq<u8>)
    ensures #[trigger] (lenpref(utf8(c)) + tail) == lenpref(utf8(c)) + tail
{
}

//@ impl crates/serialize/src/decode.rs :: impl Decode for String
//@ extra
    proof fn prefix_free(a: &Self, b: &Self, ta: Seq<u8>, tb: Seq<u8>) {
        lemma_lenpref_prefix_free(utf8(a@), utf8(b@), ta, tb);
    }
//@ member decode
//@ head
        proof {
            assert forall|v: Self, tail: Seq<u8>| #![trigger v.bytes() + tail] old(decoder).rest() == v.bytes() + tail implies
                old(decoder).rest() == lenpref(utf8(v@)) + tail && utf8(v@).len() <= usize::MAX by { axiom_len_bound_of(&v); }
        }
//@ end
//@ impl crates/serialize/src/decode.rs :: impl Decode for Box<str>
//@ extra
    proof fn prefix_free(a: &Self, b: &Self, ta: Seq<u8>, tb: Seq<u8>) {
        lemma_lenpref_prefix_free(utf8(a@), utf8(b@), ta, tb);
    }
//@ member decode
//@ head
        proof {
            assert forall|v: Self, tail: Seq<u8>| #![trigger v.bytes() + tail] old(decoder).rest() == v.bytes() + tail implies
                old(decoder).rest() == lenpref(utf8(v@)) + tail && utf8(v@).len() <= usize::MAX by { axiom_len_bound_of(&v); }
        }
//@ end
//@ impl crates/serialize/src/decode.rs :: impl Decode for Rc<str>
//@ extra
    proof fn prefix_free(a: &Self, b: &Self, ta: Seq<u8>, tb: Seq<u8>) {
        lemma_lenpref_prefix_free(utf8(a@), utf8(b@), ta, tb);
    }
//@ member decode
//@ head
        proof {
            assert forall|v: Self, tail: Seq<u8>| #![trigger v.bytes() + tail] old(decoder).rest() == v.bytes() + tail implies
                old(decoder).rest() == lenpref(utf8(v@)) + tail && utf8(v@).len() <= usize::MAX by { axiom_len_bound_of(&v); }
        }
//@ end
//@ impl crates/serialize/src/decode.rs :: impl Decode for Arc<str>
//@ extra
    proof fn prefix_free(a: &Self, b: &Self, ta: Seq<u8>, tb: Seq<u8>) {
        lemma_lenpref_prefix_free(utf8(a@), utf8(b@), ta, tb);
    }
//@ member decode
//@ head
        proof {
            assert forall|v: Self, tail: Seq<u8>| #![trigger v.bytes() + tail] old(decoder).rest() == v.bytes() + tail implies
                old(decoder).rest() == lenpref(utf8(v@)) + tail && utf8(v@).len() <= usize::MAX by { axiom_len_bound_of(&v); }
        }
//@ end


// ---------------------------------------------------------------- VecDeque (same image as Vec: count + elements front to back)
impl<T: Wire> Wire for VecDeque<T> { open spec fn bytes(&self) -> Seq<u8> { seq_bytes(self@) } }
pub broadcast proof fn lemma_deque_len_fits<T: Wire>(v: VecDeque<T>)
    ensures #[trigger] v.bytes() == seq_bytes(v@), v@.len() <= usize::MAX
{
    let n = v.len();
    assert(n == v@.len());
}
//@ impl crates/serialize/src/decode.rs :: impl<T: Decode> Decode for VecDeque<T>
//@ extra
    proof fn prefix_free(a: &Self, b: &Self, ta: Seq<u8>, tb: Seq<u8>) {
        lemma_seq_bytes_prefix_free(a@, b@, ta, tb);
    }
//@ member decode
//@ head
        broadcast use lemma_seq_bytes_as_usize, lemma_deque_len_fits, lemma_take0, lemma_skip0, lemma_cat_empty;
        let ghost before = decoder.rest();
//@ loop 0 iter __it
//@ loop 0 inv
            invariant
                before == old(decoder).rest(),
                seq_dec_inv::<T>(before, len, deque@, decoder.rest()),
                deque@.len() == __it.index@,
//@ loop 0 head
            broadcast use lemma_seq_bytes_as_usize, lemma_deque_len_fits;
            let ghost rest0 = decoder.rest();
            let ghost got0 = deque@;
            proof { lemma_seq_dec_peek(before, len, got0, rest0); }
//@ loop 0 tail
            proof {
                lemma_seq_dec_step::<T>(before, len, got0, rest0, Ok(deque@.last()), decoder.rest());
                assert(got0.push(deque@.last()) =~= deque@);
            }
//@ end


//@ impl crates/serialize/src/encode.rs :: impl<T: Encode> Encode for VecDeque<T>
//@ member encode
//@ head
        broadcast use lemma_concat_take_step, lemma_take_all, lemma_cat_empty, lemma_deque_len_fits;
//@ loop 0 iter __it
//@ loop 0 itercall
//@ loop 0 inv
            invariant encoder.out() =~= old(encoder).out() + leb(self@.len()) + concat(self@.take(__it.index@ as int)),
//@ loop 0 head
            proof { lemma_concat_take_step(self@, __it.index@ as int); }
//@ end


// ---------------------------------------------------------------- HashMap / HashSet: count + entries in ITERATION order
// The byte image of a hash collection is not a function of the value (it depends on the iteration order), so these
// impls cannot be checked against Encode / Decode's functional `Wire::bytes` contract. They are checked against
// relational contract traits (header-sub rewrites `Encode for` / `Decode for` in the impl header):
//   * encode appends the count and the images of the entries in SOME duplicate-free enumeration of the keys;
//   * decode, on input that starts with the image of ANY entry sequence s, consumes exactly that image and returns the
//     map built by inserting, in order, entries whose images equal those of s (image equality as in `decodes_to`).
// Round trip (lemma_hashmap_roundtrip / lemma_hashset_roundtrip): when element images are injective, decoding any
// admissible image of m yields a collection with view m.
use vstd::std_specs::hash::*;
use vstd::std_specs::iter::IteratorSpec;
use std::hash::{BuildHasher, Hash};

pub open spec fn is_order<K, V>(ks: Seq<K>, m: Map<K, V>) -> bool {
    ks.no_duplicates() && (forall|k: K| ks.contains(k) <==> m.contains_key(k))
}
pub open spec fn entries<K, V>(m: Map<K, V>, ks: Seq<K>) -> Seq<(K, V)> { ks.map_values(|k: K| (k, m[k])) }
/// the map built by inserting the entries in order
pub open spec fn map_of<K, V>(s: Seq<(K, V)>) -> Map<K, V>
    decreases s.len()
{
    if s.len() == 0 { Map::empty() } else { map_of(s.drop_last()).insert(s.last().0, s.last().1) }
}
pub open spec fn map_decodes_to<K: Wire, V: Wire>(before: Seq<u8>, r: Option<Map<K, V>>, after: Seq<u8>) -> bool {
    forall|s: Seq<(K, V)>, tail: Seq<u8>| #![trigger seq_bytes(s) + tail] (before == seq_bytes(s) + tail && s.len() <= usize::MAX) ==>
        (r matches Some(w) && after == tail && exists|g: Seq<(K, V)>| #[trigger] map_of(g) == w && seq_bytes(g) == seq_bytes(s))
}
pub trait MapEncode<K: Wire, V: Wire> {
    spec fn mview(&self) -> Map<K, V>;
    spec fn hasher_ok() -> bool;
    fn encode<E: Encoder + ?Sized>(&self, encoder: &mut E, plugin: &Plugin, session: &mut Session) -> (r: io::Result<()>)
        requires obeys_key_model::<K>(), Self::hasher_ok()
        ensures r is Ok ==> exists|ks: Seq<K>| #![trigger is_order(ks, self.mview())] is_order(ks, self.mview()) && ks.len() <= usize::MAX
            && final(encoder).out() =~= old(encoder).out() + seq_bytes(entries(self.mview(), ks));
}
pub trait MapDecode<K: Wire, V: Wire>: Sized {
    spec fn mview(&self) -> Map<K, V>;
    spec fn hasher_ok() -> bool;
    fn decode<D: Decoder + ?Sized>(decoder: &mut D, plugin: &Plugin, session: &mut Session) -> (r: io::Result<Self>)
        requires obeys_key_model::<K>(), Self::hasher_ok()
        ensures map_decodes_to::<K, V>(old(decoder).rest(), match r { Ok(w) => Some(w.mview()), Err(_) => None }, final(decoder).rest());
}
/// std (trusted): an empty map with the given hasher
pub assume_specification<K, V, S>[ HashMap::<K, V, S>::with_capacity_and_hasher ](capacity: usize, hasher: S) -> (r: HashMap<K, V, S>)
    ensures r@ == Map::<K, V>::empty();

//@ impl crates/serialize/src/encode.rs :: impl<K: Encode, V: Encode, S: BuildHasher> Encode for HashMap<K, V, S>
//@ header-sub Encode for HashMap<K, V, S> => MapEncode<K, V> for HashMap<K, V, S>
//@ extra
    open spec fn mview(&self) -> Map<K, V> { self@ }
    open spec fn hasher_ok() -> bool { builds_valid_hashers::<S>() }
//@ member encode
//@ head
        broadcast use lemma_concat_take_step, lemma_take_all, lemma_cat_empty, lemma_cat_assoc;
        broadcast use group_hash_axioms;
        let ghost mut order: Seq<K> = Seq::empty();
//@ loop 0 iter __it
//@ loop 0 itercall
//@ loop 0 inv
            invariant
                obeys_key_model::<K>(), builds_valid_hashers::<S>(),
                order.len() == __it.index@,
                order =~= __it.snapshot@.remaining().take(__it.index@ as int).map_values(|kv: (&K, &V)| *kv.0),
                order.no_duplicates(),
                forall|k: K| order.contains(k) ==> self@.contains_key(k),
                encoder.out() =~= old(encoder).out() + leb(self@.len()) + concat(entries(self@, order)),
                __it.index@ == __it.snapshot@.remaining().len() ==> (forall|k: K| self@.contains_key(k) ==> order.contains(k)),
                __it.snapshot@.remaining().len() == self@.len(), self@.len() <= usize::MAX,
//@ loop 0 head
            let ghost order0 = order;
            let ghost out0 = encoder.out();
            proof { order = order0.push(*key); }
            proof {
                let rem = __it.snapshot@.remaining();
                let i = __it.index@ as int;
                assert(*rem[i].0 == *key && *rem[i].1 == *value);
                assert(self@.contains_key(*key) && self@[*key] == *value);
                assert forall|j: int| 0 <= j < i implies order0[j] != *key by {
                    assert(order0[j] == *rem.take(i)[j].0);
                    if order0[j] == *key { assert(*rem[j].1 == self@[*rem[j].0]); assert(rem[j] == rem[i]); }
                }
                assert(rem.take(i + 1) =~= rem.take(i).push(rem[i]));
                assert(entries(self@, order) =~= entries(self@, order0).push((*key, *value)));
                lemma_concat_push(entries(self@, order0), (*key, *value));
                assert forall|k: K| i + 1 == rem.len() && self@.contains_key(k) implies order.contains(k) by {
                    assert(rem.take(i + 1) =~= rem);
                    let w = choose|w: int| 0 <= w < rem.len() && *(#[trigger] rem[w]).0 == k;
                    assert(order[w] == k);
                }
            }
//@ loop 0 tail
            proof {
                assert(encoder.out() =~= out0 + (*key, *value).bytes());
            }
//@ loop 0 after
        proof {
            assert(is_order(order, self@));
            assert(order.len() == self@.len() && entries(self@, order).len() == order.len());
            assert(seq_bytes(entries(self@, order)) =~= leb(self@.len()) + concat(entries(self@, order)));
            assert(encoder.out() =~= old(encoder).out() + seq_bytes(entries(self@, order)));
            assert(is_order(order, self.mview()) && order.len() <= usize::MAX);
        }
//@ end


/// decoding a key and then a value is decoding the pair (images concatenate; the key decoder is exact)
pub proof fn lemma_pair_decodes<K: Wire, V: Wire>(b0: Seq<u8>, rk: io::Result<K>, b1: Seq<u8>, rv: io::Result<V>, b2: Seq<u8>)
    requires decodes_to::<K>(b0, rk, b1), rk is Ok ==> decodes_to::<V>(b1, rv, b2)
    ensures
        (rk is Ok && rv is Ok) ==> decodes_to::<(K, V)>(b0, Ok((rk->Ok_0, rv->Ok_0)), b2),
        (rk is Err || rv is Err) ==> forall|p: (K, V), tail: Seq<u8>| #![trigger p.bytes() + tail] b0 != p.bytes() + tail,
{
    broadcast use lemma_cat_assoc;
    assert forall|p: (K, V), tail: Seq<u8>| #![trigger p.bytes() + tail] b0 == p.bytes() + tail implies
        (rk matches Ok(k) && rv matches Ok(v) && (k, v).bytes() == p.bytes() && b2 == tail) by {
        assert(p.bytes() + tail =~= p.0.bytes() + (p.1.bytes() + tail));
        assert(rk is Ok && (rk->Ok_0).bytes() == p.0.bytes() && b1 == p.1.bytes() + tail);
    }
}
/// what the input must look like at the head of an iteration, split into key image and the rest
pub proof fn lemma_map_dec_peek<K: Wire, V: Wire>(before: Seq<u8>, len: usize, got: Seq<(K, V)>, rest: Seq<u8>)
    requires seq_dec_inv::<(K, V)>(before, len, got, rest), got.len() < len
    ensures forall|s: Seq<(K, V)>, tail: Seq<u8>| #![trigger seq_bytes(s) + tail] (before == seq_bytes(s) + tail && s.len() <= usize::MAX) ==>
        rest == s[got.len() as int].0.bytes() + (s[got.len() as int].1.bytes() + (concat(s.skip(got.len() as int + 1)) + tail))
{
    broadcast use lemma_cat_assoc;
    lemma_seq_dec_peek(before, len, got, rest);
    assert forall|s: Seq<(K, V)>, tail: Seq<u8>| #![trigger seq_bytes(s) + tail] (before == seq_bytes(s) + tail && s.len() <= usize::MAX) implies
        rest == s[got.len() as int].0.bytes() + (s[got.len() as int].1.bytes() + (concat(s.skip(got.len() as int + 1)) + tail)) by {
        let x = s[got.len() as int];
        assert(x.bytes() + (concat(s.skip(got.len() as int + 1)) + tail) =~= x.0.bytes() + (x.1.bytes() + (concat(s.skip(got.len() as int + 1)) + tail)));
    }
}

//@ impl crates/serialize/src/decode.rs :: impl<K, V, S> Decode for HashMap<K, V, S> where K: Decode + Eq + Hash, V: Decode, S: BuildHasher + Default,
//@ header-sub Decode for HashMap<K, V, S> => MapDecode<K, V> for HashMap<K, V, S>
//@ extra
    open spec fn mview(&self) -> Map<K, V> { self@ }
    open spec fn hasher_ok() -> bool { builds_valid_hashers::<S>() }
//@ member decode
//@ head
        broadcast use lemma_seq_bytes_as_usize, lemma_take0, lemma_skip0, lemma_cat_empty;
        broadcast use group_hash_axioms;
        let ghost before = decoder.rest();
        let ghost mut got: Seq<(K, V)> = Seq::empty();
//@ loop 0 iter __it
//@ loop 0 inv
            invariant
                obeys_key_model::<K>(), builds_valid_hashers::<S>(),
                before == old(decoder).rest(),
                seq_dec_inv::<(K, V)>(before, len, got, decoder.rest()),
                got.len() == __it.index@,
                map@ == map_of(got),
//@ loop 0 head
            broadcast use lemma_seq_bytes_as_usize;
            let ghost rest0 = decoder.rest();
            let ghost got0 = got;
            proof { lemma_map_dec_peek(before, len, got0, rest0); }
//@ text-sub let value = V::decode(decoder, plugin, session)?; => let ghost rest1 = decoder.rest(); let value = V::decode(decoder, plugin, session)?; proof { lemma_pair_decodes::<K, V>(rest0, Ok(key), rest1, Ok(value), decoder.rest()); got = got0.push((key, value)); }
//@ loop 0 tail
            proof {
                lemma_seq_dec_step::<(K, V)>(before, len, got0, rest0, Ok(got.last()), decoder.rest());
                assert(got.drop_last() =~= got0);
            }
//@ loop 0 after
        proof {
            lemma_seq_dec_done::<(K, V)>(before, len, got, decoder.rest());
            assert(map_of(got) == map@);
        }
//@ end


// ---- the round trip of a hash map
pub open spec fn wire_injective<T: Wire>() -> bool { forall|a: T, b: T| a.bytes() == b.bytes() ==> a == b }
/// sequences of equal length with equal concatenated images are equal, element images being prefix-free and injective
pub proof fn lemma_concat_injective<T: Decode>(a: Seq<T>, b: Seq<T>)
    requires a.len() == b.len(), concat(a) == concat(b), wire_injective::<T>()
    ensures a == b
    decreases a.len()
{
    broadcast use lemma_cat_empty;
    if a.len() > 0 {
        T::prefix_free(&a[0], &b[0], concat(a.skip(1)), concat(b.skip(1)));
        lemma_concat_injective(a.skip(1), b.skip(1));
        assert(a =~= seq![a[0]] + a.skip(1));
        assert(b =~= seq![b[0]] + b.skip(1));
    } else {
        assert(a =~= b);
    }
}
pub proof fn lemma_seq_bytes_injective<T: Decode>(a: Seq<T>, b: Seq<T>)
    requires seq_bytes(a) == seq_bytes(b), wire_injective::<T>()
    ensures a == b
{
    broadcast use lemma_cat_empty;
    lemma_leb_prefix_free(a.len(), b.len(), concat(a), concat(b));
    lemma_concat_injective(a, b);
}
pub proof fn lemma_pair_wire_injective<K: Decode, V: Decode>()
    requires wire_injective::<K>(), wire_injective::<V>()
    ensures wire_injective::<(K, V)>()
{
    broadcast use lemma_cat_empty;
    assert forall|a: (K, V), b: (K, V)| a.bytes() == b.bytes() implies a == b by {
        K::prefix_free(&a.0, &b.0, a.1.bytes(), b.1.bytes());
    }
}
/// inserting the entries of m in any duplicate-free enumeration of part of its keys builds m restricted to those keys
pub proof fn lemma_map_of_entries<K, V>(m: Map<K, V>, ks: Seq<K>)
    requires ks.no_duplicates(), forall|k: K| ks.contains(k) ==> m.contains_key(k)
    ensures map_of(entries(m, ks)) =~= m.restrict(ks.to_set())
    decreases ks.len()
{
    if ks.len() > 0 {
        let ks0 = ks.drop_last();
        assert(entries(m, ks).drop_last() =~= entries(m, ks0));
        assert forall|k: K| ks0.contains(k) implies m.contains_key(k) by { assert(ks.contains(k)); }
        lemma_map_of_entries(m, ks0);
        assert(ks.contains(ks.last()));
        assert(ks.to_set() =~= ks0.to_set().insert(ks.last())) by {
            assert forall|k: K| ks.to_set().contains(k) <==> ks0.to_set().insert(ks.last()).contains(k) by {
                if ks.contains(k) { let i = ks.index_of(k); if i < ks0.len() { assert(ks0[i] == k); } }
                if ks0.contains(k) { let i = ks0.index_of(k); assert(ks[i] == k); }
            }
        }
    } else {
        assert(ks.to_set() =~= Set::<K>::empty());
    }
}
/// ROUND TRIP: whatever enumeration `ks` the encoder used for a map with view m, a decoder result that satisfies the
/// MapDecode contract on that image has view m (element images injective: proved per leaf type, structural otherwise)
pub proof fn lemma_hashmap_roundtrip<K: Decode, V: Decode>(m: Map<K, V>, ks: Seq<K>, w: Map<K, V>)
    requires
        is_order(ks, m), wire_injective::<K>(), wire_injective::<V>(),
        exists|g: Seq<(K, V)>| #[trigger] map_of(g) == w && seq_bytes(g) == seq_bytes(entries(m, ks)),
    ensures w =~= m
{
    let g = choose|g: Seq<(K, V)>| #[trigger] map_of(g) == w && seq_bytes(g) == seq_bytes(entries(m, ks));
    lemma_pair_wire_injective::<K, V>();
    lemma_seq_bytes_injective::<(K, V)>(g, entries(m, ks));
    lemma_map_of_entries(m, ks);
    assert(m.restrict(ks.to_set()) =~= m);
}


// ---- HashSet: count + elements in iteration order (same scheme)
pub open spec fn is_enum<T>(xs: Seq<T>, s: Set<T>) -> bool { xs.no_duplicates() && (forall|x: T| xs.contains(x) <==> s.contains(x)) }
pub open spec fn set_decodes_to<T: Wire>(before: Seq<u8>, r: Option<Set<T>>, after: Seq<u8>) -> bool {
    forall|s: Seq<T>, tail: Seq<u8>| #![trigger seq_bytes(s) + tail] (before == seq_bytes(s) + tail && s.len() <= usize::MAX) ==>
        (r matches Some(w) && after == tail && exists|g: Seq<T>| #[trigger] g.to_set() == w && seq_bytes(g) == seq_bytes(s))
}
pub trait SetEncode<T: Wire> {
    spec fn sview(&self) -> Set<T>;
    spec fn hasher_ok() -> bool;
    fn encode<E: Encoder + ?Sized>(&self, encoder: &mut E, plugin: &Plugin, session: &mut Session) -> (r: io::Result<()>)
        requires obeys_key_model::<T>(), Self::hasher_ok()
        ensures r is Ok ==> exists|xs: Seq<T>| #![trigger is_enum(xs, self.sview())] is_enum(xs, self.sview()) && xs.len() <= usize::MAX
            && final(encoder).out() =~= old(encoder).out() + seq_bytes(xs);
}
pub trait SetDecode<T: Wire>: Sized {
    spec fn sview(&self) -> Set<T>;
    spec fn hasher_ok() -> bool;
    fn decode<D: Decoder + ?Sized>(decoder: &mut D, plugin: &Plugin, session: &mut Session) -> (r: io::Result<Self>)
        requires obeys_key_model::<T>(), Self::hasher_ok()
        ensures set_decodes_to::<T>(old(decoder).rest(), match r { Ok(w) => Some(w.sview()), Err(_) => None }, final(decoder).rest());
}
pub assume_specification<T, S>[ HashSet::<T, S>::with_capacity_and_hasher ](capacity: usize, hasher: S) -> (r: HashSet<T, S>)
    ensures r@ == Set::<T>::empty();

//@ impl crates/serialize/src/encode.rs :: impl<T: Encode, S: BuildHasher> Encode for HashSet<T, S>
//@ header-sub Encode for HashSet<T, S> => SetEncode<T> for HashSet<T, S>
//@ extra
    open spec fn sview(&self) -> Set<T> { self@ }
    open spec fn hasher_ok() -> bool { builds_valid_hashers::<S>() }
//@ member encode
//@ head
        broadcast use lemma_concat_take_step, lemma_take_all, lemma_cat_empty, lemma_cat_assoc;
        broadcast use group_hash_axioms;
        let ghost mut order: Seq<T> = Seq::empty();
//@ loop 0 iter __it
//@ loop 0 itercall
//@ loop 0 inv
            invariant
                obeys_key_model::<T>(), builds_valid_hashers::<S>(),
                __it.snapshot@.remaining().len() == self@.len(), self@.len() <= usize::MAX,
                order.len() == __it.index@,
                order =~= __it.snapshot@.remaining().unref().take(__it.index@ as int),
                order.no_duplicates(),
                forall|x: T| order.contains(x) ==> self@.contains(x),
                encoder.out() =~= old(encoder).out() + leb(self@.len()) + concat(order),
                __it.index@ == __it.snapshot@.remaining().len() ==> (forall|x: T| self@.contains(x) ==> order.contains(x)),
//@ loop 0 head
            let ghost order0 = order;
            proof { order = order0.push(*item); }
            proof {
                let xs = __it.snapshot@.remaining().unref();
                let i = __it.index@ as int;
                assert(xs[i] == *item);
                assert(xs.take(i + 1) =~= xs.take(i).push(xs[i]));
                assert(xs.to_set().contains(xs[i]));
                assert forall|j: int| 0 <= j < i implies order0[j] != *item by { assert(order0[j] == xs[j]); }
                lemma_concat_push(order0, *item);
                assert forall|x: T| i + 1 == xs.len() && self@.contains(x) implies order.contains(x) by {
                    assert(xs.take(i + 1) =~= xs);
                    assert(xs.to_set().contains(x));
                }
            }
//@ loop 0 after
        proof {
            assert(is_enum(order, self.sview()) && order.len() == self@.len());
            assert(encoder.out() =~= old(encoder).out() + seq_bytes(order));
        }
//@ end

//@ impl crates/serialize/src/decode.rs :: impl<T, S> Decode for HashSet<T, S> where T: Decode + Eq + Hash, S: BuildHasher + Default,
//@ header-sub Decode for HashSet<T, S> => SetDecode<T> for HashSet<T, S>
//@ extra
    open spec fn sview(&self) -> Set<T> { self@ }
    open spec fn hasher_ok() -> bool { builds_valid_hashers::<S>() }
//@ member decode
//@ head
        broadcast use lemma_seq_bytes_as_usize, lemma_take0, lemma_skip0, lemma_cat_empty;
        broadcast use group_hash_axioms;
        let ghost before = decoder.rest();
        let ghost mut got: Seq<T> = Seq::empty();
//@ loop 0 iter __it
//@ loop 0 inv
            invariant
                obeys_key_model::<T>(), builds_valid_hashers::<S>(),
                before == old(decoder).rest(),
                seq_dec_inv::<T>(before, len, got, decoder.rest()),
                got.len() == __it.index@,
                set@ =~= got.to_set(),
//@ loop 0 head
            broadcast use lemma_seq_bytes_as_usize;
            let ghost rest0 = decoder.rest();
            let ghost got0 = got;
            let ghost set0 = set@;
            proof { lemma_seq_dec_peek(before, len, got0, rest0); }
//@ loop 0 tail
            proof {
                // the element that was decoded and inserted (an unnamed temporary of the source statement)
                let x = choose|x: T| set@ == set0.insert(x) && decodes_to::<T>(rest0, Ok(x), decoder.rest());
                got = got0.push(x);
            }
            proof {
                lemma_seq_dec_step::<T>(before, len, got0, rest0, Ok(got.last()), decoder.rest());
                assert(got.to_set() =~= got0.to_set().insert(got.last())) by {
                    assert forall|y: T| got.to_set().contains(y) <==> got0.to_set().insert(got.last()).contains(y) by {
                        if got.contains(y) { let i = got.index_of(y); if i < got0.len() { assert(got0[i] == y); } }
                        if got0.contains(y) { let i = got0.index_of(y); assert(got[i] == y); }
                        if y == got.last() { assert(got[got0.len() as int] == y); }
                    }
                }
            }
//@ loop 0 after
        proof {
            lemma_seq_dec_done::<T>(before, len, got, decoder.rest());
            assert(got.to_set() =~= set@);
        }
//@ end

/// ROUND TRIP of a hash set
pub proof fn lemma_hashset_roundtrip<T: Decode>(m: Set<T>, xs: Seq<T>, w: Set<T>)
    requires
        is_enum(xs, m), wire_injective::<T>(),
        exists|g: Seq<T>| #[trigger] g.to_set() == w && seq_bytes(g) == seq_bytes(xs),
    ensures w =~= m
{
    let g = choose|g: Seq<T>| #[trigger] g.to_set() == w && seq_bytes(g) == seq_bytes(xs);
    lemma_seq_bytes_injective::<T>(g, xs);
    assert forall|x: T| xs.to_set().contains(x) <==> m.contains(x) by { assert(xs.to_set().contains(x) <==> xs.contains(x)); }
}


// ---------------------------------------------------------------- Cow: written as the borrowed form, read as the owned form
// `Encode for Cow<T>` needs `T: Encode`, `Decode for Cow<T>` needs `T::Owned: Decode` and knows nothing about T's image: the two
// halves meet only where the image of a borrowed value equals the image of its owned form. So they get their own contract
// traits (HDR), and the meeting point is stated per ToOwned pair (lemma_cow_pairs: str/String, [T]/Vec<T> have the same image).
/// std model (trusted): what a Cow dereferences to, whichever variant it is
pub uninterp spec fn cow_view<'a, 'b, T: ?Sized + ToOwned>(c: &'b Cow<'a, T>) -> &'b T;
pub assume_specification<'a, 'b, T: ?Sized + ToOwned>[ <Cow<'a, T> as std::ops::Deref>::deref ](c: &'b Cow<'a, T>) -> (r: &'b T)
    ensures r == cow_view(c);
pub trait CowEncode {
    spec fn borrowed_bytes(&self) -> Seq<u8>;
    fn encode<E: Encoder + ?Sized>(&self, encoder: &mut E, plugin: &Plugin, session: &mut Session) -> (r: io::Result<()>)
        ensures r is Ok ==> final(encoder).out() =~= old(encoder).out() + self.borrowed_bytes();
}
pub trait CowDecode<O: Wire>: Sized {
    /// the owned value inside (None for a borrowed Cow)
    spec fn owned(&self) -> Option<O>;
    fn decode<D: Decoder + ?Sized>(decoder: &mut D, plugin: &Plugin, session: &mut Session) -> (r: io::Result<Self>)
        ensures forall|v: O, tail: Seq<u8>| #![trigger v.bytes() + tail] old(decoder).rest() == v.bytes() + tail ==>
            (r matches Ok(c) && c.owned() matches Some(w) && w.bytes() == v.bytes() && final(decoder).rest() == tail);
}
//@ impl crates/serialize/src/encode.rs :: impl<T: Encode + ToOwned + ?Sized> Encode for Cow<'_, T>
//@ header-sub Encode for Cow<'_, T> => CowEncode for Cow<'_, T>
//@ extra
    open spec fn borrowed_bytes(&self) -> Seq<u8> { cow_view(self).bytes() }
//@ member encode
//@ end
//@ impl crates/serialize/src/decode.rs :: impl<T: ToOwned + ?Sized> Decode for Cow<'_, T> where T::Owned: Decode,
//@ header-sub Decode for Cow<'_, T> => CowDecode<T::Owned> for Cow<'_, T>
//@ extra
    open spec fn owned(&self) -> Option<T::Owned> { match self { Cow::Owned(o) => Some(*o), Cow::Borrowed(_) => None } }
//@ member decode
//@ end
/// where the two halves meet: a borrowed string / slice has the image of its owned form
pub proof fn lemma_cow_pairs<T: Wire>(s: &str, o: String, xs: &[T], v: Vec<T>)
    ensures
        s@ == o@ ==> <str as Wire>::bytes(s) == <String as Wire>::bytes(&o),
        xs@ == v@ ==> <[T] as Wire>::bytes(xs) == <Vec<T> as Wire>::bytes(&v),
{
}

} // verus!
fn main() {}
