// C10 — the sequential kernel of the write-behind pipeline (crates/storage/src/write_manager/write_behind.rs):
// reorder buffer, physical grouping, final flush. Plain lines = specification; `//@` = real source text.
#![feature(allocator_api)]
#![allow(unused_imports, unused_variables, dead_code, non_snake_case)]
use vstd::prelude::*;
use vstd::std_specs::cmp::*;
use std::alloc::Allocator;
use std::collections::BinaryHeap;
use std::ops::Not;
use std::sync::Arc;
verus! {

// ---------------------------------------------------------------- interface stand-ins (declarations only)
// The three storage traits, reduced to the methods the kernel calls. Ghost state:
//   tag()      which logical batch (epoch) a serialization buffer holds
//   pending()  the tags a physical batch has consumed so far, in order
//   committed  event: a physical batch holding exactly these tags (in this order) was committed to the store
pub uninterp spec fn committed(tags: Seq<int>) -> bool;

pub trait KvSerializationBuffer {
    spec fn tag(&self) -> int;
}

pub trait KvWriteBatch: Sized {
    type SerializationBuffer: KvSerializationBuffer;
    spec fn pending(&self) -> Seq<int>;
    /// consume = append the buffer's operations to the physical batch
    fn consume_serialization_buffer(&mut self, buffer: Self::SerializationBuffer)
        ensures final(self).pending() == old(self).pending().push(buffer.tag());
    /// commit = one atomic store write of everything consumed (atomicity itself: trusted backend, C11)
    fn commit(self)
        ensures committed(self.pending());
    fn should_write_more(&self) -> bool;
}

pub trait KvDatabase: Sized {
    type WriteBatch: KvWriteBatch<SerializationBuffer = Self::SerializationBuffer>;
    type SerializationBuffer: KvSerializationBuffer;
    fn write_batch(&self) -> (r: Self::WriteBatch)
        ensures r.pending().len() == 0;
    fn serialization_buffer(&self) -> Self::SerializationBuffer;
}

//@ struct crates/storage/src/write_manager/write_behind.rs :: Epoch
#[derive(Clone, Copy, PartialEq, Eq, PartialOrd, Ord, Structural)]
//@ end

/// struct stand-in (field subset): the kernel only reads `epoch` and writes `active`;
/// the real struct additionally holds the staged writes (maps of `dyn WriteEntry`)
pub struct WriteBatch<Db: KvDatabase> {
    pub epoch: Epoch,
    pub active: bool,
    pub _p: core::marker::PhantomData<Db>,
}

//@ struct crates/storage/src/write_manager/write_behind.rs :: AfterCommitTask
//@ struct crates/storage/src/write_manager/write_behind.rs :: SerializeTask
//@ struct crates/storage/src/write_manager/write_behind.rs :: WriteTask
//@ struct crates/storage/src/write_manager/write_behind.rs :: CurrentBatch

/// struct stand-in (field subset): thread handles, pool and the shutdown flag are not touched by the functions under contract
#[verifier::reject_recursive_types(Db)]
pub struct WriteBehind<Db: KvDatabase> {
    pub serialize_sender: Option<crossbeam_channel::Sender<SerializeTask<Db>>>,
}

impl<Db: KvDatabase> crossbeam_channel::Msg for SerializeTask<Db> { open spec fn wf_msg(&self) -> bool { true } }
impl<Db: KvDatabase> crossbeam_channel::Msg for AfterCommitTask<Db> { open spec fn wf_msg(&self) -> bool { true } }
/// only tasks whose buffer is the serialization of their own batch may enter the committer's channel
impl<Db: KvDatabase> crossbeam_channel::Msg for WriteTask<Db> { open spec fn wf_msg(&self) -> bool { task_wf(self) } }

/// event: the caches were told that the batch of this epoch is durable (un-pin / trim of the staging logs: C09)
pub uninterp spec fn notified(epoch: int) -> bool;
/// struct stand-in for the per-thread buffer pool (ThreadLocal<RefCell<Vec<..>>> + epoch counter: not under contract)
#[verifier::external_body]
#[verifier::reject_recursive_types(Db)]
pub struct WriteBufferPool<Db: KvDatabase> { _p: core::marker::PhantomData<Db> }
impl<Db: KvDatabase> WriteBufferPool<Db> {
    /// a buffer is recycled only after the caches were notified for the batch it carried
    #[verifier::external_body]
    pub fn return_buffer(&self, buffer: WriteBatch<Db>)
        requires notified(buffer.epoch.0 as int)
    { unimplemented!() }
}
impl<Db: KvDatabase> WriteBatch<Db> {
    /// stand-in for WriteBatch::after_commit (walks the maps of `dyn WriteEntry` and calls the caches' flush): the
    /// notification must carry the batch's OWN epoch
    #[verifier::external_body]
    pub fn after_commit(&mut self, epoch: Epoch)
        requires epoch == old(self).epoch
        ensures notified(old(self).epoch.0 as int), final(self).epoch == old(self).epoch, final(self).active == old(self).active
    { unimplemented!() }
}
//@ impl crates/storage/src/write_manager/write_behind.rs :: impl<Db: KvDatabase> WriteBatch<Db>
//@ member epoch
//@ ret r
//@ sig
        ensures r == self.epoch
//@ end
impl<Db: KvDatabase> WriteBatch<Db> {
    /// stand-in for WriteBatch::write_to_db (not under contract: iterates maps of `dyn WriteEntry`): afterwards the
    /// serialization buffer holds this batch's operations
    #[verifier::external_body]
    pub fn write_to_db(&self, tx: &mut Db::SerializationBuffer)
        ensures final(tx).tag() == self.epoch.0 as int
    { unimplemented!() }
}

// ---------------------------------------------------------------- std / crossbeam models (trusted)
pub open spec fn u64_cmp(a: u64, b: u64) -> std::cmp::Ordering {
    if a < b { std::cmp::Ordering::Less } else if a == b { std::cmp::Ordering::Equal } else { std::cmp::Ordering::Greater }
}
/// #[derive(Ord)] on the one-field tuple struct compares the field
pub assume_specification[ <Epoch as Ord>::cmp ](a: &Epoch, b: &Epoch) -> (r: std::cmp::Ordering)
    ensures r == u64_cmp(a.0, b.0);

#[verifier::external_type_specification]
#[verifier::external_body]
#[verifier::accept_recursive_types(T)]
#[verifier::reject_recursive_types(A)]
pub struct ExBinaryHeap<T, A: Allocator>(BinaryHeap<T, A>);

/// ghost content of a heap, in an abstract order (the real iteration order is unspecified, as in std)
pub uninterp spec fn heap_view<T, A: Allocator>(h: &BinaryHeap<T, A>) -> Seq<T>;
/// `t` is a greatest element of `s` w.r.t. `Ord`
pub uninterp spec fn is_top<T>(s: Seq<T>, t: T) -> bool;

#[verifier::external_body]
pub broadcast proof fn axiom_is_top<T: Ord>(s: Seq<T>, t: T, i: int)
    requires is_top(s, t), 0 <= i < s.len()
    ensures !(#[trigger] s[i].cmp_spec(&t) is Greater), #[trigger] is_top(s, t)
{
}

pub assume_specification<T>[ BinaryHeap::<T>::new ]() -> (r: BinaryHeap<T>)
    ensures heap_view(&r).len() == 0;

pub assume_specification<T, A: Allocator>[ BinaryHeap::<T, A>::peek ](h: &BinaryHeap<T, A>) -> (r: Option<&T>)
    ensures
        heap_view(h).len() == 0 <==> r is None,
        r matches Some(t) ==> heap_view(h).contains(*t) && is_top(heap_view(h), *t);

pub assume_specification<T: Ord, A: Allocator>[ BinaryHeap::<T, A>::pop ](h: &mut BinaryHeap<T, A>) -> (r: Option<T>)
    ensures
        heap_view(old(h)).len() == 0 <==> r is None,
        r matches Some(t) ==> is_top(heap_view(old(h)), t) && exists|i: int| 0 <= i < heap_view(old(h)).len()
            && heap_view(old(h))[i] == t && heap_view(final(h)) == heap_view(old(h)).remove(i);

pub assume_specification<T: Ord, A: Allocator>[ BinaryHeap::<T, A>::push ](h: &mut BinaryHeap<T, A>, x: T)
    ensures heap_view(final(h)) == heap_view(old(h)).push(x);

pub assume_specification<T, A: Allocator>[ BinaryHeap::<T, A>::is_empty ](h: &BinaryHeap<T, A>) -> (r: bool)
    ensures r == (heap_view(h).len() == 0);

pub assume_specification<T>[ std::mem::drop ](x: T);

pub assume_specification<T>[ std::mem::replace ](dest: &mut T, src: T) -> (r: T)
    ensures r == *old(dest), *final(dest) == src;

/// `mem::take` leaves `Default::default()`; for Vec that is the empty vector
pub uninterp spec fn default_value<T>() -> T;
pub assume_specification<T: std::default::Default>[ std::mem::take ](dest: &mut T) -> (r: T)
    ensures r == *old(dest), *final(dest) == default_value::<T>();
#[verifier::external_body]
pub broadcast proof fn axiom_vec_default<T>()
    ensures (#[trigger] default_value::<Vec<T>>())@.len() == 0
{
}

/// interface stand-in for the external crate `crossbeam_channel` (declarations only; single-file units have no dependencies).
/// Model: unbounded channel whose receiver outlives its senders (shutdown order of Drop for WriteBehind: trusted), so send succeeds;
/// recv yields an arbitrary message or reports that all senders are gone.
pub mod crossbeam_channel {
    use vstd::prelude::*;
    #[verifier::external_body]
    #[verifier::reject_recursive_types(T)]
    pub struct Sender<T> { _p: core::marker::PhantomData<T> }
    #[verifier::external_body]
    #[verifier::reject_recursive_types(T)]
    pub struct Receiver<T> { _p: core::marker::PhantomData<T> }
    #[verifier::external_body]
    #[verifier::reject_recursive_types(T)]
    pub struct SendError<T> { _p: core::marker::PhantomData<T> }
    #[verifier::external_body]
    pub struct RecvError { _p: u8 }
    #[verifier::external]
    impl<T> core::fmt::Debug for SendError<T> { fn fmt(&self, f: &mut core::fmt::Formatter<'_>) -> core::fmt::Result { Ok(()) } }
    #[verifier::external]
    impl core::fmt::Debug for RecvError { fn fmt(&self, f: &mut core::fmt::Formatter<'_>) -> core::fmt::Result { Ok(()) } }
    /// what a message of this channel must satisfy when it is sent (per message type, see `impl Msg`)
    pub trait Msg: Sized { spec fn wf_msg(&self) -> bool; }
    /// event: message t was handed to channel s
    pub uninterp spec fn sent<T>(s: &Sender<T>, t: T) -> bool;
    impl<T: Msg> Sender<T> {
        #[verifier::external_body]
        pub fn send(&self, t: T) -> (r: Result<(), SendError<T>>)
            requires t.wf_msg()
            ensures r is Ok, sent(self, t)
        { unimplemented!() }
    }
    impl<T> Receiver<T> {
        #[verifier::external_body]
        pub fn recv(&self) -> (r: Result<T, RecvError>)
        { unimplemented!() }
    }
}

/// interface stand-in for std's AtomicBool / atomic::Ordering as used by the kernel: a load yields an arbitrary bool
/// (no memory-model reasoning: the shutdown flag only selects between notifying the caches and skipping that)
#[verifier::external_body]
pub struct AtomicBool { _p: u8 }
#[derive(Clone, Copy)]
pub enum Ordering { Relaxed, Acquire, Release, AcqRel, SeqCst }
impl AtomicBool {
    #[verifier::external_body]
    pub fn load(&self, o: Ordering) -> (r: bool) { unimplemented!() }
}

// ---------------------------------------------------------------- specification vocabulary
pub open spec fn range(a: int, b: int) -> Seq<int>
    recommends a <= b
{
    Seq::new((b - a) as nat, |i: int| a + i)
}

pub open spec fn epochs<Db: KvDatabase>(s: Seq<WriteBatch<Db>>) -> Seq<int> {
    Seq::new(s.len(), |i: int| s[i].epoch.0 as int)
}

/// a task is well formed when its buffer is the serialization of its own batch
pub open spec fn task_wf<Db: KvDatabase>(t: &WriteTask<Db>) -> bool {
    t.serialize_buffer.tag() == t.write_buffer.epoch.0 as int
}

/// first epoch not yet committed to the store
pub open spec fn upto<Db: KvDatabase>(cb: &CurrentBatch<Db>) -> int {
    cb.expected_epoch.0 as int - cb.processed_logical_batch@.len()
}

/// representation invariant of the committer's state: the open physical batch holds exactly the logical
/// batches upto..expected_epoch, in epoch order
pub open spec fn cb_wf<Db: KvDatabase>(cb: &CurrentBatch<Db>) -> bool {
    &&& upto(cb) >= 0
    &&& cb.db_write_batch.pending() =~= range(upto(cb), cb.expected_epoch.0 as int)
    &&& epochs(cb.processed_logical_batch@) =~= range(upto(cb), cb.expected_epoch.0 as int)
}

/// hold-back queue: well-formed tasks, epochs pairwise distinct, none older than `from`
pub open spec fn heap_ok<Db: KvDatabase>(s: Seq<WriteTask<Db>>, from: int) -> bool {
    &&& forall|i: int| 0 <= i < s.len() ==> task_wf(&#[trigger] s[i]) && s[i].write_buffer.epoch.0 as int >= from
    &&& forall|i: int, j: int| 0 <= i < j < s.len() ==> (#[trigger] s[i]).write_buffer.epoch.0 != (#[trigger] s[j]).write_buffer.epoch.0
}

/// epoch e went to the store inside a committed group [x, y) that lies within [a, b) and is in epoch order
pub open spec fn epoch_committed(e: int, a: int, b: int) -> bool {
    exists|x: int, y: int| #[trigger] in_group(e, x, y) && a <= x && y <= b && committed(range(x, y))
}
pub open spec fn in_group(e: int, x: int, y: int) -> bool { x <= e < y }
/// every epoch in [a, b) did
pub open spec fn all_committed(a: int, b: int) -> bool {
    forall|e: int| a <= e < b ==> #[trigger] epoch_committed(e, a, b)
}

pub open spec fn task_cmp<Db: KvDatabase>(a: &WriteTask<Db>, b: &WriteTask<Db>) -> std::cmp::Ordering {
    u64_cmp(b.write_buffer.epoch.0, a.write_buffer.epoch.0)
}

// the spec side of the hand-written comparison impls: a min-heap by epoch
impl<Db: KvDatabase> PartialEqSpecImpl for WriteTask<Db> {
    open spec fn obeys_eq_spec() -> bool { true }
    open spec fn eq_spec(&self, other: &Self) -> bool { self.write_buffer.epoch.0 == other.write_buffer.epoch.0 }
}
impl<Db: KvDatabase> PartialOrdSpecImpl for WriteTask<Db> {
    open spec fn obeys_partial_cmp_spec() -> bool { true }
    open spec fn partial_cmp_spec(&self, other: &Self) -> Option<std::cmp::Ordering> { Some(task_cmp(self, other)) }
}
impl<Db: KvDatabase> OrdSpecImpl for WriteTask<Db> {
    open spec fn obeys_cmp_spec() -> bool { true }
    /// property: the hold-back queue yields the SMALLEST epoch first
    open spec fn cmp_spec(&self, other: &Self) -> std::cmp::Ordering { task_cmp(self, other) }
}

// ---------------------------------------------------------------- functions under contract
//@ impl crates/storage/src/write_manager/write_behind.rs :: impl<Db: KvDatabase> PartialEq for WriteTask<Db>
//@ member eq
//@ end
//@ impl crates/storage/src/write_manager/write_behind.rs :: impl<Db: KvDatabase> Eq for WriteTask<Db>
//@ end
//@ impl crates/storage/src/write_manager/write_behind.rs :: impl<Db: KvDatabase> PartialOrd for WriteTask<Db>
//@ member partial_cmp
//@ end
//@ impl crates/storage/src/write_manager/write_behind.rs :: impl<Db: KvDatabase> Ord for WriteTask<Db>
//@ member cmp
//@ end

pub proof fn lemma_range_push(a: int, b: int)
    requires a <= b
    ensures range(a, b).push(b) == range(a, b + 1), range(a, a).len() == 0
{
    assert(range(a, b).push(b) =~= range(a, b + 1));
}

pub proof fn lemma_all_committed_extend(a: int, m: int, b: int)
    requires a <= m <= b, all_committed(a, m), committed(range(m, b))
    ensures all_committed(a, b)
{
    assert forall|e: int| a <= e < b implies #[trigger] epoch_committed(e, a, b) by {
        if e < m {
            assert(epoch_committed(e, a, m));
            let (x, y) = choose|x: int, y: int| #[trigger] in_group(e, x, y) && a <= x && y <= m && committed(range(x, y));
            assert(in_group(e, x, y) && a <= x && y <= b && committed(range(x, y)));
        } else {
            assert(in_group(e, m, b));
        }
    }
}

//@ impl crates/storage/src/write_manager/write_behind.rs :: impl<Db: KvDatabase> CurrentBatch<Db>
//@ member flush
//@ sig
        requires cb_wf(old(self))
        ensures
            cb_wf(final(self)),
            final(self).expected_epoch == old(self).expected_epoch,
            final(self).processed_logical_batch@.len() == 0,
            // the group that was open is committed as ONE physical batch, in epoch order, whether or not we are shutting down
            committed(range(upto(old(self)), old(self).expected_epoch.0 as int)),
//@ head
        broadcast use axiom_vec_default;
        proof { lemma_range_push(self.expected_epoch.0 as int, self.expected_epoch.0 as int); }
//@ loop 0 inv
            invariant true,
//@ end


/// machine arithmetic made explicit: no queued epoch is u64::MAX (so `expected_epoch += 1` cannot overflow)
pub open spec fn epochs_below_max<Db: KvDatabase>(s: Seq<WriteTask<Db>>) -> bool {
    forall|i: int| 0 <= i < s.len() ==> (#[trigger] s[i]).write_buffer.epoch.0 < u64::MAX
}

/// number of write batches ever created = number of messages ever sent on the committer's channel (prophecy; uninterpreted)
pub uninterp spec fn chan_total<T>(r: &crossbeam_channel::Receiver<T>) -> int;

/// queue v together with the already applied prefix [0, e) accounts for exactly the epochs [0, total)
pub open spec fn covers<Db: KvDatabase>(v: Seq<WriteTask<Db>>, e: int, total: int) -> bool {
    &&& 0 <= e <= total
    &&& forall|x: int| 0 <= x < total ==> x < e || #[trigger] queued(v, x)
    &&& forall|x: int| #[trigger] queued(v, x) ==> x < total
}

/// if nothing that is still queued can be committed (all younger than e1) although every epoch below `total` is accounted
/// for, then nothing is queued at all and everything up to `total` has been applied
pub broadcast proof fn lemma_drained<Db: KvDatabase>(v0: Seq<WriteTask<Db>>, v1: Seq<WriteTask<Db>>, e0: int, e1: int, total: int)
    requires #[trigger] all_younger(v1, e1), #[trigger] queue_split(v0, v1, e0, e1), #[trigger] covers(v0, e0, total), e0 <= e1
    ensures v1.len() == 0, e1 == total
{
    if v1.len() > 0 {
        let m = v1[0].write_buffer.epoch.0 as int;
        assert(queued(v1, m));
        assert(queued(v0, m));
        assert(m < total && e1 < m);
        // e1 itself must be accounted for
        assert(e1 < e0 || queued(v0, e1));
        assert(queued(v0, e1) <==> (queued(v1, e1) || e0 <= e1 < e1));
        if queued(v1, e1) {
            let j = choose|j: int| 0 <= j < v1.len() && (#[trigger] v1[j]).write_buffer.epoch.0 as int == e1;
            assert(v1[j].write_buffer.epoch.0 as int > e1);
        }
        assert(false);
    }
    if e1 < total {
        assert(e1 < e0 || queued(v0, e1));
        assert(queued(v0, e1) <==> (queued(v1, e1) || e0 <= e1 < e1));
        if queued(v1, e1) {
            let j = choose|j: int| 0 <= j < v1.len() && (#[trigger] v1[j]).write_buffer.epoch.0 as int == e1;
        }
        assert(false);
    }
    if e1 > total {
        // e1 - 1 >= total was applied, so it was queued in v0 or below e0 <= total
        assert(queued(v0, e1 - 1) <==> (queued(v1, e1 - 1) || e0 <= e1 - 1 < e1));
        assert(e0 <= total);
        assert(queued(v0, e1 - 1));
        assert(false);
    }
}

pub proof fn lemma_push_facts<Db: KvDatabase>(v: Seq<WriteTask<Db>>, t: WriteTask<Db>, from: int)
    requires heap_ok(v, from), task_wf(&t), t.write_buffer.epoch.0 as int >= from, !queued(v, t.write_buffer.epoch.0 as int)
    ensures
        heap_ok(v.push(t), from),
        forall|e: int| #[trigger] queued(v.push(t), e) <==> (queued(v, e) || e == t.write_buffer.epoch.0 as int),
        epochs_below_max(v) && t.write_buffer.epoch.0 < u64::MAX ==> epochs_below_max(v.push(t)),
{
    let r = v.push(t);
    assert forall|i: int, j: int| 0 <= i < j < r.len() implies (#[trigger] r[i]).write_buffer.epoch.0 != (#[trigger] r[j]).write_buffer.epoch.0 by {
        if j == v.len() { assert(r[i] == v[i]); }
    }
    assert forall|e: int| #[trigger] queued(r, e) <==> (queued(v, e) || e == t.write_buffer.epoch.0 as int) by {
        if queued(r, e) {
            let j = choose|j: int| 0 <= j < r.len() && (#[trigger] r[j]).write_buffer.epoch.0 as int == e;
            if j < v.len() { assert(v[j] == r[j]); }
        }
        if queued(v, e) {
            let j = choose|j: int| 0 <= j < v.len() && (#[trigger] v[j]).write_buffer.epoch.0 as int == e;
            assert(r[j] == v[j]);
        }
        if e == t.write_buffer.epoch.0 as int { assert(r[v.len() as int] == t); }
    }
}

pub broadcast proof fn lemma_all_committed_trans_b(a: int, m: int, b: int)
    requires a <= m <= b, #[trigger] all_committed(a, m), #[trigger] all_committed(m, b)
    ensures all_committed(a, b)
{
    lemma_all_committed_trans(a, m, b);
}

pub broadcast proof fn lemma_all_committed_extend_b(a: int, m: int, b: int)
    requires a <= m <= b, #[trigger] all_committed(a, m), #[trigger] committed(range(m, b))
    ensures all_committed(a, b)
{
    lemma_all_committed_extend(a, m, b);
}

/// all tasks of the hold-back queue are strictly younger than `e`: nothing can be committed right now
pub open spec fn all_younger<Db: KvDatabase>(s: Seq<WriteTask<Db>>, e: int) -> bool {
    forall|i: int| 0 <= i < s.len() ==> (#[trigger] s[i]).write_buffer.epoch.0 as int > e
}

/// epoch e is waiting in the hold-back queue
pub open spec fn queued<Db: KvDatabase>(s: Seq<WriteTask<Db>>, e: int) -> bool {
    exists|i: int| 0 <= i < s.len() && (#[trigger] s[i]).write_buffer.epoch.0 as int == e
}
/// queue `a` holds exactly the epochs of queue `b` plus the interval [lo, hi)
pub open spec fn queue_split<Db: KvDatabase>(a: Seq<WriteTask<Db>>, b: Seq<WriteTask<Db>>, lo: int, hi: int) -> bool {
    forall|e: int| #[trigger] queued(a, e) <==> (queued(b, e) || lo <= e < hi)
}

pub proof fn lemma_remove_facts<Db: KvDatabase>(s: Seq<WriteTask<Db>>, i: int, from: int)
    requires 0 <= i < s.len(), heap_ok(s, from), s[i].write_buffer.epoch.0 as int == from
    ensures
        heap_ok(s.remove(i), from + 1),
        epochs_below_max(s) ==> epochs_below_max(s.remove(i)),
        forall|e: int| #[trigger] queued(s, e) <==> (queued(s.remove(i), e) || e == from),
        !queued(s.remove(i), from),
{
    let r = s.remove(i);
    assert forall|j: int| 0 <= j < r.len() implies task_wf(&#[trigger] r[j]) && r[j].write_buffer.epoch.0 as int >= from + 1 by {
        if j < i { assert(r[j] == s[j]); assert(s[j].write_buffer.epoch.0 != s[i].write_buffer.epoch.0); }
        else { assert(r[j] == s[j + 1]); assert(s[i].write_buffer.epoch.0 != s[j + 1].write_buffer.epoch.0); }
    }
    assert forall|j: int, k: int| 0 <= j < k < r.len() implies (#[trigger] r[j]).write_buffer.epoch.0 != (#[trigger] r[k]).write_buffer.epoch.0 by {
        let j2 = if j < i { j } else { j + 1 };
        let k2 = if k < i { k } else { k + 1 };
        assert(r[j] == s[j2] && r[k] == s[k2]);
    }
    assert forall|e: int| #[trigger] queued(s, e) <==> (queued(r, e) || e == from) by {
        if queued(s, e) {
            let j = choose|j: int| 0 <= j < s.len() && (#[trigger] s[j]).write_buffer.epoch.0 as int == e;
            if j != i {
                let j2 = if j < i { j } else { j - 1 };
                assert(r[j2] == s[j]);
            }
        }
        if queued(r, e) {
            let j = choose|j: int| 0 <= j < r.len() && (#[trigger] r[j]).write_buffer.epoch.0 as int == e;
            let j2 = if j < i { j } else { j + 1 };
            assert(s[j2] == r[j]);
        }
        if e == from { assert(s[i].write_buffer.epoch.0 as int == e); }
    }
    if queued(r, from) {
        let j = choose|j: int| 0 <= j < r.len() && (#[trigger] r[j]).write_buffer.epoch.0 as int == from;
        assert(r[j].write_buffer.epoch.0 as int >= from + 1);
    }
}

pub broadcast proof fn lemma_epochs_push<Db: KvDatabase>(s: Seq<WriteBatch<Db>>, x: WriteBatch<Db>)
    ensures #[trigger] epochs(s.push(x)) == epochs(s).push(x.epoch.0 as int)
{
    assert(epochs(s.push(x)) =~= epochs(s).push(x.epoch.0 as int));
}

pub proof fn lemma_all_committed_refl(a: int)
    ensures all_committed(a, a)
{
}

pub proof fn lemma_all_committed_trans(a: int, m: int, b: int)
    requires a <= m <= b, all_committed(a, m), all_committed(m, b)
    ensures all_committed(a, b)
{
    assert forall|e: int| a <= e < b implies #[trigger] epoch_committed(e, a, b) by {
        if e < m {
            assert(epoch_committed(e, a, m));
            let (x, y) = choose|x: int, y: int| #[trigger] in_group(e, x, y) && a <= x && y <= m && committed(range(x, y));
            assert(in_group(e, x, y) && a <= x && y <= b && committed(range(x, y)));
        } else {
            assert(epoch_committed(e, m, b));
            let (x, y) = choose|x: int, y: int| #[trigger] in_group(e, x, y) && m <= x && y <= b && committed(range(x, y));
            assert(in_group(e, x, y) && a <= x && y <= b && committed(range(x, y)));
        }
    }
}

//@ impl crates/storage/src/write_manager/write_behind.rs :: impl<Db: KvDatabase> WriteBehind<Db>
//@ member submit_write_batch
//@ sig
        requires self.serialize_sender is Some
        ensures
            // every submitted batch, whatever it contains, enters the pipeline: it is handed to the serializer channel
            crossbeam_channel::sent(&self.serialize_sender->0, SerializeTask { write_buffer }),
//@ member serialize_worker
//@ attr
    // termination depends on the channel being closed by Drop for WriteBehind: not verified
    #[verifier::exec_allows_no_decreases_clause]
//@ sig
        // obligation inside: every task forwarded to the committer is well formed (send's precondition)
//@ member after_commit_worker
//@ attr
    // termination depends on the channel being closed when the commit thread exits: not verified
    #[verifier::exec_allows_no_decreases_clause]
//@ sig
        // obligations inside (preconditions of the stand-ins): every received batch is either notified WITH ITS OWN EPOCH and
        // only then recycled, or -- when shutting down -- deactivated and dropped (no notification: the caches are going away)
//@ member commit_worker
//@ attr
    // termination of the receive loop depends on the channel being closed by Drop for WriteBehind: not verified
    #[verifier::exec_allows_no_decreases_clause]
//@ sig
        ensures
            // top level, from the property: by the time the committer exits, every batch that was ever created
            // (epochs 0 .. total) has reached the store, group by group, in creation order
            all_committed(0, chan_total(receiver)),
//@ head
        broadcast use lemma_all_committed_trans_b, lemma_all_committed_extend_b, lemma_drained;
        let ghost total = chan_total(receiver);
        let ghost mut seen: Set<int> = Set::empty();
        proof {
            // ARITHMETIC ASSUMPTION: fewer than 2^64 - 1 batches are ever created (the epoch counter does not wrap)
            assume(0 <= total < u64::MAX);
            lemma_all_committed_refl(0);
            lemma_range_push(0, 0);
        }
//@ loop 0 inv
            invariant
                total == chan_total(receiver),
                0 <= total < u64::MAX,
                cb_wf(&current_batch),
                heap_ok(heap_view(&holdback_queues), current_batch.expected_epoch.0 as int),
                forall|e: int| #[trigger] seen.contains(e) <==> ((0 <= e < current_batch.expected_epoch.0 as int) || queued(heap_view(&holdback_queues), e)),
                forall|e: int| #[trigger] seen.contains(e) ==> 0 <= e < total,
                all_committed(0, upto(&current_batch)),
                epochs_below_max(heap_view(&holdback_queues)),
//@ loop 0 head
            let ghost view_in = heap_view(&holdback_queues);
            let ghost task_g = task;
            let ghost seen_in = seen;
            let ghost e_in = current_batch.expected_epoch.0 as int;
            let ghost upto_in = upto(&current_batch);
            proof {
                // HISTORY PRECONDITION (other threads; assumed): the channel delivers well-formed tasks of batches that
                // exist (epoch < total), each batch at most once (epochs come from one fetch_add counter; a batch is a moved value)
                assume(task_wf(&task) && 0 <= task.write_buffer.epoch.0 as int && (task.write_buffer.epoch.0 as int) < total
                    && !seen.contains(task.write_buffer.epoch.0 as int));
                seen = seen.insert(task.write_buffer.epoch.0 as int);
                lemma_push_facts(view_in, task, e_in);
            }
//@ loop 0 tail
            proof {
                lemma_all_committed_trans(0, upto_in, upto(&current_batch));
                let v1 = view_in.push(task_g);
                let v2 = heap_view(&holdback_queues);
                assert forall|e: int| #[trigger] seen.contains(e) <==> ((0 <= e < current_batch.expected_epoch.0 as int) || queued(v2, e)) by {
                    assert(queued(v1, e) <==> (queued(view_in, e) || e == task_g.write_buffer.epoch.0 as int));
                    assert(queued(v1, e) <==> (queued(v2, e) || e_in <= e < current_batch.expected_epoch.0 as int));
                    assert(seen_in.contains(e) <==> ((0 <= e < e_in) || queued(view_in, e)));
                    if queued(v2, e) {
                        let j = choose|j: int| 0 <= j < v2.len() && (#[trigger] v2[j]).write_buffer.epoch.0 as int == e;
                    }
                }
            }
//@ loop 0 after
        proof {
            // HISTORY PRECONDITION (assumed): when the channel closes every created batch has been submitted and forwarded
            // (the `active`-flag discipline of WriteBatch and the join order of Drop for WriteBehind)
            assume(forall|e: int| 0 <= e < total ==> seen.contains(e));
            assert(covers(heap_view(&holdback_queues), current_batch.expected_epoch.0 as int, total)) by {
                assert forall|e: int| 0 <= e < total implies e < current_batch.expected_epoch.0 as int || queued(heap_view(&holdback_queues), e) by {
                    assert(seen.contains(e));
                }
                assert forall|e: int| queued(heap_view(&holdback_queues), e) implies e < total by { assert(seen.contains(e)); }
                if current_batch.expected_epoch.0 as int > 0 { assert(seen.contains(current_batch.expected_epoch.0 as int - 1)); }
            }
        }
//@ member process_pending_commits
//@ sig
        requires
            cb_wf(old(current_batch)),
            heap_ok(heap_view(old(pending_commits)), old(current_batch).expected_epoch.0 as int),
            epochs_below_max(heap_view(old(pending_commits))),
        ensures
            cb_wf(final(current_batch)),
            heap_ok(heap_view(final(pending_commits)), final(current_batch).expected_epoch.0 as int),
            // maximal progress: whatever is still held back cannot be committed yet
            all_younger(heap_view(final(pending_commits)), final(current_batch).expected_epoch.0 as int),
            epochs_below_max(heap_view(final(pending_commits))),
            // exactly the epochs [expected, expected') left the queue, each once, in ascending order
            final(current_batch).expected_epoch.0 >= old(current_batch).expected_epoch.0,
            heap_view(final(pending_commits)).len() + (final(current_batch).expected_epoch.0 - old(current_batch).expected_epoch.0)
                == heap_view(old(pending_commits)).len(),
            queue_split(heap_view(old(pending_commits)), heap_view(final(pending_commits)),
                old(current_batch).expected_epoch.0 as int, final(current_batch).expected_epoch.0 as int),
            // everything that was closed in this call reached the store, group by group, in epoch order
            upto(old(current_batch)) <= upto(final(current_batch)),
            all_committed(upto(old(current_batch)), upto(final(current_batch))),
//@ head
        let ghost view00 = heap_view(pending_commits);
        let ghost e00 = current_batch.expected_epoch.0 as int;
        let ghost upto00 = upto(current_batch);
//@ loop 0 inv
            invariant
                cb_wf(current_batch),
                heap_ok(heap_view(pending_commits), current_batch.expected_epoch.0 as int),
                epochs_below_max(heap_view(pending_commits)),
                current_batch.expected_epoch.0 as int >= e00,
                heap_view(pending_commits).len() + (current_batch.expected_epoch.0 - e00) == view00.len(),
                queue_split(view00, heap_view(pending_commits), e00, current_batch.expected_epoch.0 as int),
                upto00 <= upto(current_batch),
                all_committed(upto00, upto(current_batch)),
            ensures
                all_younger(heap_view(pending_commits), current_batch.expected_epoch.0 as int),
            decreases heap_view(pending_commits).len(),
//@ loop 0 head
            broadcast use lemma_epochs_push;
            let ghost view0 = heap_view(pending_commits);
            let ghost cb0 = *current_batch;
            proof {
                // any greatest element of the queue (the peeked one, the popped one) is a minimum by epoch
                assert forall|t2: WriteTask<Db>, i: int| #![trigger is_top(view0, t2), view0[i]] is_top(view0, t2) && 0 <= i < view0.len()
                    implies view0[i].write_buffer.epoch.0 >= t2.write_buffer.epoch.0 by {
                    axiom_is_top(view0, t2, i);
                }
                lemma_range_push(upto(&cb0), cb0.expected_epoch.0 as int);
                assert forall|i: int| 0 <= i < view0.len() && view0[i].write_buffer.epoch.0 as int == cb0.expected_epoch.0 as int
                    implies heap_ok(#[trigger] view0.remove(i), cb0.expected_epoch.0 as int + 1) && epochs_below_max(view0.remove(i))
                        && queue_split(view0, view0.remove(i), cb0.expected_epoch.0 as int, cb0.expected_epoch.0 as int + 1) by {
                    lemma_remove_facts(view0, i, cb0.expected_epoch.0 as int);
                }
            }
//@ loop 0 tail
            proof {
                if upto(current_batch) != upto(&cb0) {
                    // the physical batch was closed by flush: its group is committed
                    lemma_all_committed_extend(upto00, upto(&cb0), upto(current_batch));
                }
            }
//@ end


// ---------------------------------------------------------------- vacuity canaries: each MUST fail
fn canary_flush<Db: KvDatabase>(cb: &mut CurrentBatch<Db>, db: &Db, s: &crossbeam_channel::Sender<AfterCommitTask<Db>>, f: &Arc<AtomicBool>)
    requires cb_wf(old(cb))
{
    cb.flush(db, s, f);
    assert(false);
}

fn canary_process<Db: KvDatabase>(h: &mut BinaryHeap<WriteTask<Db>>, cb: &mut CurrentBatch<Db>, db: &Db,
    s: &crossbeam_channel::Sender<AfterCommitTask<Db>>, f: &Arc<AtomicBool>)
    requires cb_wf(old(cb)), heap_ok(heap_view(old(h)), old(cb).expected_epoch.0 as int), epochs_below_max(heap_view(old(h)))
{
    WriteBehind::<Db>::process_pending_commits(h, cb, s, f, db);
    assert(false);
}

fn canary_commit_worker<Db: KvDatabase>(r: &crossbeam_channel::Receiver<WriteTask<Db>>, s: crossbeam_channel::Sender<AfterCommitTask<Db>>,
    f: &Arc<AtomicBool>, db: &Db)
{
    WriteBehind::<Db>::commit_worker(r, s, f, db);
    assert(false);
}

proof fn canary_drained<Db: KvDatabase>(v0: Seq<WriteTask<Db>>, v1: Seq<WriteTask<Db>>, e0: int, e1: int, total: int)
    requires all_younger(v1, e1), queue_split(v0, v1, e0, e1), covers(v0, e0, total), e0 <= e1
{
    lemma_drained(v0, v1, e0, e1, total);
    assert(false);
}

} // verus!
fn main() {}
