// C16 — the admission / eviction policy (crates/storage/src/tiny_lfu/policy.rs) against an abstract contract of `Lru`.
// Plain lines = specification; `//@` = real source text, re-extracted on every run.
//@ rule R18
#![allow(unused_imports, unused_variables, dead_code, non_snake_case)]
use vstd::prelude::*;
verus! {

//@ enum crates/storage/src/tiny_lfu/lru.rs :: Region
#[derive(Clone, Copy, PartialEq, Eq, Structural)]
//@ end

// ---------------------------------------------------------------- abstract contract of `Lru` (ASSUMED here; the real `Lru`
// is raw-pointer code outside Verus: it is checked against exactly these clauses by the bounded conformance run and the
// Kani LruList harnesses, see DESIGN C16)
#[verifier::external_body]
#[verifier::reject_recursive_types(K)]
pub struct Lru<K> { _p: core::marker::PhantomData<K> }

impl<K> Lru<K> {
    /// the keys of one region, index 0 = most recently used (head), last = least recently used (tail)
    pub uninterp spec fn seq(&self, r: Region) -> Seq<K>;

    pub open spec fn tracks(&self, k: K) -> bool {
        self.seq(Region::Window).contains(k) || self.seq(Region::Probation).contains(k)
            || self.seq(Region::Protected).contains(k) || self.seq(Region::Pinned).contains(k)
    }

    pub open spec fn region_of(&self, k: K, r: Region) -> bool { self.seq(r).contains(k) }

    /// every key is tracked at most once: no duplicates inside a region, regions pairwise disjoint
    pub open spec fn wf(&self) -> bool {
        &&& forall|r: Region| #![trigger self.seq(r)] self.seq(r).no_duplicates()
        &&& forall|r1: Region, r2: Region, k: K| r1 != r2 && #[trigger] self.seq(r1).contains(k) ==> !#[trigger] self.seq(r2).contains(k)
    }

    pub open spec fn same_except(&self, o: &Lru<K>, r1: Region, r2: Region) -> bool {
        forall|q: Region| q != r1 && q != r2 ==> #[trigger] self.seq(q) == o.seq(q)
    }
}

pub open spec fn push_front<K>(s: Seq<K>, k: K) -> Seq<K> { seq![k] + s }

impl<K> Lru<K> {
    #[verifier::external_body]
    pub fn hit(&mut self, key: &K, protected_capacity: usize) -> (r: bool)
        requires old(self).wf()
        ensures
            final(self).wf(),
            r == old(self).tracks(*key),
            forall|k: K| #[trigger] final(self).tracks(k) == old(self).tracks(k),
            final(self).seq(Region::Pinned) == old(self).seq(Region::Pinned),
            final(self).seq(Region::Window).len() == old(self).seq(Region::Window).len(),
            final(self).seq(Region::Probation).len() + final(self).seq(Region::Protected).len()
                == old(self).seq(Region::Probation).len() + old(self).seq(Region::Protected).len(),
            old(self).seq(Region::Protected).len() <= protected_capacity ==> final(self).seq(Region::Protected).len() <= protected_capacity,
            !r ==> forall|q: Region| final(self).seq(q) == old(self).seq(q),
    { unimplemented!() }

    #[verifier::external_body]
    pub fn new_entry(&mut self, key: K, region: Region)
        requires old(self).wf(), !old(self).tracks(key)
        ensures
            final(self).wf(),
            final(self).seq(region) == push_front(old(self).seq(region), key),
            final(self).same_except(old(self), region, region),
            // consequence
            forall|k: K| #[trigger] final(self).tracks(k) == (old(self).tracks(k) || k == key),
    { unimplemented!() }

    #[verifier::external_body]
    pub fn window_len(&self) -> (r: usize) ensures r == self.seq(Region::Window).len() { unimplemented!() }
    #[verifier::external_body]
    pub fn probation_len(&self) -> (r: usize) ensures r == self.seq(Region::Probation).len() { unimplemented!() }
    #[verifier::external_body]
    pub fn protected_len(&self) -> (r: usize) ensures r == self.seq(Region::Protected).len() { unimplemented!() }
    #[verifier::external_body]
    pub fn pinned_len(&self) -> (r: usize) ensures r == self.seq(Region::Pinned).len() { unimplemented!() }

    #[verifier::external_body]
    pub fn peek_least_recent(&self, region: Region) -> (r: Option<&K>)
        ensures
            self.seq(region).len() == 0 <==> r is None,
            r matches Some(k) ==> *k == self.seq(region).last(),
    { unimplemented!() }

    #[verifier::external_body]
    pub fn pop_least_recent(&mut self, region: Region) -> (r: Option<K>)
        requires old(self).wf()
        ensures
            final(self).wf(),
            old(self).seq(region).len() == 0 <==> r is None,
            r matches Some(k) ==> k == old(self).seq(region).last() && final(self).seq(region) == old(self).seq(region).drop_last(),
            r is None ==> final(self).seq(region) == old(self).seq(region),
            final(self).same_except(old(self), region, region),
            // consequences
            r matches Some(k) ==> old(self).tracks(k) && !final(self).tracks(k),
            forall|k: K| #[trigger] final(self).tracks(k) == (old(self).tracks(k) && r != Some(k)),
    { unimplemented!() }

    #[verifier::external_body]
    pub fn move_least_recent_of_to_new_region(&mut self, from_region: Region, to_region: Region)
        requires old(self).wf(), from_region != to_region
        ensures
            final(self).wf(),
            old(self).seq(from_region).len() == 0 ==> forall|q: Region| final(self).seq(q) == old(self).seq(q),
            old(self).seq(from_region).len() > 0 ==> (
                final(self).seq(from_region) == old(self).seq(from_region).drop_last()
                && final(self).seq(to_region) == push_front(old(self).seq(to_region), old(self).seq(from_region).last())),
            final(self).same_except(old(self), from_region, to_region),
            // consequence
            forall|k: K| #[trigger] final(self).tracks(k) == old(self).tracks(k),
    { unimplemented!() }

    #[verifier::external_body]
    pub fn remove(&mut self, key: &K) -> (r: Option<K>)
        requires old(self).wf()
        ensures
            final(self).wf(),
            r is Some == old(self).tracks(*key),
            !final(self).tracks(*key),
            forall|q: Region| #![trigger final(self).seq(q)] (if old(self).seq(q).contains(*key) {
                final(self).seq(q) == old(self).seq(q).remove(old(self).seq(q).index_of(*key))
            } else { final(self).seq(q) == old(self).seq(q) }),
            // consequences
            forall|k: K| #[trigger] final(self).tracks(k) == (old(self).tracks(k) && k != *key),
            forall|q: Region, k: K| #[trigger] final(self).seq(q).contains(k) == (old(self).seq(q).contains(k) && k != *key),
            forall|q: Region| #![trigger final(self).seq(q)] final(self).seq(q).len() == old(self).seq(q).len() - (if old(self).seq(q).contains(*key) { 1int } else { 0int }),
    { unimplemented!() }

    #[verifier::external_body]
    pub fn check_is_in_region(&self, key: &K, region: Region) -> (r: bool)
        ensures r == self.seq(region).contains(*key)
    { unimplemented!() }

    #[verifier::external_body]
    pub fn shuffle_tail_to_head(&mut self, region: Region)
        requires old(self).wf()
        ensures
            final(self).wf(),
            old(self).seq(region).len() > 0 ==> final(self).seq(region) == push_front(old(self).seq(region).drop_last(), old(self).seq(region).last()),
            old(self).seq(region).len() == 0 ==> final(self).seq(region) == old(self).seq(region),
            final(self).same_except(old(self), region, region),
            // consequences of the clauses above, stated for the callers' convenience
            final(self).seq(region).len() == old(self).seq(region).len(),
            forall|k: K| #[trigger] final(self).seq(region).contains(k) == old(self).seq(region).contains(k),
            forall|k: K| #[trigger] final(self).tracks(k) == old(self).tracks(k),
    { unimplemented!() }

    /// panics (assert! / unwrap in the real code) unless the key is tracked and not already in `new_region`
    #[verifier::external_body]
    pub fn move_key_to_head_of_region(&mut self, key: &K, new_region: Region)
        requires old(self).wf(), old(self).tracks(*key), !old(self).seq(new_region).contains(*key)
        ensures
            final(self).wf(),
            final(self).seq(new_region) == push_front(old(self).seq(new_region), *key),
            forall|q: Region| #![trigger final(self).seq(q)] q != new_region ==> (if old(self).seq(q).contains(*key) {
                final(self).seq(q) == old(self).seq(q).remove(old(self).seq(q).index_of(*key))
            } else { final(self).seq(q) == old(self).seq(q) }),
            // consequences
            forall|k: K| #[trigger] final(self).tracks(k) == old(self).tracks(k),
            forall|q: Region, k: K| q != new_region ==> #[trigger] final(self).seq(q).contains(k) == (old(self).seq(q).contains(k) && k != *key),
            forall|q: Region| #![trigger final(self).seq(q)] q != new_region ==> final(self).seq(q).len() == old(self).seq(q).len() - (if old(self).seq(q).contains(*key) { 1int } else { 0int }),
    { unimplemented!() }
}

/// the policy names the list module through `lru::`
pub mod lru { pub use super::{Lru, Region}; }

/// ASSUMED about the key type: `Clone` yields an equal key (consistent with the Eq/Hash the real map relies on)
#[verifier::external_body]
pub proof fn axiom_key_clone<K: Clone>()
    ensures forall|a: &K, b: K| #[trigger] call_ensures(K::clone, (a,), b) ==> *a == b
{
}

// ---------------------------------------------------------------- opaque collaborators (no contract needed: any frequency estimate is fine)
#[verifier::external_body]
pub struct Sketch { _p: u8 }
impl Sketch {
    #[verifier::external_body]
    pub fn record_access(&mut self, hash: u64) { unimplemented!() }
    #[verifier::external_body]
    pub fn estimate_frequency(&self, hash: u64) -> u8 { unimplemented!() }
}
#[verifier::external_body]
pub struct FxBuildHasher { _p: u8 }
impl FxBuildHasher {
    /// stand-in for `BuildHasher::hash_one` (any u64)
    #[verifier::external_body]
    pub fn hash_one<T>(&self, x: T) -> u64 { unimplemented!() }
}

//@ struct crates/storage/src/tiny_lfu/policy.rs :: Policy
#[verifier::reject_recursive_types(K)]
//@ end

// ---------------------------------------------------------------- policy invariant and vocabulary
impl<K> Policy<K> {
    pub open spec fn main_limit(&self) -> int { self.max_capacity - self.window_capacity }

    /// representation invariant between operations
    pub open spec fn inv(&self) -> bool {
        &&& self.lru.wf()
        &&& self.window_capacity <= self.max_capacity
        &&& self.protected_capacity < self.main_limit()
        &&& self.lru.seq(Region::Window).len() <= self.window_capacity
        &&& self.lru.seq(Region::Protected).len() <= self.protected_capacity
        &&& self.lru.seq(Region::Probation).len() + self.lru.seq(Region::Protected).len() <= self.main_limit()
    }

    /// BOUNDED: the entries the policy keeps that are not parked in the pinned region never exceed the configured capacity
    pub open spec fn bounded(&self) -> bool {
        self.lru.seq(Region::Window).len() + self.lru.seq(Region::Probation).len() + self.lru.seq(Region::Protected).len() <= self.max_capacity
    }

    pub open spec fn caps_same(&self, o: &Policy<K>) -> bool {
        self.window_capacity == o.window_capacity && self.protected_capacity == o.protected_capacity && self.max_capacity == o.max_capacity
    }
}

/// the pinned region is empty, or it still holds an entry the owner refused to give up when the policy asked
pub open spec fn trimmed<K, F: Fn(&K) -> bool>(p: &Policy<K>, remove: F) -> bool {
    p.lru.seq(Region::Pinned).len() == 0
        || exists|k: K| #![trigger p.lru.seq(Region::Pinned).contains(k)] p.lru.seq(Region::Pinned).contains(k) && remove.ensures((&k,), false)
}
/// NEVER EVICTS A PINNED ENTRY: a key the policy stops tracking was confirmed removed by the owner (remove(k) returned
/// true, i.e. the entry was absent or un-pinned under the entry lock) ...
pub open spec fn forgets_only_confirmed<K, F: Fn(&K) -> bool>(old_p: &Policy<K>, new_p: &Policy<K>, remove: F) -> bool {
    forall|k: K| #![trigger new_p.lru.tracks(k)] old_p.lru.tracks(k) && !new_p.lru.tracks(k) ==> remove.ensures((&k,), true)
}
/// ... and a key enters the pinned region only because the owner refused its removal (remove(k) returned false)
pub open spec fn parks_only_refused<K, F: Fn(&K) -> bool>(old_p: &Policy<K>, new_p: &Policy<K>, remove: F) -> bool {
    forall|k: K| #![trigger new_p.lru.seq(Region::Pinned).contains(k)] new_p.lru.seq(Region::Pinned).contains(k) && !old_p.lru.seq(Region::Pinned).contains(k) ==> remove.ensures((&k,), false)
}

pub broadcast proof fn lemma_push_front_contains<K>(s: Seq<K>, k: K, x: K)
    ensures #[trigger] push_front(s, k).contains(x) <==> (x == k || s.contains(x))
{
    let t = push_front(s, k);
    if t.contains(x) {
        let i = choose|i: int| 0 <= i < t.len() && t[i] == x;
        if i > 0 { assert(s[i - 1] == x); }
    }
    if x == k { assert(t[0] == x); }
    if s.contains(x) {
        let i = choose|i: int| 0 <= i < s.len() && s[i] == x;
        assert(t[i + 1] == x);
    }
}

pub broadcast proof fn lemma_drop_last_contains<K>(s: Seq<K>, x: K)
    requires s.len() > 0, s.no_duplicates()
    ensures #[trigger] s.drop_last().contains(x) <==> (s.contains(x) && x != s.last())
{
    let t = s.drop_last();
    if t.contains(x) {
        let i = choose|i: int| 0 <= i < t.len() && t[i] == x;
        assert(s[i] == x);
    }
    if s.contains(x) && x != s.last() {
        let i = choose|i: int| 0 <= i < s.len() && s[i] == x;
        assert(t[i] == x);
    }
}

pub broadcast proof fn lemma_remove_contains<K>(s: Seq<K>, k: K, x: K)
    requires s.no_duplicates(), s.contains(k)
    ensures #[trigger] s.remove(s.index_of(k)).contains(x) <==> (s.contains(x) && x != k), s.remove(s.index_of(k)).len() == s.len() - 1
{
    let j = s.index_of(k);
    let t = s.remove(j);
    if t.contains(x) {
        let i = choose|i: int| 0 <= i < t.len() && t[i] == x;
        if i < j { assert(s[i] == x); } else { assert(s[i + 1] == x); }
    }
    if s.contains(x) && x != k {
        let i = choose|i: int| 0 <= i < s.len() && s[i] == x;
        if i < j { assert(t[i] == x); } else { assert(t[i - 1] == x); }
    }
}

pub broadcast proof fn lemma_last_contains<K>(s: Seq<K>)
    requires s.len() > 0
    ensures #[trigger] s.contains(s.last())
{
    assert(s[s.len() - 1] == s.last());
}

pub broadcast group group_seq_facts {
    lemma_push_front_contains,
    lemma_drop_last_contains,
    lemma_remove_contains,
    lemma_last_contains,
}

// ---------------------------------------------------------------- functions under contract
//@ impl crates/storage/src/tiny_lfu/policy.rs :: impl<K> Policy<K>
//@ member on_read_hit
//@ ret r
//@ sig
        requires old(self).inv()
        ensures
            final(self).inv(), final(self).caps_same(old(self)),
            r == old(self).lru.tracks(*key),
            forall|k: K| #[trigger] final(self).lru.tracks(k) == old(self).lru.tracks(k),
            final(self).lru.seq(Region::Pinned) == old(self).lru.seq(Region::Pinned),
//@ member on_write
//@ sig
        requires old(self).inv(), forall|k: &K| #[trigger] remove.requires((k,))
        ensures
            final(self).inv(), final(self).bounded(), final(self).caps_same(old(self)),
            forgets_only_confirmed(old(self), final(self), remove),
            parks_only_refused(old(self), final(self), remove),
            // the written key is tracked afterwards unless the owner itself confirmed its removal
            final(self).lru.tracks(*key) || remove.ensures((key,), true),
//@ head
        broadcast use group_seq_facts;
        proof { axiom_key_clone::<K>(); }
//@ member unpin
//@ sig
        requires old(self).inv(), forall|k: &K| #[trigger] remove.requires((k,))
        ensures
            final(self).inv(), final(self).bounded(), final(self).caps_same(old(self)),
            forgets_only_confirmed(old(self), final(self), remove),
            parks_only_refused(old(self), final(self), remove),
//@ head
        broadcast use group_seq_facts;
//@ member attempt_to_trim_overflowing_pinned
//@ text-sub self.lru.shuffle_tail_to_head(lru::Region::Pinned); => let ghost refused = *key; self.lru.shuffle_tail_to_head(lru::Region::Pinned); proof { assert(self.lru.seq(Region::Pinned).contains(refused)); assert(remove.ensures((&refused,), false)); }
//@ sig
        requires old(self).inv(), forall|k: &K| #[trigger] remove.requires((k,))
        ensures
            final(self).inv(), final(self).caps_same(old(self)),
            forgets_only_confirmed(old(self), final(self), remove),
            // only the pinned region shrinks; nothing is parked, nothing else moves
            forall|q: Region| q != Region::Pinned ==> #[trigger] final(self).lru.seq(q) == old(self).lru.seq(q),
            final(self).lru.seq(Region::Pinned).len() <= old(self).lru.seq(Region::Pinned).len(),
            forall|k: K| #[trigger] final(self).lru.seq(Region::Pinned).contains(k) ==> old(self).lru.seq(Region::Pinned).contains(k),
            // PROGRESS (the "stays bounded" half in Poll mode): the trim stops only when the pinned region is empty or at a
            // parked entry whose owner REFUSED to give it up in this very call -- released entries in front of it are gone
            trimmed(final(self), remove),
//@ head
        broadcast use group_seq_facts;
//@ loop 0 inv
            invariant
                self.inv(), self.caps_same(old(self)),
                forall|k: &K| #[trigger] remove.requires((k,)),
                forgets_only_confirmed(old(self), self, remove),
                forall|q: Region| q != Region::Pinned ==> #[trigger] self.lru.seq(q) == old(self).lru.seq(q),
                self.lru.seq(Region::Pinned).len() <= old(self).lru.seq(Region::Pinned).len(),
                forall|k: K| #[trigger] self.lru.seq(Region::Pinned).contains(k) ==> old(self).lru.seq(Region::Pinned).contains(k),
            ensures trimmed(self, remove),
            decreases self.lru.seq(Region::Pinned).len(),
//@ loop 0 head
            broadcast use group_seq_facts;
//@ member on_removed
//@ sig
        requires old(self).inv()
        ensures
            final(self).inv(), final(self).caps_same(old(self)),
            !final(self).lru.tracks(*key),
            forall|k: K| k != *key ==> final(self).lru.tracks(k) == old(self).lru.tracks(k),
            // no key changes its region
            forall|q: Region, k: K| #[trigger] final(self).lru.seq(q).contains(k) == (old(self).lru.seq(q).contains(k) && k != *key),
//@ head
        broadcast use group_seq_facts;
//@ end


// ---------------------------------------------------------------- the dispatcher (crates/storage/src/tiny_lfu.rs):
// every buffered message reaches the policy handler that belongs to it, with the message's own key, unconditionally.
// (The policy's guarantees above are per handler call; a dropped or misrouted message -- e.g. a `Removed` that never
// reaches `on_removed` -- leaves the policy tracking an entry the store no longer has, or a parked key that is never
// released: the bound and "never evicts pinned" then fail at the cache level although every handler is correct.)
//@ enum crates/storage/src/tiny_lfu/policy.rs :: WriteMessage
//@ enum crates/storage/src/tiny_lfu/policy.rs :: PolicyMessage
//@ enum crates/storage/src/tiny_lfu.rs :: UnpinStrategy
#[derive(Clone, Copy, PartialEq, Eq, Structural)]
//@ end

pub trait LifecycleListener<K, V> {
    /// what the owner says about an entry (a function of key and value: e.g. `pin_count > 0`)
    spec fn pinned(&self, key: K, value: V) -> bool;
    fn is_pinned(&self, key: &K, value: &V) -> (r: bool)
        ensures r == self.pinned(*key, *value), !r ==> unpinned_ev(*key, *value);
}

/// struct stand-in (field subset): the dispatcher reads `unpin_strategy` and `build_hasher`; `storage` is an opaque stand-in whose
/// queries answer arbitrarily; the real struct also holds the read/write buffers, the policy mutex and the maintenance flag
#[verifier::reject_recursive_types(K)]
#[verifier::reject_recursive_types(V)]
pub struct TinyLFUInner<K, V, L> {
    pub storage: StorageMap<K, V>,
    pub read_buffer: ReadBuffer<K>,
    pub write_buffer: UnboundedBuffer<WriteMessage<K>>,
    pub unpin_strategy: UnpinStrategy,
    pub lifecycle_listener: L,
    pub build_hasher: FxBuildHasher,
}
/// the concurrent storage map (scc::HashMap behind CachePadded): opaque; a query may answer anything, because other
/// threads insert and remove entries while maintenance runs
#[verifier::external_body]
#[verifier::reject_recursive_types(K)]
#[verifier::reject_recursive_types(V)]
pub struct StorageMap<K, V> { _p: core::marker::PhantomData<(K, V)> }
/// the concurrent message buffers (other threads push while maintenance drains): opaque; `pop` may answer anything,
/// `drain` hands out some batch of keys
#[verifier::external_body]
#[verifier::reject_recursive_types(T)]
pub struct UnboundedBuffer<T> { _p: core::marker::PhantomData<T> }
/// event: the owner removed the entry of k itself (a `Removed(k)` message was taken from the write buffer)
pub uninterp spec fn removed_msg_ev<K>(k: K) -> bool;
impl<K> UnboundedBuffer<WriteMessage<K>> {
    #[verifier::external_body]
    pub fn pop(&self) -> (r: Option<WriteMessage<K>>)
        ensures r matches Some(WriteMessage::Removed(k)) ==> removed_msg_ev(k)
    { unimplemented!() }
}
#[verifier::external_body]
#[verifier::reject_recursive_types(T)]
pub struct ReadBuffer<T> { _p: core::marker::PhantomData<T> }
impl<T> ReadBuffer<T> {
    /// the real `drain` returns `impl Iterator<Item = T>`; the stand-in hands the batch out as a Vec
    #[verifier::external_body]
    pub fn drain(&self) -> Vec<T> { unimplemented!() }
}
pub assume_specification<T>[ std::mem::drop ](_0: T);

/// events of the concurrent storage map (scc::HashMap), as seen through ONE locked entry handle
pub uninterp spec fn absent_ev<K>(k: K) -> bool;            // the map had no entry for k when asked
pub uninterp spec fn seen_ev<K, V>(k: K, v: V) -> bool;      // the entry of k was locked and held value v
pub uninterp spec fn removed_ev<K, V>(k: K, v: V) -> bool;   // the locked entry (k, v) was removed from the map
pub uninterp spec fn unpinned_ev<K, V>(k: K, v: V) -> bool;  // the listener was asked about (k, v) and answered "not pinned"
pub mod scc { pub mod hash_map {
    use vstd::prelude::*;
    use super::super::*;
    /// interface stand-in for scc::hash_map::Entry: an Occupied handle IS the exclusive lock on that entry
    #[verifier::reject_recursive_types(K)]
    #[verifier::reject_recursive_types(V)]
    pub enum Entry<K, V> { Occupied(OccupiedEntry<K, V>), Vacant(VacantEntry<K, V>) }
    #[verifier::external_body]
    #[verifier::reject_recursive_types(K)]
    #[verifier::reject_recursive_types(V)]
    pub struct OccupiedEntry<K, V> { _p: core::marker::PhantomData<(K, V)> }
    #[verifier::external_body]
    #[verifier::reject_recursive_types(K)]
    #[verifier::reject_recursive_types(V)]
    pub struct VacantEntry<K, V> { _p: core::marker::PhantomData<(K, V)> }
    impl<K, V> OccupiedEntry<K, V> {
        pub uninterp spec fn key(&self) -> K;
        pub uninterp spec fn value(&self) -> V;
        #[verifier::external_body]
        pub fn get_mut(&mut self) -> (r: &mut V)
            ensures *r == old(self).value(), final(self).value() == *final(r), final(self).key() == old(self).key(), seen_ev(old(self).key(), old(self).value())
        { unimplemented!() }
        /// protocol precondition of the EVICTION path: an entry is taken out of the map only after the listener answered
        /// "not pinned" for exactly the value this locked handle holds
        #[verifier::external_body]
        pub fn remove_entry(self) -> (r: (K, V))
            requires unpinned_ev(self.key(), self.value())
            ensures removed_ev(self.key(), self.value())
        { unimplemented!() }
    }
} }
impl<K, V> StorageMap<K, V> {
    /// scc::HashMap::entry_sync: locks the entry of `key` (or reports that there is none)
    #[verifier::external_body]
    pub fn entry_sync(&self, key: K) -> (e: scc::hash_map::Entry<K, V>)
        ensures match e { scc::hash_map::Entry::Occupied(o) => o.key() == key, scc::hash_map::Entry::Vacant(_) => absent_ev(key) }
    { unimplemented!() }
    #[verifier::external_body]
    pub fn contains_sync(&self, key: &K) -> bool { unimplemented!() }
    /// scc::HashMap::read_sync / remove_sync: NOT tied to a locked entry handle -- whatever they report or remove says nothing
    /// about the value a later / earlier call saw (other threads run in between), so they establish none of the events above
    #[verifier::external_body]
    pub fn read_sync<R, F: FnOnce(&K, &V) -> R>(&self, key: &K, reader: F) -> Option<R> { unimplemented!() }
    #[verifier::external_body]
    pub fn remove_sync(&self, key: &K) -> Option<(K, V)> { unimplemented!() }
    #[verifier::external_body]
    pub fn len(&self) -> usize { unimplemented!() }
}

impl<K, V, L: LifecycleListener<K, V>> TinyLFUInner<K, V, L> {
    /// TinyLFUInner::hash
    #[verifier::external_body]
    pub fn hash<T>(&self, t: &T) -> u64 { unimplemented!() }

    pub open spec fn forgets_only_released(&self, old_p: &Policy<K>, new_p: &Policy<K>) -> bool {
        forall|k: K| #![trigger new_p.lru.tracks(k)] old_p.lru.tracks(k) && !new_p.lru.tracks(k) ==> self.owner_answers(k, true)
    }
    /// over a whole maintenance pass: a key the policy stops tracking was given up by the owner under the entry lock
    /// (owner_answers(k, true)) or removed by the owner itself (a Removed message)
    pub open spec fn forgets_only_released_or_removed(&self, old_p: &Policy<K>, new_p: &Policy<K>) -> bool {
        forall|k: K| #![trigger new_p.lru.tracks(k)] old_p.lru.tracks(k) && !new_p.lru.tracks(k) ==> (self.owner_answers(k, true) || removed_msg_ev(k))
    }
    pub open spec fn parks_only_pinned(&self, old_p: &Policy<K>, new_p: &Policy<K>) -> bool {
        forall|k: K| #![trigger new_p.lru.seq(Region::Pinned).contains(k)]
            new_p.lru.seq(Region::Pinned).contains(k) && !old_p.lru.seq(Region::Pinned).contains(k) ==> self.owner_answers(k, false)
    }
    /// the effect a write message must have on the policy
    pub open spec fn delivered(&self, m: WriteMessage<K>, old_p: &Policy<K>, new_p: &Policy<K>) -> bool {
        match m {
            WriteMessage::Insert(key) => new_p.bounded() && (new_p.lru.tracks(key) || self.owner_answers(key, true))
                && self.forgets_only_released(old_p, new_p) && self.parks_only_pinned(old_p, new_p),
            WriteMessage::Unpinned(key) => new_p.bounded()
                && self.forgets_only_released(old_p, new_p) && self.parks_only_pinned(old_p, new_p),
            // the owner removed the entry: the policy must stop tracking that key -- whatever else happened to the key
            // since -- and must not touch any other key
            WriteMessage::Removed(key) => !new_p.lru.tracks(key)
                && (forall|k: K| k != key ==> #[trigger] new_p.lru.tracks(k) == old_p.lru.tracks(k))
                && (forall|q: Region, k: K| #[trigger] new_p.lru.seq(q).contains(k) ==> old_p.lru.seq(q).contains(k)),
        }
    }
}

impl<K, V, L: LifecycleListener<K, V>> TinyLFUInner<K, V, L> {
    /// what the owner answers when asked to give up key k:
    ///   true  -- the map had no entry for k, or the LOCKED entry held a value the listener calls unpinned and exactly that
    ///            entry was removed (asked again under the entry lock, removed under the same lock);
    ///   false -- the locked entry held a value the listener calls pinned (it stays)
    /// the parked (pinned) region is empty or still holds an entry whose owner, asked under the entry lock, called it pinned
    pub open spec fn pinned_trimmed(&self, p: &Policy<K>) -> bool {
        p.lru.seq(Region::Pinned).len() == 0
            || exists|k: K| #![trigger p.lru.seq(Region::Pinned).contains(k)] p.lru.seq(Region::Pinned).contains(k) && self.owner_answers(k, false)
    }
    pub open spec fn owner_answers(&self, k: K, b: bool) -> bool {
        if b { absent_ev(k) || exists|v: V| #![trigger seen_ev(k, v)] seen_ev(k, v) && !self.lifecycle_listener.pinned(k, v) && removed_ev(k, v) }
        else { exists|v: V| #![trigger seen_ev(k, v)] seen_ev(k, v) && self.lifecycle_listener.pinned(k, v) }
    }
}
//@ impl crates/storage/src/tiny_lfu.rs :: impl< K: std::hash::Hash + Eq + Clone + Send + Sync + 'static, V: Send + Sync + 'static, L: LifecycleListener<K, V> + Send + Sync + 'static, > TinyLFUInner<K, V, L>
//@ member remove_closure
//@ text-sub |evicted_key| { => |evicted_key: &K| -> (b: bool) ensures self.owner_answers(*evicted_key, b) {
//@ ret r
//@ sig
        ensures
            forall|k: &K| #[trigger] r.requires((k,)),
            forall|k: &K, b: bool| #[trigger] r.ensures((k,), b) ==> self.owner_answers(*k, b),
//@ head
        proof { axiom_key_clone::<K>(); }
//@ member process_policy_message
//@ attr
    #[verifier::exec_allows_no_decreases_clause]
//@ sig
        requires old(lock).inv()
        ensures final(lock).inv(), final(lock).caps_same(old(lock)),
            // nothing is parked that the owner did not refuse to give up during this maintenance pass
            self.parks_only_pinned(old(lock), final(lock)),
            // NEVER EVICTS A PINNED ENTRY, over the whole pass (also the Poll-mode trim at its end): whatever the policy forgets
            // was given up by the owner under the entry lock, or removed by the owner itself
            self.forgets_only_released_or_removed(old(lock), final(lock)),
            // STAYS BOUNDED in Poll mode: every maintenance pass ends with the parked region trimmed down to an entry its owner
            // still reports as pinned (or empty) -- whichever thread runs the pass
            self.unpin_strategy == UnpinStrategy::Poll ==> self.pinned_trimmed(final(lock)),
//@ loop 0 inv
            invariant lock.inv(), lock.caps_same(old(lock)), self.parks_only_pinned(old(lock), lock),
                self.forgets_only_released_or_removed(old(lock), lock),
//@ loop 0 head
            let ghost mid = *lock;
//@ loop 1 iter __it
//@ loop 1 inv
            invariant lock.inv(), lock.caps_same(old(lock)), self.parks_only_pinned(old(lock), lock),
                self.forgets_only_released_or_removed(old(lock), lock),
//@ member process_write
//@ sig
        requires old(lock).inv()
        ensures final(lock).inv(), final(lock).caps_same(old(lock)), self.delivered(message, old(lock), final(lock))
//@ member process_message
//@ sig
        requires old(lock).inv()
        ensures
            final(lock).inv(), final(lock).caps_same(old(lock)),
            match message {
                PolicyMessage::ReadHit(key) => (forall|k: K| #[trigger] final(lock).lru.tracks(k) == old(lock).lru.tracks(k))
                    && final(lock).lru.seq(Region::Pinned) == old(lock).lru.seq(Region::Pinned),
                PolicyMessage::Write(m) => self.delivered(m, old(lock), final(lock)),
            }
//@ end

} // verus!
fn main() {}
