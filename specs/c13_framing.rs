// C13 — stable hash framing (crates/stable_hash/src/lib.rs): every ordered StableHash impl feeds the hasher a byte stream that is a
// function of the value's VIEW only, with length prefixes / discriminant prefixes, and that stream is prefix-free (hence injective).
// Plain lines = specification; `//@` = real source text, re-extracted on every run.
//@ rule R11
#![allow(unused_imports, unused_variables, dead_code, non_snake_case)]
use vstd::prelude::*;
use vstd::std_specs::convert::*;
use vstd::string::StringSliceAdditionalSpecFns;
use std::mem::Discriminant;
verus! {

//@ include inc/c13_core.rs

// ---------------------------------------------------------------- pointers: the stream of the pointee (address, ownership and sharing cannot appear)
impl<T: Wire + ?Sized> Wire for &T { open spec fn bytes(&self) -> Seq<u8> { (**self).bytes() } }
impl<T: Wire + ?Sized> Wire for &mut T { open spec fn bytes(&self) -> Seq<u8> { (**self).bytes() } }
impl<T: Wire + ?Sized> Wire for Box<T> { open spec fn bytes(&self) -> Seq<u8> { (**self).bytes() } }
impl<T: Wire + ?Sized> Wire for std::rc::Rc<T> { open spec fn bytes(&self) -> Seq<u8> { (**self).bytes() } }
impl<T: Wire + ?Sized> Wire for std::sync::Arc<T> { open spec fn bytes(&self) -> Seq<u8> { (**self).bytes() } }
//@ impl crates/stable_hash/src/lib.rs :: impl<T: StableHash + ?Sized> StableHash for &T
//@ extra
    proof fn prefix_free(a: &Self, b: &Self, ta: Seq<u8>, tb: Seq<u8>) { T::prefix_free(&**a, &**b, ta, tb); }
//@ member stable_hash
//@ end
//@ impl crates/stable_hash/src/lib.rs :: impl<T: StableHash + ?Sized> StableHash for &mut T
//@ extra
    proof fn prefix_free(a: &Self, b: &Self, ta: Seq<u8>, tb: Seq<u8>) { T::prefix_free(&**a, &**b, ta, tb); }
//@ member stable_hash
//@ end
//@ impl crates/stable_hash/src/lib.rs :: impl<T: StableHash + ?Sized> StableHash for Box<T>
//@ extra
    proof fn prefix_free(a: &Self, b: &Self, ta: Seq<u8>, tb: Seq<u8>) { T::prefix_free(&**a, &**b, ta, tb); }
//@ member stable_hash
//@ end
//@ impl crates/stable_hash/src/lib.rs :: impl<T: StableHash + ?Sized> StableHash for std::rc::Rc<T>
//@ extra
    proof fn prefix_free(a: &Self, b: &Self, ta: Seq<u8>, tb: Seq<u8>) { T::prefix_free(&**a, &**b, ta, tb); }
//@ member stable_hash
//@ end
//@ impl crates/stable_hash/src/lib.rs :: impl<T: StableHash + ?Sized> StableHash for std::sync::Arc<T>
//@ extra
    proof fn prefix_free(a: &Self, b: &Self, ta: Seq<u8>, tb: Seq<u8>) { T::prefix_free(&**a, &**b, ta, tb); }
//@ member stable_hash
//@ end

// ---------------------------------------------------------------- Option / Result: discriminant first
impl<T: Wire> Wire for Option<T> {
    open spec fn bytes(&self) -> Seq<u8> {
        match self { Some(v) => disc_image(spec_discriminant(self)) + v.bytes(), None => disc_image(spec_discriminant(self)) }
    }
}
impl<T: Wire, E: Wire> Wire for Result<T, E> {
    open spec fn bytes(&self) -> Seq<u8> {
        match self { Ok(v) => disc_image(spec_discriminant(self)) + v.bytes(), Err(e) => disc_image(spec_discriminant(self)) + e.bytes() }
    }
}

/// contract of the (unsafe, raw-byte) impl for Discriminant<T>: it feeds exactly the discriminant's bytes (ASSUMED: external_body)
impl<T> Wire for Discriminant<T> { open spec fn bytes(&self) -> Seq<u8> { disc_image(*self) } }
//@ impl crates/stable_hash/src/lib.rs :: impl<T> StableHash for Discriminant<T>
//@ extra
    proof fn prefix_free(a: &Self, b: &Self, ta: Seq<u8>, tb: Seq<u8>) {
        axiom_disc_len(*a); axiom_disc_len(*b);
        lemma_fixed_split(disc_image(*a), disc_image(*b), ta, tb);
    }
//@ member stable_hash
//@ body external
//@ end

//@ impl crates/stable_hash/src/lib.rs :: impl<T: StableHash> StableHash for Option<T>
//@ extra
    proof fn prefix_free(a: &Self, b: &Self, ta: Seq<u8>, tb: Seq<u8>) {
        broadcast use lemma_cat_assoc, lemma_cat_empty;
        let (da, db) = (disc_image(spec_discriminant(a)), disc_image(spec_discriminant(b)));
        axiom_disc_len(spec_discriminant(a)); axiom_disc_len(spec_discriminant(b));
        axiom_disc_option(a, b);
        let pa = match a { Some(x) => x.bytes() + ta, None => ta };
        let pb = match b { Some(x) => x.bytes() + tb, None => tb };
        assert(a.bytes() + ta =~= da + pa);
        assert(b.bytes() + tb =~= db + pb);
        lemma_fixed_split(da, db, pa, pb);
        match (a, b) {
            (Some(x), Some(y)) => { T::prefix_free(x, y, ta, tb); }
            _ => {}
        }
    }
//@ member stable_hash
//@ head
        broadcast use lemma_cat_assoc, lemma_cat_empty;
//@ end

//@ impl crates/stable_hash/src/lib.rs :: impl<T: StableHash, E: StableHash> StableHash for Result<T, E>
//@ extra
    proof fn prefix_free(a: &Self, b: &Self, ta: Seq<u8>, tb: Seq<u8>) {
        broadcast use lemma_cat_assoc, lemma_cat_empty;
        let (da, db) = (disc_image(spec_discriminant(a)), disc_image(spec_discriminant(b)));
        axiom_disc_len(spec_discriminant(a)); axiom_disc_len(spec_discriminant(b));
        axiom_disc_result(a, b);
        let pa = match a { Ok(x) => x.bytes() + ta, Err(x) => x.bytes() + ta };
        let pb = match b { Ok(x) => x.bytes() + tb, Err(x) => x.bytes() + tb };
        assert(a.bytes() + ta =~= da + pa);
        assert(b.bytes() + tb =~= db + pb);
        lemma_fixed_split(da, db, pa, pb);
        match (a, b) {
            (Ok(x), Ok(y)) => { T::prefix_free(x, y, ta, tb); }
            (Err(x), Err(y)) => { E::prefix_free(x, y, ta, tb); }
            _ => {}
        }
    }
//@ member stable_hash
//@ head
        broadcast use lemma_cat_assoc, lemma_cat_empty;
//@ end

// ---------------------------------------------------------------- unit and tuples: fields in declaration order, no framing
impl Wire for () { open spec fn bytes(&self) -> Seq<u8> { Seq::<u8>::empty() } }
//@ macro crates/stable_hash/src/lib.rs :: impl_stable_hash_tuple!()
//@ extra
    proof fn prefix_free(a: &Self, b: &Self, ta: Seq<u8>, tb: Seq<u8>) { broadcast use lemma_cat_empty; }
//@ member stable_hash
//@ head
        broadcast use lemma_cat_empty;
//@ end
impl<T0: Wire> Wire for (T0, ) { open spec fn bytes(&self) -> Seq<u8> { self.0.bytes() } }
//@ macro crates/stable_hash/src/lib.rs :: impl_stable_hash_tuple!(T)
//@ extra
    proof fn prefix_free(a: &Self, b: &Self, ta: Seq<u8>, tb: Seq<u8>) {
        broadcast use lemma_cat_assoc;
        assert(a.bytes() + ta =~= a.0.bytes() + (ta));
        assert(b.bytes() + tb =~= b.0.bytes() + (tb));
        T::prefix_free(&a.0, &b.0, ta, tb);
    }
//@ member stable_hash
//@ head
        broadcast use lemma_cat_assoc;
//@ end
impl<T0: Wire, T1: Wire> Wire for (T0, T1, ) { open spec fn bytes(&self) -> Seq<u8> { self.0.bytes() + self.1.bytes() } }
//@ macro crates/stable_hash/src/lib.rs :: impl_stable_hash_tuple!(T U)
//@ extra
    proof fn prefix_free(a: &Self, b: &Self, ta: Seq<u8>, tb: Seq<u8>) {
        broadcast use lemma_cat_assoc;
        assert(a.bytes() + ta =~= a.0.bytes() + (a.1.bytes() + (ta)));
        assert(b.bytes() + tb =~= b.0.bytes() + (b.1.bytes() + (tb)));
        T::prefix_free(&a.0, &b.0, a.1.bytes() + (ta), b.1.bytes() + (tb));
        U::prefix_free(&a.1, &b.1, ta, tb);
    }
//@ member stable_hash
//@ head
        broadcast use lemma_cat_assoc;
//@ end
impl<T0: Wire, T1: Wire, T2: Wire> Wire for (T0, T1, T2, ) { open spec fn bytes(&self) -> Seq<u8> { self.0.bytes() + self.1.bytes() + self.2.bytes() } }
//@ macro crates/stable_hash/src/lib.rs :: impl_stable_hash_tuple!(T U V)
//@ extra
    proof fn prefix_free(a: &Self, b: &Self, ta: Seq<u8>, tb: Seq<u8>) {
        broadcast use lemma_cat_assoc;
        assert(a.bytes() + ta =~= a.0.bytes() + (a.1.bytes() + (a.2.bytes() + (ta))));
        assert(b.bytes() + tb =~= b.0.bytes() + (b.1.bytes() + (b.2.bytes() + (tb))));
        T::prefix_free(&a.0, &b.0, a.1.bytes() + (a.2.bytes() + (ta)), b.1.bytes() + (b.2.bytes() + (tb)));
        U::prefix_free(&a.1, &b.1, a.2.bytes() + (ta), b.2.bytes() + (tb));
        V::prefix_free(&a.2, &b.2, ta, tb);
    }
//@ member stable_hash
//@ head
        broadcast use lemma_cat_assoc;
//@ end
impl<T0: Wire, T1: Wire, T2: Wire, T3: Wire> Wire for (T0, T1, T2, T3, ) { open spec fn bytes(&self) -> Seq<u8> { self.0.bytes() + self.1.bytes() + self.2.bytes() + self.3.bytes() } }
//@ macro crates/stable_hash/src/lib.rs :: impl_stable_hash_tuple!(T U V W)
//@ extra
    proof fn prefix_free(a: &Self, b: &Self, ta: Seq<u8>, tb: Seq<u8>) {
        broadcast use lemma_cat_assoc;
        assert(a.bytes() + ta =~= a.0.bytes() + (a.1.bytes() + (a.2.bytes() + (a.3.bytes() + (ta)))));
        assert(b.bytes() + tb =~= b.0.bytes() + (b.1.bytes() + (b.2.bytes() + (b.3.bytes() + (tb)))));
        T::prefix_free(&a.0, &b.0, a.1.bytes() + (a.2.bytes() + (a.3.bytes() + (ta))), b.1.bytes() + (b.2.bytes() + (b.3.bytes() + (tb))));
        U::prefix_free(&a.1, &b.1, a.2.bytes() + (a.3.bytes() + (ta)), b.2.bytes() + (b.3.bytes() + (tb)));
        V::prefix_free(&a.2, &b.2, a.3.bytes() + (ta), b.3.bytes() + (tb));
        W::prefix_free(&a.3, &b.3, ta, tb);
    }
//@ member stable_hash
//@ head
        broadcast use lemma_cat_assoc;
//@ end
impl<T0: Wire, T1: Wire, T2: Wire, T3: Wire, T4: Wire> Wire for (T0, T1, T2, T3, T4, ) { open spec fn bytes(&self) -> Seq<u8> { self.0.bytes() + self.1.bytes() + self.2.bytes() + self.3.bytes() + self.4.bytes() } }
//@ macro crates/stable_hash/src/lib.rs :: impl_stable_hash_tuple!(T U V W X)
//@ extra
    proof fn prefix_free(a: &Self, b: &Self, ta: Seq<u8>, tb: Seq<u8>) {
        broadcast use lemma_cat_assoc;
        assert(a.bytes() + ta =~= a.0.bytes() + (a.1.bytes() + (a.2.bytes() + (a.3.bytes() + (a.4.bytes() + (ta))))));
        assert(b.bytes() + tb =~= b.0.bytes() + (b.1.bytes() + (b.2.bytes() + (b.3.bytes() + (b.4.bytes() + (tb))))));
        T::prefix_free(&a.0, &b.0, a.1.bytes() + (a.2.bytes() + (a.3.bytes() + (a.4.bytes() + (ta)))), b.1.bytes() + (b.2.bytes() + (b.3.bytes() + (b.4.bytes() + (tb)))));
        U::prefix_free(&a.1, &b.1, a.2.bytes() + (a.3.bytes() + (a.4.bytes() + (ta))), b.2.bytes() + (b.3.bytes() + (b.4.bytes() + (tb))));
        V::prefix_free(&a.2, &b.2, a.3.bytes() + (a.4.bytes() + (ta)), b.3.bytes() + (b.4.bytes() + (tb)));
        W::prefix_free(&a.3, &b.3, a.4.bytes() + (ta), b.4.bytes() + (tb));
        X::prefix_free(&a.4, &b.4, ta, tb);
    }
//@ member stable_hash
//@ head
        broadcast use lemma_cat_assoc;
//@ end
impl<T0: Wire, T1: Wire, T2: Wire, T3: Wire, T4: Wire, T5: Wire> Wire for (T0, T1, T2, T3, T4, T5, ) { open spec fn bytes(&self) -> Seq<u8> { self.0.bytes() + self.1.bytes() + self.2.bytes() + self.3.bytes() + self.4.bytes() + self.5.bytes() } }
//@ macro crates/stable_hash/src/lib.rs :: impl_stable_hash_tuple!(T U V W X Y)
//@ extra
    proof fn prefix_free(a: &Self, b: &Self, ta: Seq<u8>, tb: Seq<u8>) {
        broadcast use lemma_cat_assoc;
        assert(a.bytes() + ta =~= a.0.bytes() + (a.1.bytes() + (a.2.bytes() + (a.3.bytes() + (a.4.bytes() + (a.5.bytes() + (ta)))))));
        assert(b.bytes() + tb =~= b.0.bytes() + (b.1.bytes() + (b.2.bytes() + (b.3.bytes() + (b.4.bytes() + (b.5.bytes() + (tb)))))));
        T::prefix_free(&a.0, &b.0, a.1.bytes() + (a.2.bytes() + (a.3.bytes() + (a.4.bytes() + (a.5.bytes() + (ta))))), b.1.bytes() + (b.2.bytes() + (b.3.bytes() + (b.4.bytes() + (b.5.bytes() + (tb))))));
        U::prefix_free(&a.1, &b.1, a.2.bytes() + (a.3.bytes() + (a.4.bytes() + (a.5.bytes() + (ta)))), b.2.bytes() + (b.3.bytes() + (b.4.bytes() + (b.5.bytes() + (tb)))));
        V::prefix_free(&a.2, &b.2, a.3.bytes() + (a.4.bytes() + (a.5.bytes() + (ta))), b.3.bytes() + (b.4.bytes() + (b.5.bytes() + (tb))));
        W::prefix_free(&a.3, &b.3, a.4.bytes() + (a.5.bytes() + (ta)), b.4.bytes() + (b.5.bytes() + (tb)));
        X::prefix_free(&a.4, &b.4, a.5.bytes() + (ta), b.5.bytes() + (tb));
        Y::prefix_free(&a.5, &b.5, ta, tb);
    }
//@ member stable_hash
//@ head
        broadcast use lemma_cat_assoc;
//@ end
impl<T0: Wire, T1: Wire, T2: Wire, T3: Wire, T4: Wire, T5: Wire, T6: Wire> Wire for (T0, T1, T2, T3, T4, T5, T6, ) { open spec fn bytes(&self) -> Seq<u8> { self.0.bytes() + self.1.bytes() + self.2.bytes() + self.3.bytes() + self.4.bytes() + self.5.bytes() + self.6.bytes() } }
//@ macro crates/stable_hash/src/lib.rs :: impl_stable_hash_tuple!(T U V W X Y Z)
//@ extra
    proof fn prefix_free(a: &Self, b: &Self, ta: Seq<u8>, tb: Seq<u8>) {
        broadcast use lemma_cat_assoc;
        assert(a.bytes() + ta =~= a.0.bytes() + (a.1.bytes() + (a.2.bytes() + (a.3.bytes() + (a.4.bytes() + (a.5.bytes() + (a.6.bytes() + (ta))))))));
        assert(b.bytes() + tb =~= b.0.bytes() + (b.1.bytes() + (b.2.bytes() + (b.3.bytes() + (b.4.bytes() + (b.5.bytes() + (b.6.bytes() + (tb))))))));
        T::prefix_free(&a.0, &b.0, a.1.bytes() + (a.2.bytes() + (a.3.bytes() + (a.4.bytes() + (a.5.bytes() + (a.6.bytes() + (ta)))))), b.1.bytes() + (b.2.bytes() + (b.3.bytes() + (b.4.bytes() + (b.5.bytes() + (b.6.bytes() + (tb)))))));
        U::prefix_free(&a.1, &b.1, a.2.bytes() + (a.3.bytes() + (a.4.bytes() + (a.5.bytes() + (a.6.bytes() + (ta))))), b.2.bytes() + (b.3.bytes() + (b.4.bytes() + (b.5.bytes() + (b.6.bytes() + (tb))))));
        V::prefix_free(&a.2, &b.2, a.3.bytes() + (a.4.bytes() + (a.5.bytes() + (a.6.bytes() + (ta)))), b.3.bytes() + (b.4.bytes() + (b.5.bytes() + (b.6.bytes() + (tb)))));
        W::prefix_free(&a.3, &b.3, a.4.bytes() + (a.5.bytes() + (a.6.bytes() + (ta))), b.4.bytes() + (b.5.bytes() + (b.6.bytes() + (tb))));
        X::prefix_free(&a.4, &b.4, a.5.bytes() + (a.6.bytes() + (ta)), b.5.bytes() + (b.6.bytes() + (tb)));
        Y::prefix_free(&a.5, &b.5, a.6.bytes() + (ta), b.6.bytes() + (tb));
        Z::prefix_free(&a.6, &b.6, ta, tb);
    }
//@ member stable_hash
//@ head
        broadcast use lemma_cat_assoc;
//@ end
impl<T0: Wire, T1: Wire, T2: Wire, T3: Wire, T4: Wire, T5: Wire, T6: Wire, T7: Wire> Wire for (T0, T1, T2, T3, T4, T5, T6, T7, ) { open spec fn bytes(&self) -> Seq<u8> { self.0.bytes() + self.1.bytes() + self.2.bytes() + self.3.bytes() + self.4.bytes() + self.5.bytes() + self.6.bytes() + self.7.bytes() } }
//@ macro crates/stable_hash/src/lib.rs :: impl_stable_hash_tuple!(T U V W X Y Z A)
//@ extra
    proof fn prefix_free(a: &Self, b: &Self, ta: Seq<u8>, tb: Seq<u8>) {
        broadcast use lemma_cat_assoc;
        assert(a.bytes() + ta =~= a.0.bytes() + (a.1.bytes() + (a.2.bytes() + (a.3.bytes() + (a.4.bytes() + (a.5.bytes() + (a.6.bytes() + (a.7.bytes() + (ta)))))))));
        assert(b.bytes() + tb =~= b.0.bytes() + (b.1.bytes() + (b.2.bytes() + (b.3.bytes() + (b.4.bytes() + (b.5.bytes() + (b.6.bytes() + (b.7.bytes() + (tb)))))))));
        T::prefix_free(&a.0, &b.0, a.1.bytes() + (a.2.bytes() + (a.3.bytes() + (a.4.bytes() + (a.5.bytes() + (a.6.bytes() + (a.7.bytes() + (ta))))))), b.1.bytes() + (b.2.bytes() + (b.3.bytes() + (b.4.bytes() + (b.5.bytes() + (b.6.bytes() + (b.7.bytes() + (tb))))))));
        U::prefix_free(&a.1, &b.1, a.2.bytes() + (a.3.bytes() + (a.4.bytes() + (a.5.bytes() + (a.6.bytes() + (a.7.bytes() + (ta)))))), b.2.bytes() + (b.3.bytes() + (b.4.bytes() + (b.5.bytes() + (b.6.bytes() + (b.7.bytes() + (tb)))))));
        V::prefix_free(&a.2, &b.2, a.3.bytes() + (a.4.bytes() + (a.5.bytes() + (a.6.bytes() + (a.7.bytes() + (ta))))), b.3.bytes() + (b.4.bytes() + (b.5.bytes() + (b.6.bytes() + (b.7.bytes() + (tb))))));
        W::prefix_free(&a.3, &b.3, a.4.bytes() + (a.5.bytes() + (a.6.bytes() + (a.7.bytes() + (ta)))), b.4.bytes() + (b.5.bytes() + (b.6.bytes() + (b.7.bytes() + (tb)))));
        X::prefix_free(&a.4, &b.4, a.5.bytes() + (a.6.bytes() + (a.7.bytes() + (ta))), b.5.bytes() + (b.6.bytes() + (b.7.bytes() + (tb))));
        Y::prefix_free(&a.5, &b.5, a.6.bytes() + (a.7.bytes() + (ta)), b.6.bytes() + (b.7.bytes() + (tb)));
        Z::prefix_free(&a.6, &b.6, a.7.bytes() + (ta), b.7.bytes() + (tb));
        A::prefix_free(&a.7, &b.7, ta, tb);
    }
//@ member stable_hash
//@ head
        broadcast use lemma_cat_assoc;
//@ end
impl<T0: Wire, T1: Wire, T2: Wire, T3: Wire, T4: Wire, T5: Wire, T6: Wire, T7: Wire, T8: Wire> Wire for (T0, T1, T2, T3, T4, T5, T6, T7, T8, ) { open spec fn bytes(&self) -> Seq<u8> { self.0.bytes() + self.1.bytes() + self.2.bytes() + self.3.bytes() + self.4.bytes() + self.5.bytes() + self.6.bytes() + self.7.bytes() + self.8.bytes() } }
//@ macro crates/stable_hash/src/lib.rs :: impl_stable_hash_tuple!(T U V W X Y Z A B)
//@ extra
    proof fn prefix_free(a: &Self, b: &Self, ta: Seq<u8>, tb: Seq<u8>) {
        broadcast use lemma_cat_assoc;
        assert(a.bytes() + ta =~= a.0.bytes() + (a.1.bytes() + (a.2.bytes() + (a.3.bytes() + (a.4.bytes() + (a.5.bytes() + (a.6.bytes() + (a.7.bytes() + (a.8.bytes() + (ta))))))))));
        assert(b.bytes() + tb =~= b.0.bytes() + (b.1.bytes() + (b.2.bytes() + (b.3.bytes() + (b.4.bytes() + (b.5.bytes() + (b.6.bytes() + (b.7.bytes() + (b.8.bytes() + (tb))))))))));
        T::prefix_free(&a.0, &b.0, a.1.bytes() + (a.2.bytes() + (a.3.bytes() + (a.4.bytes() + (a.5.bytes() + (a.6.bytes() + (a.7.bytes() + (a.8.bytes() + (ta)))))))), b.1.bytes() + (b.2.bytes() + (b.3.bytes() + (b.4.bytes() + (b.5.bytes() + (b.6.bytes() + (b.7.bytes() + (b.8.bytes() + (tb)))))))));
        U::prefix_free(&a.1, &b.1, a.2.bytes() + (a.3.bytes() + (a.4.bytes() + (a.5.bytes() + (a.6.bytes() + (a.7.bytes() + (a.8.bytes() + (ta))))))), b.2.bytes() + (b.3.bytes() + (b.4.bytes() + (b.5.bytes() + (b.6.bytes() + (b.7.bytes() + (b.8.bytes() + (tb))))))));
        V::prefix_free(&a.2, &b.2, a.3.bytes() + (a.4.bytes() + (a.5.bytes() + (a.6.bytes() + (a.7.bytes() + (a.8.bytes() + (ta)))))), b.3.bytes() + (b.4.bytes() + (b.5.bytes() + (b.6.bytes() + (b.7.bytes() + (b.8.bytes() + (tb)))))));
        W::prefix_free(&a.3, &b.3, a.4.bytes() + (a.5.bytes() + (a.6.bytes() + (a.7.bytes() + (a.8.bytes() + (ta))))), b.4.bytes() + (b.5.bytes() + (b.6.bytes() + (b.7.bytes() + (b.8.bytes() + (tb))))));
        X::prefix_free(&a.4, &b.4, a.5.bytes() + (a.6.bytes() + (a.7.bytes() + (a.8.bytes() + (ta)))), b.5.bytes() + (b.6.bytes() + (b.7.bytes() + (b.8.bytes() + (tb)))));
        Y::prefix_free(&a.5, &b.5, a.6.bytes() + (a.7.bytes() + (a.8.bytes() + (ta))), b.6.bytes() + (b.7.bytes() + (b.8.bytes() + (tb))));
        Z::prefix_free(&a.6, &b.6, a.7.bytes() + (a.8.bytes() + (ta)), b.7.bytes() + (b.8.bytes() + (tb)));
        A::prefix_free(&a.7, &b.7, a.8.bytes() + (ta), b.8.bytes() + (tb));
        B::prefix_free(&a.8, &b.8, ta, tb);
    }
//@ member stable_hash
//@ head
        broadcast use lemma_cat_assoc;
//@ end
impl<T0: Wire, T1: Wire, T2: Wire, T3: Wire, T4: Wire, T5: Wire, T6: Wire, T7: Wire, T8: Wire, T9: Wire> Wire for (T0, T1, T2, T3, T4, T5, T6, T7, T8, T9, ) { open spec fn bytes(&self) -> Seq<u8> { self.0.bytes() + self.1.bytes() + self.2.bytes() + self.3.bytes() + self.4.bytes() + self.5.bytes() + self.6.bytes() + self.7.bytes() + self.8.bytes() + self.9.bytes() } }
//@ macro crates/stable_hash/src/lib.rs :: impl_stable_hash_tuple!(T U V W X Y Z A B C)
//@ extra
    proof fn prefix_free(a: &Self, b: &Self, ta: Seq<u8>, tb: Seq<u8>) {
        broadcast use lemma_cat_assoc;
        assert(a.bytes() + ta =~= a.0.bytes() + (a.1.bytes() + (a.2.bytes() + (a.3.bytes() + (a.4.bytes() + (a.5.bytes() + (a.6.bytes() + (a.7.bytes() + (a.8.bytes() + (a.9.bytes() + (ta)))))))))));
        assert(b.bytes() + tb =~= b.0.bytes() + (b.1.bytes() + (b.2.bytes() + (b.3.bytes() + (b.4.bytes() + (b.5.bytes() + (b.6.bytes() + (b.7.bytes() + (b.8.bytes() + (b.9.bytes() + (tb)))))))))));
        T::prefix_free(&a.0, &b.0, a.1.bytes() + (a.2.bytes() + (a.3.bytes() + (a.4.bytes() + (a.5.bytes() + (a.6.bytes() + (a.7.bytes() + (a.8.bytes() + (a.9.bytes() + (ta))))))))), b.1.bytes() + (b.2.bytes() + (b.3.bytes() + (b.4.bytes() + (b.5.bytes() + (b.6.bytes() + (b.7.bytes() + (b.8.bytes() + (b.9.bytes() + (tb))))))))));
        U::prefix_free(&a.1, &b.1, a.2.bytes() + (a.3.bytes() + (a.4.bytes() + (a.5.bytes() + (a.6.bytes() + (a.7.bytes() + (a.8.bytes() + (a.9.bytes() + (ta)))))))), b.2.bytes() + (b.3.bytes() + (b.4.bytes() + (b.5.bytes() + (b.6.bytes() + (b.7.bytes() + (b.8.bytes() + (b.9.bytes() + (tb)))))))));
        V::prefix_free(&a.2, &b.2, a.3.bytes() + (a.4.bytes() + (a.5.bytes() + (a.6.bytes() + (a.7.bytes() + (a.8.bytes() + (a.9.bytes() + (ta))))))), b.3.bytes() + (b.4.bytes() + (b.5.bytes() + (b.6.bytes() + (b.7.bytes() + (b.8.bytes() + (b.9.bytes() + (tb))))))));
        W::prefix_free(&a.3, &b.3, a.4.bytes() + (a.5.bytes() + (a.6.bytes() + (a.7.bytes() + (a.8.bytes() + (a.9.bytes() + (ta)))))), b.4.bytes() + (b.5.bytes() + (b.6.bytes() + (b.7.bytes() + (b.8.bytes() + (b.9.bytes() + (tb)))))));
        X::prefix_free(&a.4, &b.4, a.5.bytes() + (a.6.bytes() + (a.7.bytes() + (a.8.bytes() + (a.9.bytes() + (ta))))), b.5.bytes() + (b.6.bytes() + (b.7.bytes() + (b.8.bytes() + (b.9.bytes() + (tb))))));
        Y::prefix_free(&a.5, &b.5, a.6.bytes() + (a.7.bytes() + (a.8.bytes() + (a.9.bytes() + (ta)))), b.6.bytes() + (b.7.bytes() + (b.8.bytes() + (b.9.bytes() + (tb)))));
        Z::prefix_free(&a.6, &b.6, a.7.bytes() + (a.8.bytes() + (a.9.bytes() + (ta))), b.7.bytes() + (b.8.bytes() + (b.9.bytes() + (tb))));
        A::prefix_free(&a.7, &b.7, a.8.bytes() + (a.9.bytes() + (ta)), b.8.bytes() + (b.9.bytes() + (tb)));
        B::prefix_free(&a.8, &b.8, a.9.bytes() + (ta), b.9.bytes() + (tb));
        C::prefix_free(&a.9, &b.9, ta, tb);
    }
//@ member stable_hash
//@ head
        broadcast use lemma_cat_assoc;
//@ end
impl<T0: Wire, T1: Wire, T2: Wire, T3: Wire, T4: Wire, T5: Wire, T6: Wire, T7: Wire, T8: Wire, T9: Wire, T10: Wire> Wire for (T0, T1, T2, T3, T4, T5, T6, T7, T8, T9, T10, ) { open spec fn bytes(&self) -> Seq<u8> { self.0.bytes() + self.1.bytes() + self.2.bytes() + self.3.bytes() + self.4.bytes() + self.5.bytes() + self.6.bytes() + self.7.bytes() + self.8.bytes() + self.9.bytes() + self.10.bytes() } }
//@ macro crates/stable_hash/src/lib.rs :: impl_stable_hash_tuple!(T U V W X Y Z A B C D)
//@ extra
    proof fn prefix_free(a: &Self, b: &Self, ta: Seq<u8>, tb: Seq<u8>) {
        broadcast use lemma_cat_assoc;
        assert(a.bytes() + ta =~= a.0.bytes() + (a.1.bytes() + (a.2.bytes() + (a.3.bytes() + (a.4.bytes() + (a.5.bytes() + (a.6.bytes() + (a.7.bytes() + (a.8.bytes() + (a.9.bytes() + (a.10.bytes() + (ta))))))))))));
        assert(b.bytes() + tb =~= b.0.bytes() + (b.1.bytes() + (b.2.bytes() + (b.3.bytes() + (b.4.bytes() + (b.5.bytes() + (b.6.bytes() + (b.7.bytes() + (b.8.bytes() + (b.9.bytes() + (b.10.bytes() + (tb))))))))))));
        T::prefix_free(&a.0, &b.0, a.1.bytes() + (a.2.bytes() + (a.3.bytes() + (a.4.bytes() + (a.5.bytes() + (a.6.bytes() + (a.7.bytes() + (a.8.bytes() + (a.9.bytes() + (a.10.bytes() + (ta)))))))))), b.1.bytes() + (b.2.bytes() + (b.3.bytes() + (b.4.bytes() + (b.5.bytes() + (b.6.bytes() + (b.7.bytes() + (b.8.bytes() + (b.9.bytes() + (b.10.bytes() + (tb)))))))))));
        U::prefix_free(&a.1, &b.1, a.2.bytes() + (a.3.bytes() + (a.4.bytes() + (a.5.bytes() + (a.6.bytes() + (a.7.bytes() + (a.8.bytes() + (a.9.bytes() + (a.10.bytes() + (ta))))))))), b.2.bytes() + (b.3.bytes() + (b.4.bytes() + (b.5.bytes() + (b.6.bytes() + (b.7.bytes() + (b.8.bytes() + (b.9.bytes() + (b.10.bytes() + (tb))))))))));
        V::prefix_free(&a.2, &b.2, a.3.bytes() + (a.4.bytes() + (a.5.bytes() + (a.6.bytes() + (a.7.bytes() + (a.8.bytes() + (a.9.bytes() + (a.10.bytes() + (ta)))))))), b.3.bytes() + (b.4.bytes() + (b.5.bytes() + (b.6.bytes() + (b.7.bytes() + (b.8.bytes() + (b.9.bytes() + (b.10.bytes() + (tb)))))))));
        W::prefix_free(&a.3, &b.3, a.4.bytes() + (a.5.bytes() + (a.6.bytes() + (a.7.bytes() + (a.8.bytes() + (a.9.bytes() + (a.10.bytes() + (ta))))))), b.4.bytes() + (b.5.bytes() + (b.6.bytes() + (b.7.bytes() + (b.8.bytes() + (b.9.bytes() + (b.10.bytes() + (tb))))))));
        X::prefix_free(&a.4, &b.4, a.5.bytes() + (a.6.bytes() + (a.7.bytes() + (a.8.bytes() + (a.9.bytes() + (a.10.bytes() + (ta)))))), b.5.bytes() + (b.6.bytes() + (b.7.bytes() + (b.8.bytes() + (b.9.bytes() + (b.10.bytes() + (tb)))))));
        Y::prefix_free(&a.5, &b.5, a.6.bytes() + (a.7.bytes() + (a.8.bytes() + (a.9.bytes() + (a.10.bytes() + (ta))))), b.6.bytes() + (b.7.bytes() + (b.8.bytes() + (b.9.bytes() + (b.10.bytes() + (tb))))));
        Z::prefix_free(&a.6, &b.6, a.7.bytes() + (a.8.bytes() + (a.9.bytes() + (a.10.bytes() + (ta)))), b.7.bytes() + (b.8.bytes() + (b.9.bytes() + (b.10.bytes() + (tb)))));
        A::prefix_free(&a.7, &b.7, a.8.bytes() + (a.9.bytes() + (a.10.bytes() + (ta))), b.8.bytes() + (b.9.bytes() + (b.10.bytes() + (tb))));
        B::prefix_free(&a.8, &b.8, a.9.bytes() + (a.10.bytes() + (ta)), b.9.bytes() + (b.10.bytes() + (tb)));
        C::prefix_free(&a.9, &b.9, a.10.bytes() + (ta), b.10.bytes() + (tb));
        D::prefix_free(&a.10, &b.10, ta, tb);
    }
//@ member stable_hash
//@ head
        broadcast use lemma_cat_assoc;
//@ end
impl<T0: Wire, T1: Wire, T2: Wire, T3: Wire, T4: Wire, T5: Wire, T6: Wire, T7: Wire, T8: Wire, T9: Wire, T10: Wire, T11: Wire> Wire for (T0, T1, T2, T3, T4, T5, T6, T7, T8, T9, T10, T11, ) { open spec fn bytes(&self) -> Seq<u8> { self.0.bytes() + self.1.bytes() + self.2.bytes() + self.3.bytes() + self.4.bytes() + self.5.bytes() + self.6.bytes() + self.7.bytes() + self.8.bytes() + self.9.bytes() + self.10.bytes() + self.11.bytes() } }
//@ macro crates/stable_hash/src/lib.rs :: impl_stable_hash_tuple!(T U V W X Y Z A B C D E)
//@ extra
    proof fn prefix_free(a: &Self, b: &Self, ta: Seq<u8>, tb: Seq<u8>) {
        broadcast use lemma_cat_assoc;
        assert(a.bytes() + ta =~= a.0.bytes() + (a.1.bytes() + (a.2.bytes() + (a.3.bytes() + (a.4.bytes() + (a.5.bytes() + (a.6.bytes() + (a.7.bytes() + (a.8.bytes() + (a.9.bytes() + (a.10.bytes() + (a.11.bytes() + (ta)))))))))))));
        assert(b.bytes() + tb =~= b.0.bytes() + (b.1.bytes() + (b.2.bytes() + (b.3.bytes() + (b.4.bytes() + (b.5.bytes() + (b.6.bytes() + (b.7.bytes() + (b.8.bytes() + (b.9.bytes() + (b.10.bytes() + (b.11.bytes() + (tb)))))))))))));
        T::prefix_free(&a.0, &b.0, a.1.bytes() + (a.2.bytes() + (a.3.bytes() + (a.4.bytes() + (a.5.bytes() + (a.6.bytes() + (a.7.bytes() + (a.8.bytes() + (a.9.bytes() + (a.10.bytes() + (a.11.bytes() + (ta))))))))))), b.1.bytes() + (b.2.bytes() + (b.3.bytes() + (b.4.bytes() + (b.5.bytes() + (b.6.bytes() + (b.7.bytes() + (b.8.bytes() + (b.9.bytes() + (b.10.bytes() + (b.11.bytes() + (tb))))))))))));
        U::prefix_free(&a.1, &b.1, a.2.bytes() + (a.3.bytes() + (a.4.bytes() + (a.5.bytes() + (a.6.bytes() + (a.7.bytes() + (a.8.bytes() + (a.9.bytes() + (a.10.bytes() + (a.11.bytes() + (ta)))))))))), b.2.bytes() + (b.3.bytes() + (b.4.bytes() + (b.5.bytes() + (b.6.bytes() + (b.7.bytes() + (b.8.bytes() + (b.9.bytes() + (b.10.bytes() + (b.11.bytes() + (tb)))))))))));
        V::prefix_free(&a.2, &b.2, a.3.bytes() + (a.4.bytes() + (a.5.bytes() + (a.6.bytes() + (a.7.bytes() + (a.8.bytes() + (a.9.bytes() + (a.10.bytes() + (a.11.bytes() + (ta))))))))), b.3.bytes() + (b.4.bytes() + (b.5.bytes() + (b.6.bytes() + (b.7.bytes() + (b.8.bytes() + (b.9.bytes() + (b.10.bytes() + (b.11.bytes() + (tb))))))))));
        W::prefix_free(&a.3, &b.3, a.4.bytes() + (a.5.bytes() + (a.6.bytes() + (a.7.bytes() + (a.8.bytes() + (a.9.bytes() + (a.10.bytes() + (a.11.bytes() + (ta)))))))), b.4.bytes() + (b.5.bytes() + (b.6.bytes() + (b.7.bytes() + (b.8.bytes() + (b.9.bytes() + (b.10.bytes() + (b.11.bytes() + (tb)))))))));
        X::prefix_free(&a.4, &b.4, a.5.bytes() + (a.6.bytes() + (a.7.bytes() + (a.8.bytes() + (a.9.bytes() + (a.10.bytes() + (a.11.bytes() + (ta))))))), b.5.bytes() + (b.6.bytes() + (b.7.bytes() + (b.8.bytes() + (b.9.bytes() + (b.10.bytes() + (b.11.bytes() + (tb))))))));
        Y::prefix_free(&a.5, &b.5, a.6.bytes() + (a.7.bytes() + (a.8.bytes() + (a.9.bytes() + (a.10.bytes() + (a.11.bytes() + (ta)))))), b.6.bytes() + (b.7.bytes() + (b.8.bytes() + (b.9.bytes() + (b.10.bytes() + (b.11.bytes() + (tb)))))));
        Z::prefix_free(&a.6, &b.6, a.7.bytes() + (a.8.bytes() + (a.9.bytes() + (a.10.bytes() + (a.11.bytes() + (ta))))), b.7.bytes() + (b.8.bytes() + (b.9.bytes() + (b.10.bytes() + (b.11.bytes() + (tb))))));
        A::prefix_free(&a.7, &b.7, a.8.bytes() + (a.9.bytes() + (a.10.bytes() + (a.11.bytes() + (ta)))), b.8.bytes() + (b.9.bytes() + (b.10.bytes() + (b.11.bytes() + (tb)))));
        B::prefix_free(&a.8, &b.8, a.9.bytes() + (a.10.bytes() + (a.11.bytes() + (ta))), b.9.bytes() + (b.10.bytes() + (b.11.bytes() + (tb))));
        C::prefix_free(&a.9, &b.9, a.10.bytes() + (a.11.bytes() + (ta)), b.10.bytes() + (b.11.bytes() + (tb)));
        D::prefix_free(&a.10, &b.10, a.11.bytes() + (ta), b.11.bytes() + (tb));
        E::prefix_free(&a.11, &b.11, ta, tb);
    }
//@ member stable_hash
//@ head
        broadcast use lemma_cat_assoc;
//@ end

// ---------------------------------------------------------------- sequences: 8-byte length prefix + elements in order
pub open spec fn concat<T: Wire>(s: Seq<T>) -> Seq<u8>
    decreases s.len()
{
    if s.len() == 0 { Seq::<u8>::empty() } else { s[0].bytes() + concat(s.skip(1)) }
}

pub proof fn lemma_concat_push<T: Wire>(s: Seq<T>, x: T)
    ensures concat(s.push(x)) == concat(s) + x.bytes()
    decreases s.len()
{
    if s.len() == 0 {
        assert(s.push(x).skip(1) =~= Seq::<T>::empty());
        assert(concat(s.push(x)) =~= x.bytes() + concat(Seq::<T>::empty()));
        assert(concat(s.push(x)) =~= concat(s) + x.bytes());
    } else {
        assert(s.push(x).skip(1) =~= s.skip(1).push(x));
        lemma_concat_push(s.skip(1), x);
        assert(concat(s.push(x)) =~= s[0].bytes() + (concat(s.skip(1)) + x.bytes()));
        assert(concat(s.push(x)) =~= concat(s) + x.bytes());
    }
}

pub proof fn lemma_concat_take_step<T: Wire>(s: Seq<T>, i: int)
    requires 0 <= i < s.len()
    ensures concat(s.take(i + 1)) == concat(s.take(i)) + s[i].bytes()
{
    assert(s.take(i + 1) =~= s.take(i).push(s[i]));
    lemma_concat_push(s.take(i), s[i]);
}

pub broadcast proof fn lemma_take_all<T>(s: Seq<T>)
    ensures #[trigger] s.take(s.len() as int) == s
{
    assert(s.take(s.len() as int) =~= s);
}

pub broadcast proof fn lemma_take0<T>(s: Seq<T>)
    ensures #[trigger] s.take(0) == Seq::<T>::empty()
{
    assert(s.take(0) =~= Seq::<T>::empty());
}

/// stream of a sequence: the same for Vec, slices and arrays -- a function of the element sequence only (not of capacity)
pub open spec fn seq_bytes<T: Wire>(s: Seq<T>) -> Seq<u8> { (s.len() as usize).lei() + concat(s) }

pub proof fn lemma_concat_prefix_free<T: StableHash>(a: Seq<T>, b: Seq<T>, ta: Seq<u8>, tb: Seq<u8>)
    requires a.len() == b.len(), concat(a) + ta == concat(b) + tb
    ensures concat(a) == concat(b), ta == tb
    decreases a.len()
{
    broadcast use lemma_cat_assoc, lemma_cat_empty;
    if a.len() > 0 {
        assert(concat(a) + ta =~= a[0].bytes() + (concat(a.skip(1)) + ta));
        assert(concat(b) + tb =~= b[0].bytes() + (concat(b.skip(1)) + tb));
        T::prefix_free(&a[0], &b[0], concat(a.skip(1)) + ta, concat(b.skip(1)) + tb);
        lemma_concat_prefix_free(a.skip(1), b.skip(1), ta, tb);
    }
}

pub proof fn lemma_seq_bytes_prefix_free<T: StableHash>(a: Seq<T>, b: Seq<T>, ta: Seq<u8>, tb: Seq<u8>)
    requires seq_bytes(a) + ta == seq_bytes(b) + tb, a.len() <= usize::MAX, b.len() <= usize::MAX
    ensures seq_bytes(a) == seq_bytes(b), ta == tb
{
    broadcast use lemma_cat_assoc;
    lemma_le_prefix_free(a.len() as usize, b.len() as usize, concat(a) + ta, concat(b) + tb);
    lemma_concat_prefix_free(a, b, ta, tb);
}

impl<T: Wire> Wire for Vec<T> { open spec fn bytes(&self) -> Seq<u8> { seq_bytes(self@) } }
impl<T: Wire> Wire for [T] { open spec fn bytes(&self) -> Seq<u8> { seq_bytes(self@) } }
impl<T: Wire, const N: usize> Wire for [T; N] { open spec fn bytes(&self) -> Seq<u8> { seq_bytes(self@) } }

//@ impl crates/stable_hash/src/lib.rs :: impl<T: StableHash> StableHash for Vec<T>
//@ extra
    proof fn prefix_free(a: &Self, b: &Self, ta: Seq<u8>, tb: Seq<u8>) {
        let (x, y) = (a.len(), b.len());
        lemma_seq_bytes_prefix_free(a@, b@, ta, tb);
    }
//@ member stable_hash
//@ head
        broadcast use lemma_take_all, lemma_take0, lemma_cat_empty;
//@ loop 0 iter __it
//@ loop 0 inv
            invariant state.written() =~= old(state).written() + (self@.len() as usize).lei() + concat(self@.take(__it.index@ as int)),
//@ loop 0 head
            proof { lemma_concat_take_step(self@, __it.index@ as int); }
//@ end

// Cow: owned or borrowed storage must not matter -- the stream is the stream of the value it dereferences to
/// std model (trusted): what a Cow dereferences to, whichever variant it is
pub uninterp spec fn cow_view<'a, 'b, T: ?Sized + ToOwned>(c: &'b std::borrow::Cow<'a, T>) -> &'b T;
pub assume_specification<'a, 'b, T: ?Sized + ToOwned>[ <std::borrow::Cow<'a, T> as std::ops::Deref>::deref ](c: &'b std::borrow::Cow<'a, T>) -> (r: &'b T)
    ensures r == cow_view(c);
impl<'a, T: Wire + Clone> Wire for std::borrow::Cow<'a, T> { open spec fn bytes(&self) -> Seq<u8> { cow_view(self).bytes() } }
//@ impl crates/stable_hash/src/lib.rs :: impl<T: StableHash + Clone> StableHash for std::borrow::Cow<'_, T>
//@ extra
    proof fn prefix_free(a: &Self, b: &Self, ta: Seq<u8>, tb: Seq<u8>) {
        T::prefix_free(cow_view(a), cow_view(b), ta, tb);
    }
//@ member stable_hash
//@ end

// VecDeque: the hash depends on the element SEQUENCE (the view), not on where the ring buffer wraps (rule R16)
impl<T: Wire> Wire for std::collections::VecDeque<T> { open spec fn bytes(&self) -> Seq<u8> { seq_bytes(self@) } }
//@ impl crates/stable_hash/src/lib.rs :: impl<T: StableHash> StableHash for std::collections::VecDeque<T>
//@ extra
    proof fn prefix_free(a: &Self, b: &Self, ta: Seq<u8>, tb: Seq<u8>) {
        let (x, y) = (a.len(), b.len());
        lemma_seq_bytes_prefix_free(a@, b@, ta, tb);
    }
//@ member stable_hash
//@ head
        broadcast use lemma_take_all, lemma_take0, lemma_cat_empty;
//@ loop 0 iter __it
//@ loop 0 itercall
//@ loop 0 inv
            invariant state.written() =~= old(state).written() + (self@.len() as usize).lei() + concat(self@.take(__it.index@ as int)),
//@ loop 0 head
            proof { lemma_concat_take_step(self@, __it.index@ as int); }
//@ end

//@ impl crates/stable_hash/src/lib.rs :: impl<T: StableHash> StableHash for [T]
//@ extra
    proof fn prefix_free(a: &Self, b: &Self, ta: Seq<u8>, tb: Seq<u8>) {
        let (x, y) = (a.len(), b.len());
        lemma_seq_bytes_prefix_free(a@, b@, ta, tb);
    }
//@ member stable_hash
//@ head
        broadcast use lemma_take_all, lemma_take0, lemma_cat_empty;
//@ loop 0 iter __it
//@ loop 0 inv
            invariant state.written() =~= old(state).written() + (self@.len() as usize).lei() + concat(self@.take(__it.index@ as int)),
//@ loop 0 head
            proof { lemma_concat_take_step(self@, __it.index@ as int); }
//@ end

//@ impl crates/stable_hash/src/lib.rs :: impl<T: StableHash, const N: usize> StableHash for [T; N]
//@ extra
    proof fn prefix_free(a: &Self, b: &Self, ta: Seq<u8>, tb: Seq<u8>) {
        lemma_seq_bytes_prefix_free(a@, b@, ta, tb);
    }
//@ member stable_hash
//@ end

// ---------------------------------------------------------------- ranges, NonZero, Duration, PhantomData
impl<T: Wire> Wire for std::ops::Range<T> { open spec fn bytes(&self) -> Seq<u8> { self.start.bytes() + self.end.bytes() } }
impl<T: Wire> Wire for std::ops::RangeFrom<T> { open spec fn bytes(&self) -> Seq<u8> { self.start.bytes() } }
impl<T: Wire> Wire for std::ops::RangeTo<T> { open spec fn bytes(&self) -> Seq<u8> { self.end.bytes() } }
impl<T: Wire> Wire for std::ops::RangeToInclusive<T> { open spec fn bytes(&self) -> Seq<u8> { self.end.bytes() } }
impl Wire for std::ops::RangeFull { open spec fn bytes(&self) -> Seq<u8> { Seq::<u8>::empty() } }
impl<T> Wire for std::marker::PhantomData<T> { open spec fn bytes(&self) -> Seq<u8> { Seq::<u8>::empty() } }
//@ impl crates/stable_hash/src/lib.rs :: impl<T: StableHash> StableHash for std::ops::Range<T>
//@ extra
    proof fn prefix_free(a: &Self, b: &Self, ta: Seq<u8>, tb: Seq<u8>) {
        broadcast use lemma_cat_assoc;
        T::prefix_free(&a.start, &b.start, a.end.bytes() + ta, b.end.bytes() + tb);
        T::prefix_free(&a.end, &b.end, ta, tb);
    }
//@ member stable_hash
//@ head
        broadcast use lemma_cat_assoc;
//@ end
//@ impl crates/stable_hash/src/lib.rs :: impl<T: StableHash> StableHash for std::ops::RangeFrom<T>
//@ extra
    proof fn prefix_free(a: &Self, b: &Self, ta: Seq<u8>, tb: Seq<u8>) { T::prefix_free(&a.start, &b.start, ta, tb); }
//@ member stable_hash
//@ end
//@ impl crates/stable_hash/src/lib.rs :: impl<T: StableHash> StableHash for std::ops::RangeTo<T>
//@ extra
    proof fn prefix_free(a: &Self, b: &Self, ta: Seq<u8>, tb: Seq<u8>) { T::prefix_free(&a.end, &b.end, ta, tb); }
//@ member stable_hash
//@ end
//@ impl crates/stable_hash/src/lib.rs :: impl<T: StableHash> StableHash for std::ops::RangeToInclusive<T>
//@ extra
    proof fn prefix_free(a: &Self, b: &Self, ta: Seq<u8>, tb: Seq<u8>) { T::prefix_free(&a.end, &b.end, ta, tb); }
//@ member stable_hash
//@ end
//@ impl crates/stable_hash/src/lib.rs :: impl StableHash for std::ops::RangeFull
//@ extra
    proof fn prefix_free(a: &Self, b: &Self, ta: Seq<u8>, tb: Seq<u8>) { broadcast use lemma_cat_empty; }
//@ member stable_hash
//@ head
        broadcast use lemma_cat_empty;
//@ end
//@ impl crates/stable_hash/src/lib.rs :: impl<T> StableHash for std::marker::PhantomData<T>
//@ extra
    proof fn prefix_free(a: &Self, b: &Self, ta: Seq<u8>, tb: Seq<u8>) { broadcast use lemma_cat_empty; }
//@ member stable_hash
//@ head
        broadcast use lemma_cat_empty;
//@ end
impl Wire for std::num::NonZeroU8 { open spec fn bytes(&self) -> Seq<u8> { (self@ as u8).bytes() } }
//@ impl crates/stable_hash/src/lib.rs :: impl StableHash for std::num::NonZeroU8
//@ extra
    proof fn prefix_free(a: &Self, b: &Self, ta: Seq<u8>, tb: Seq<u8>) { u8::prefix_free(&(a@ as u8), &(b@ as u8), ta, tb); }
//@ member stable_hash
//@ end
impl Wire for std::num::NonZeroU16 { open spec fn bytes(&self) -> Seq<u8> { (self@ as u16).bytes() } }
//@ impl crates/stable_hash/src/lib.rs :: impl StableHash for std::num::NonZeroU16
//@ extra
    proof fn prefix_free(a: &Self, b: &Self, ta: Seq<u8>, tb: Seq<u8>) { u16::prefix_free(&(a@ as u16), &(b@ as u16), ta, tb); }
//@ member stable_hash
//@ end
impl Wire for std::num::NonZeroU32 { open spec fn bytes(&self) -> Seq<u8> { (self@ as u32).bytes() } }
//@ impl crates/stable_hash/src/lib.rs :: impl StableHash for std::num::NonZeroU32
//@ extra
    proof fn prefix_free(a: &Self, b: &Self, ta: Seq<u8>, tb: Seq<u8>) { u32::prefix_free(&(a@ as u32), &(b@ as u32), ta, tb); }
//@ member stable_hash
//@ end
impl Wire for std::num::NonZeroU64 { open spec fn bytes(&self) -> Seq<u8> { (self@ as u64).bytes() } }
//@ impl crates/stable_hash/src/lib.rs :: impl StableHash for std::num::NonZeroU64
//@ extra
    proof fn prefix_free(a: &Self, b: &Self, ta: Seq<u8>, tb: Seq<u8>) { u64::prefix_free(&(a@ as u64), &(b@ as u64), ta, tb); }
//@ member stable_hash
//@ end
impl Wire for std::num::NonZeroU128 { open spec fn bytes(&self) -> Seq<u8> { (self@ as u128).bytes() } }
//@ impl crates/stable_hash/src/lib.rs :: impl StableHash for std::num::NonZeroU128
//@ extra
    proof fn prefix_free(a: &Self, b: &Self, ta: Seq<u8>, tb: Seq<u8>) { u128::prefix_free(&(a@ as u128), &(b@ as u128), ta, tb); }
//@ member stable_hash
//@ end
impl Wire for std::num::NonZeroUsize { open spec fn bytes(&self) -> Seq<u8> { (self@ as usize).bytes() } }
//@ impl crates/stable_hash/src/lib.rs :: impl StableHash for std::num::NonZeroUsize
//@ extra
    proof fn prefix_free(a: &Self, b: &Self, ta: Seq<u8>, tb: Seq<u8>) { usize::prefix_free(&(a@ as usize), &(b@ as usize), ta, tb); }
//@ member stable_hash
//@ end
impl Wire for std::num::NonZeroI8 { open spec fn bytes(&self) -> Seq<u8> { (self@ as i8).bytes() } }
//@ impl crates/stable_hash/src/lib.rs :: impl StableHash for std::num::NonZeroI8
//@ extra
    proof fn prefix_free(a: &Self, b: &Self, ta: Seq<u8>, tb: Seq<u8>) { i8::prefix_free(&(a@ as i8), &(b@ as i8), ta, tb); }
//@ member stable_hash
//@ end
impl Wire for std::num::NonZeroI16 { open spec fn bytes(&self) -> Seq<u8> { (self@ as i16).bytes() } }
//@ impl crates/stable_hash/src/lib.rs :: impl StableHash for std::num::NonZeroI16
//@ extra
    proof fn prefix_free(a: &Self, b: &Self, ta: Seq<u8>, tb: Seq<u8>) { i16::prefix_free(&(a@ as i16), &(b@ as i16), ta, tb); }
//@ member stable_hash
//@ end
impl Wire for std::num::NonZeroI32 { open spec fn bytes(&self) -> Seq<u8> { (self@ as i32).bytes() } }
//@ impl crates/stable_hash/src/lib.rs :: impl StableHash for std::num::NonZeroI32
//@ extra
    proof fn prefix_free(a: &Self, b: &Self, ta: Seq<u8>, tb: Seq<u8>) { i32::prefix_free(&(a@ as i32), &(b@ as i32), ta, tb); }
//@ member stable_hash
//@ end
impl Wire for std::num::NonZeroI64 { open spec fn bytes(&self) -> Seq<u8> { (self@ as i64).bytes() } }
//@ impl crates/stable_hash/src/lib.rs :: impl StableHash for std::num::NonZeroI64
//@ extra
    proof fn prefix_free(a: &Self, b: &Self, ta: Seq<u8>, tb: Seq<u8>) { i64::prefix_free(&(a@ as i64), &(b@ as i64), ta, tb); }
//@ member stable_hash
//@ end
impl Wire for std::num::NonZeroI128 { open spec fn bytes(&self) -> Seq<u8> { (self@ as i128).bytes() } }
//@ impl crates/stable_hash/src/lib.rs :: impl StableHash for std::num::NonZeroI128
//@ extra
    proof fn prefix_free(a: &Self, b: &Self, ta: Seq<u8>, tb: Seq<u8>) { i128::prefix_free(&(a@ as i128), &(b@ as i128), ta, tb); }
//@ member stable_hash
//@ end
impl Wire for std::num::NonZeroIsize { open spec fn bytes(&self) -> Seq<u8> { (self@ as isize).bytes() } }
//@ impl crates/stable_hash/src/lib.rs :: impl StableHash for std::num::NonZeroIsize
//@ extra
    proof fn prefix_free(a: &Self, b: &Self, ta: Seq<u8>, tb: Seq<u8>) { isize::prefix_free(&(a@ as isize), &(b@ as isize), ta, tb); }
//@ member stable_hash
//@ end

// Duration (std model, trusted): (secs, nanos)
pub uninterp spec fn dur_secs(d: &std::time::Duration) -> u64;
pub uninterp spec fn dur_nanos(d: &std::time::Duration) -> u32;
pub assume_specification[ std::time::Duration::as_secs ](d: &std::time::Duration) -> (r: u64)
    ensures r == dur_secs(d);
pub assume_specification[ std::time::Duration::subsec_nanos ](d: &std::time::Duration) -> (r: u32)
    ensures r == dur_nanos(d);
impl Wire for std::time::Duration { open spec fn bytes(&self) -> Seq<u8> { dur_secs(self).bytes() + dur_nanos(self).bytes() } }
//@ impl crates/stable_hash/src/lib.rs :: impl StableHash for std::time::Duration
//@ extra
    proof fn prefix_free(a: &Self, b: &Self, ta: Seq<u8>, tb: Seq<u8>) {
        broadcast use lemma_cat_assoc;
        u64::prefix_free(&dur_secs(a), &dur_secs(b), dur_nanos(a).bytes() + ta, dur_nanos(b).bytes() + tb);
        u32::prefix_free(&dur_nanos(a), &dur_nanos(b), ta, tb);
    }
//@ member stable_hash
//@ head
        broadcast use lemma_cat_assoc;
//@ end


// ---------------------------------------------------------------- OS strings, paths, C strings (std model, trusted): each is a byte string;
// the stream is that byte string framed like a `[u8]` (length prefix + bytes), so neighbouring paths cannot run into each other
#[verifier::external_type_specification]
#[verifier::external_body]
pub struct ExOsStr(std::ffi::OsStr);
#[verifier::external_type_specification]
#[verifier::external_body]
pub struct ExOsString(std::ffi::OsString);
#[verifier::external_type_specification]
#[verifier::external_body]
pub struct ExPath(std::path::Path);
#[verifier::external_type_specification]
#[verifier::external_body]
pub struct ExPathBuf(std::path::PathBuf);
#[verifier::external_type_specification]
#[verifier::external_body]
pub struct ExCStr(std::ffi::CStr);
#[verifier::external_type_specification]
#[verifier::external_body]
pub struct ExCString(std::ffi::CString);
/// the platform byte representation of an OS string (injective in the value: two OS strings are equal iff these bytes are)
pub uninterp spec fn os_bytes(s: &std::ffi::OsStr) -> Seq<u8>;
pub uninterp spec fn c_bytes(s: &std::ffi::CStr) -> Seq<u8>;
pub assume_specification[ std::ffi::OsStr::as_encoded_bytes ](s: &std::ffi::OsStr) -> (r: &[u8])
    ensures r@ == os_bytes(s);
pub uninterp spec fn osstring_view(s: &std::ffi::OsString) -> &std::ffi::OsStr;
pub assume_specification[ std::ffi::OsString::as_os_str ](s: &std::ffi::OsString) -> (r: &std::ffi::OsStr)
    ensures r == osstring_view(s);
pub uninterp spec fn path_view(p: &std::path::Path) -> &std::ffi::OsStr;
pub assume_specification[ std::path::Path::as_os_str ](p: &std::path::Path) -> (r: &std::ffi::OsStr)
    ensures r == path_view(p);
pub uninterp spec fn pathbuf_view(p: &std::path::PathBuf) -> &std::path::Path;
pub assume_specification[ std::path::PathBuf::as_path ](p: &std::path::PathBuf) -> (r: &std::path::Path)
    ensures r == pathbuf_view(p);
pub assume_specification[ std::ffi::CStr::to_bytes ](s: &std::ffi::CStr) -> (r: &[u8])
    ensures r@ == c_bytes(s);
pub uninterp spec fn cstring_view(s: &std::ffi::CString) -> &std::ffi::CStr;
pub assume_specification[ std::ffi::CString::as_c_str ](s: &std::ffi::CString) -> (r: &std::ffi::CStr)
    ensures r == cstring_view(s);
pub open spec fn framed(b: Seq<u8>) -> Seq<u8> { seq_bytes(b) }
/// the element-wise image of a byte sequence is the byte sequence
pub proof fn lemma_concat_u8(b: Seq<u8>)
    ensures concat(b) == b
    decreases b.len()
{
    if b.len() == 0 {
        assert(concat(b) =~= b);
    } else {
        lemma_concat_u8(b.skip(1));
        assert(b =~= seq![b[0]] + b.skip(1));
        assert(concat(b) =~= b[0].bytes() + concat(b.skip(1)));
        assert(b[0].bytes() =~= seq![b[0]]);
    }
}
impl Wire for std::ffi::OsStr { open spec fn bytes(&self) -> Seq<u8> { framed(os_bytes(self)) } }
impl Wire for std::ffi::OsString { open spec fn bytes(&self) -> Seq<u8> { framed(os_bytes(osstring_view(self))) } }
impl Wire for std::path::Path { open spec fn bytes(&self) -> Seq<u8> { framed(os_bytes(path_view(self))) } }
impl Wire for std::path::PathBuf { open spec fn bytes(&self) -> Seq<u8> { framed(os_bytes(path_view(pathbuf_view(self)))) } }
impl Wire for std::ffi::CStr { open spec fn bytes(&self) -> Seq<u8> { framed(c_bytes(self)) } }
impl Wire for std::ffi::CString { open spec fn bytes(&self) -> Seq<u8> { framed(c_bytes(cstring_view(self))) } }
/// a value of these types holds at most isize::MAX bytes (Rust allocation invariant; per value)
#[verifier::external_body]
pub proof fn axiom_os_len(s: &std::ffi::OsStr) ensures os_bytes(s).len() <= usize::MAX {}
#[verifier::external_body]
pub proof fn axiom_c_len(s: &std::ffi::CStr) ensures c_bytes(s).len() <= usize::MAX {}

//@ impl crates/stable_hash/src/lib.rs :: impl StableHash for std::ffi::OsStr
//@ extra
    proof fn prefix_free(a: &Self, b: &Self, ta: Seq<u8>, tb: Seq<u8>) {
        axiom_os_len(a); axiom_os_len(b);
        lemma_seq_bytes_prefix_free(os_bytes(a), os_bytes(b), ta, tb);
    }
//@ member stable_hash
//@ end
//@ impl crates/stable_hash/src/lib.rs :: impl StableHash for std::ffi::OsString
//@ extra
    proof fn prefix_free(a: &Self, b: &Self, ta: Seq<u8>, tb: Seq<u8>) { std::ffi::OsStr::prefix_free(osstring_view(a), osstring_view(b), ta, tb); }
//@ member stable_hash
//@ end
//@ impl crates/stable_hash/src/lib.rs :: impl StableHash for std::path::Path
//@ extra
    proof fn prefix_free(a: &Self, b: &Self, ta: Seq<u8>, tb: Seq<u8>) { std::ffi::OsStr::prefix_free(path_view(a), path_view(b), ta, tb); }
//@ member stable_hash
//@ end
//@ impl crates/stable_hash/src/lib.rs :: impl StableHash for std::path::PathBuf
//@ extra
    proof fn prefix_free(a: &Self, b: &Self, ta: Seq<u8>, tb: Seq<u8>) { std::path::Path::prefix_free(pathbuf_view(a), pathbuf_view(b), ta, tb); }
//@ member stable_hash
//@ end
//@ impl crates/stable_hash/src/lib.rs :: impl StableHash for std::ffi::CStr
//@ extra
    proof fn prefix_free(a: &Self, b: &Self, ta: Seq<u8>, tb: Seq<u8>) {
        axiom_c_len(a); axiom_c_len(b);
        lemma_seq_bytes_prefix_free(c_bytes(a), c_bytes(b), ta, tb);
    }
//@ member stable_hash
//@ head
        broadcast use lemma_cat_assoc;
        proof { lemma_concat_u8(c_bytes(self)); axiom_c_len(self); }
//@ end
//@ impl crates/stable_hash/src/lib.rs :: impl StableHash for std::ffi::CString
//@ extra
    proof fn prefix_free(a: &Self, b: &Self, ta: Seq<u8>, tb: Seq<u8>) { std::ffi::CStr::prefix_free(cstring_view(a), cstring_view(b), ta, tb); }
//@ member stable_hash
//@ end

} // verus!
fn main() {}
