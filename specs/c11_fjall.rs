// C11 — byte-level key scheme of the Fjall backend (crates/storage/src/kv_database/fjall.rs).
//@ rule R10
//@ rule R11
//@ rule R17
#![allow(unused_imports, unused_variables, dead_code, non_snake_case)]
use vstd::prelude::*;
use vstd::std_specs::convert::*;
use std::sync::Arc;
verus! {

//@ include inc/bytes_order.rs

//@ include inc/c11_prelude.rs

/// struct stand-in (field subset): the functions under contract only pass `plugin` through, opaquely
pub struct Impl { pub plugin: Plugin }

/// fjall refuses empty keys: an empty key image is padded with one 0 byte
pub open spec fn pad(b: Seq<u8>) -> Seq<u8> { if b.len() == 0 { seq![0u8] } else { b } }

//@ impl crates/storage/src/kv_database/fjall.rs :: impl Impl
//@ member encode_value
//@ sig
        requires old(buffer)@.len() + key.bytes().len() < usize::MAX
        ensures
            final(buffer)@ =~= old(buffer)@ + (if non_empty { pad(key.bytes()) } else { key.bytes() }),
//@ member encode_value_length_prefixed
//@ sig
        requires old(buffer)@.len() + 8 + key.bytes().len() <= usize::MAX
        ensures final(buffer)@ == old(buffer)@ + lp(key.bytes())
//@ head
        proof { lemma_le64_roundtrip(0); }
//@ member encode_wide_column_key
//@ sig
        requires old(buffer)@.len() + key.bytes().len() + C::disc().bytes().len() + 1 < usize::MAX
        ensures
            W::enc() == DiscriminantEncoding::Prefixed ==>
                final(buffer)@ =~= old(buffer)@ + C::disc().bytes() + pad(key.bytes()),
            W::enc() == DiscriminantEncoding::Suffixed ==>
                final(buffer)@ =~= old(buffer)@ + pad(key.bytes()) + C::disc().bytes(),
//@ end

//@ include inc/c11_pair.rs

/// padding cannot create a collision: if some key of a prefix-free key type has an empty image,
/// then every key of that type has (so the type is a singleton on the wire), hence pad is injective on images
pub proof fn lemma_pad_injective<K: Wire>(a: K, b: K)
    requires prefix_free_ty::<K>(), pad(a.bytes()) == pad(b.bytes())
    ensures a.bytes() == b.bytes()
{
    if a.bytes().len() == 0 && b.bytes().len() != 0 {
        // a.bytes() + b.bytes() == b.bytes() + a.bytes()  (a is empty)  ==> a.bytes() == b.bytes()
        assert(a.bytes() + b.bytes() =~= b.bytes() + a.bytes());
    }
    if b.bytes().len() == 0 && a.bytes().len() != 0 {
        assert(a.bytes() + b.bytes() =~= b.bytes() + a.bytes());
    }
}

/// Suffixed columns: pad(key) ++ discriminant is injective in (key image, discriminant image)
pub proof fn lemma_padded_pair_injective<K: Wire, D: Wire>(k1: K, d1: D, k2: K, d2: D)
    requires prefix_free_ty::<K>(), pad(k1.bytes()) + d1.bytes() == pad(k2.bytes()) + d2.bytes()
    ensures k1.bytes() == k2.bytes(), d1.bytes() == d2.bytes()
{
    let (a, b) = (k1.bytes(), k2.bytes());
    if a.len() == 0 && b.len() == 0 {
        assert(d1.bytes() =~= (pad(a) + d1.bytes()).subrange(1, (pad(a) + d1.bytes()).len() as int));
        assert(d2.bytes() =~= (pad(b) + d2.bytes()).subrange(1, (pad(b) + d2.bytes()).len() as int));
    } else if a.len() == 0 {
        assert(a + b =~= b + a);
    } else if b.len() == 0 {
        assert(a + b =~= b + a);
    } else {
    }
}

// ---------------------------------------------------------------- vacuity canaries: each MUST fail
fn canary_fjall_encode_value<K: Encode>(x: &Impl, key: &K, buffer: &mut Vec<u8>)
    requires old(buffer)@.len() + key.bytes().len() < usize::MAX
{
    x.encode_value(key, buffer, true);
    assert(false);
}

fn canary_fjall_encode_lp<K: Encode>(x: &Impl, key: &K, buffer: &mut Vec<u8>)
    requires old(buffer)@.len() + 8 + key.bytes().len() <= usize::MAX
{
    x.encode_value_length_prefixed(key, buffer);
    assert(false);
}


// ================================================================ the operations layer (as for RocksDB): which backend
// operation each trait method issues, on which keyspace, with which key / value bytes; direct and recorded path agree
//@ enum crates/storage/src/kv_database/fjall.rs :: ColumnKind
#[derive(Clone, Copy, PartialEq, Eq, Structural)]
//@ end

/// the key under which (column W, value type C, key k) lives (fjall: an empty key image is padded)
pub open spec fn wide_key<W: WideColumn, C: WideColumnValue<W>>(k: &W::Key) -> Seq<u8> {
    if W::enc() == DiscriminantEncoding::Prefixed { C::disc().bytes() + pad(k.bytes()) } else { pad(k.bytes()) + C::disc().bytes() }
}
/// the key under which member e of the set of k lives
pub open spec fn member_key<C: KeyOfSetColumn>(k: &C::Key, e: &C::Element) -> Seq<u8> { lp(k.bytes()) + e.bytes() }

//@ include inc/c11_ops.rs

pub type Keyspace = Handle;
pub mod fjall {
    use super::*;
    pub enum PersistMode { Buffer, SyncData, SyncAll }
    /// fjall::Iter: remembers what it scans
    #[verifier::external_body]
    pub struct Iter { _p: u8 }
    /// interface stand-in for fjall::OwnedWriteBatch: an ordered log of operations (atomic application at commit: trusted backend)
    #[verifier::external_body]
    pub struct OwnedWriteBatch { _p: u8 }
    impl OwnedWriteBatch {
        pub uninterp spec fn ops(&self) -> Seq<BOp>;
        #[verifier::external_body]
        pub fn insert<K: AsBytes, V: AsBytes>(&mut self, ks: &Handle, key: K, value: V)
            ensures final(self).ops() == old(self).ops().push(BOp::Put { ty: ks.ty(), kind: ks.kind(), key: key.seq(), value: value.seq() })
        { unimplemented!() }
        #[verifier::external_body]
        /// OwnedWriteBatch::durability: only changes the persist mode
        #[verifier::external_body]
        pub fn durability(self, mode: Option<PersistMode>) -> (r: Self)
            ensures r.ops() == self.ops()
        { unimplemented!() }
        /// OwnedWriteBatch::commit: one atomic write of everything in the batch
        #[verifier::external_body]
        pub fn commit(self) -> (r: Result<(), std::fmt::Error>)
            ensures r is Ok, written(self.ops())
        { unimplemented!() }
        #[verifier::external_body]
        pub fn remove<K: AsBytes>(&mut self, ks: &Handle, key: K)
            ensures final(self).ops() == old(self).ops().push(BOp::Del { ty: ks.ty(), kind: ks.kind(), key: key.seq() })
        { unimplemented!() }
    }
}
impl Impl {
    /// get_or_create_keyspace (DashMap cache + fjall handles: not under contract): the handle names the keyspace of (type id, kind)
    #[verifier::external_body]
    pub fn get_or_create_keyspace<C: Identifiable>(&self, kind: ColumnKind) -> (r: Keyspace)
        ensures r.ty() == C::STABLE_TYPE_ID, r.kind() == kind
    { unimplemented!() }
}

//@ enum crates/storage/src/kv_database/fjall.rs :: Operation
//@ struct crates/storage/src/kv_database/fjall.rs :: FjallWriteBatch
//@ struct crates/storage/src/kv_database/fjall.rs :: FjallSerializationBuffer
//@ const crates/storage/src/kv_database/fjall.rs :: BATCH_SIZE

pub open spec fn replayed(op: &Operation) -> BOp {
    match op {
        Operation::WideColumnPut { cf, key, value } => BOp::Put { ty: cf.ty(), kind: cf.kind(), key: key@, value: value@ },
        Operation::WideColumnDelete { cf, key } => BOp::Del { ty: cf.ty(), kind: cf.kind(), key: key@ },
        Operation::InsertMember { cf, key } => BOp::Put { ty: cf.ty(), kind: cf.kind(), key: key@, value: Seq::empty() },
        Operation::DeleteMember { cf, key } => BOp::Del { ty: cf.ty(), kind: cf.kind(), key: key@ },
    }
}
pub open spec fn replayed_all(ops: Seq<Operation>) -> Seq<BOp> { Seq::new(ops.len(), |i: int| replayed(&ops[i])) }
pub open spec fn op_cost(op: &Operation) -> nat {
    match op {
        Operation::WideColumnPut { cf, key, value } => key@.len() + value@.len(),
        Operation::WideColumnDelete { cf, key } => key@.len(),
        Operation::InsertMember { cf, key } => key@.len(),
        Operation::DeleteMember { cf, key } => key@.len(),
    }
}
pub open spec fn ops_cost(ops: Seq<Operation>) -> nat
    decreases ops.len()
{
    if ops.len() == 0 { 0 } else { ops_cost(ops.drop_last()) + op_cost(&ops.last()) }
}
pub proof fn lemma_ops_cost_take(ops: Seq<Operation>, i: int)
    requires 0 <= i < ops.len()
    ensures ops_cost(ops.take(i + 1)) == ops_cost(ops.take(i)) + op_cost(&ops[i]), ops_cost(ops.take(i + 1)) <= ops_cost(ops)
    decreases ops.len() - i
{
    assert(ops.take(i + 1).drop_last() =~= ops.take(i));
    if i + 1 < ops.len() { lemma_ops_cost_take(ops, i + 1); } else { assert(ops.take(i + 1) =~= ops); }
}

//@ impl crates/storage/src/kv_database/fjall.rs :: impl WriteBatch for FjallWriteBatch
//@ extra
    type SerializationBuffer = FjallSerializationBuffer;
    open spec fn est(&self) -> nat { self.bytes_written as nat }
    open spec fn cost(buffer: &FjallSerializationBuffer) -> nat { ops_cost(buffer.operations@) }
//@ member consume_serialization_buffer
//@ sig
        ensures final(self).batch.ops() =~= old(self).batch.ops() + replayed_all(buffer.operations@)
//@ head
        let ghost ops = buffer.operations@;
        proof { assert(ops.take(0) =~= Seq::<Operation>::empty()); }
//@ loop 0 iter __it
//@ loop 0 inv
            invariant
                ops == buffer.operations@,
                self.batch.ops() =~= old(self).batch.ops() + replayed_all(ops.take(__it.index@ as int)),
                self.bytes_written as nat == old(self).bytes_written as nat + ops_cost(ops.take(__it.index@ as int)),
                old(self).bytes_written as nat + ops_cost(ops) <= usize::MAX,
//@ loop 0 head
            proof {
                let i = __it.index@ as int;
                lemma_ops_cost_take(ops, i);
                assert(replayed_all(ops.take(i + 1)) =~= replayed_all(ops.take(i)).push(replayed(&ops[i])));
            }
//@ loop 0 after
        proof { assert(ops.take(ops.len() as int) =~= ops); }
//@ member put
//@ sig
        ensures final(self).batch.ops() == old(self).batch.ops().push(BOp::Put {
            ty: W::STABLE_TYPE_ID, kind: ColumnKind::WideColumn, key: wide_key::<W, C>(key), value: value.bytes() })
//@ member delete
//@ sig
        ensures final(self).batch.ops() == old(self).batch.ops().push(BOp::Del {
            ty: W::STABLE_TYPE_ID, kind: ColumnKind::WideColumn, key: wide_key::<W, C>(key) })
//@ member insert_member
//@ sig
        ensures final(self).batch.ops() == old(self).batch.ops().push(BOp::Put {
            ty: C::STABLE_TYPE_ID, kind: ColumnKind::KeyOfSet, key: member_key::<C>(key, value), value: Seq::empty() })
//@ member delete_member
//@ sig
        ensures final(self).batch.ops() == old(self).batch.ops().push(BOp::Del {
            ty: C::STABLE_TYPE_ID, kind: ColumnKind::KeyOfSet, key: member_key::<C>(key, value) })
//@ member should_write_more
//@ member commit
//@ sig
        ensures written(self.batch.ops())
//@ end

//@ impl crates/storage/src/kv_database/fjall.rs :: impl SerializationBuffer for FjallSerializationBuffer
//@ member put
//@ sig
        ensures replayed_all(final(self).operations@) =~= replayed_all(old(self).operations@).push(BOp::Put {
            ty: W::STABLE_TYPE_ID, kind: ColumnKind::WideColumn, key: wide_key::<W, C>(key), value: value.bytes() })
//@ member delete
//@ sig
        ensures replayed_all(final(self).operations@) =~= replayed_all(old(self).operations@).push(BOp::Del {
            ty: W::STABLE_TYPE_ID, kind: ColumnKind::WideColumn, key: wide_key::<W, C>(key) })
//@ member insert_member
//@ sig
        ensures replayed_all(final(self).operations@) =~= replayed_all(old(self).operations@).push(BOp::Put {
            ty: C::STABLE_TYPE_ID, kind: ColumnKind::KeyOfSet, key: member_key::<C>(key, value), value: Seq::empty() })
//@ member delete_member
//@ sig
        ensures replayed_all(final(self).operations@) =~= replayed_all(old(self).operations@).push(BOp::Del {
            ty: C::STABLE_TYPE_ID, kind: ColumnKind::KeyOfSet, key: member_key::<C>(key, value) })
//@ end



// ---------------------------------------------------------------- readers: the same keyspace, the same key bytes as the writers
/// fjall's value slice and iterator (interface stand-ins)
#[verifier::external_body]
pub struct UserValue { _p: u8 }
impl UserValue {
    pub uninterp spec fn view_bytes(&self) -> Seq<u8>;
    #[verifier::external_body]
    pub fn as_ref(&self) -> (r: &[u8]) ensures r@ == self.view_bytes() { unimplemented!() }
}
impl fjall::Iter {
    /// the keyspace and the key prefix this iterator enumerates (every committed key that starts with the prefix, and only those:
    /// fjall's `prefix()`, trusted)
    pub uninterp spec fn scans(&self) -> (StableTypeID, ColumnKind, Seq<u8>);
}
impl Handle {
    /// Keyspace::get
    #[verifier::external_body]
    pub fn get<K: AsBytes>(&self, key: K) -> (r: Result<Option<UserValue>, std::fmt::Error>)
        ensures r matches Ok(o) && (match o { Some(b) => stored(self.ty(), self.kind(), key.seq()) == Some(b.view_bytes()), None => stored(self.ty(), self.kind(), key.seq()) is None })
    { unimplemented!() }
    /// Keyspace::prefix
    #[verifier::external_body]
    pub fn prefix<K: AsBytes>(&self, prefix: K) -> (r: fjall::Iter)
        ensures r.scans() == (self.ty(), self.kind(), prefix.seq())
    { unimplemented!() }
}
//@ struct crates/storage/src/kv_database/fjall.rs :: Fjall
//@ struct crates/storage/src/kv_database/fjall.rs :: ScanMemberIterator
pub trait KvDatabaseScan {
    fn scan_members<'s, C: KeyOfSetColumn>(&'s self, key: &'s C::Key) -> ScanMemberIterator<C>
        requires 8 + key.bytes().len() <= usize::MAX;
}
//@ impl crates/storage/src/kv_database/fjall.rs :: impl KvDatabase for Fjall
//@ member get_wide_column
//@ ret r
//@ sig
        ensures
            match stored(W::STABLE_TYPE_ID, ColumnKind::WideColumn, wide_key::<W, C>(key)) {
                None => r is None,
                Some(b) => r matches Some(w) && (forall|v: C| b == #[trigger] v.bytes() ==> w.bytes() == v.bytes()),
            }
//@ end
//@ impl crates/storage/src/kv_database/fjall.rs :: impl KvDatabase for Fjall
//@ header-sub KvDatabase for Fjall => KvDatabaseScan for Fjall
//@ member scan_members
//@ text-sub Self::ScanMemberIterator<C> => ScanMemberIterator<C>
//@ ret r
//@ sig
        ensures
            // the scan enumerates the keyspace of exactly this set column under exactly the prefix lp(key): by lemma_no_leak /
            // lemma_member_split (spec level) that is exactly the stored members of exactly this key
            r.iter.scans() == (C::STABLE_TYPE_ID, ColumnKind::KeyOfSet, lp(key.bytes()))
//@ end


// ---------------------------------------------------------------- member scan, element side
/// element split used by ScanMemberIterator::next: skipping 8 + length bytes of a stored key yields the element bytes
pub proof fn lemma_member_split_f(kb: Seq<u8>, e: Seq<u8>)
    requires kb.len() < 0x1_0000_0000_0000_0000
    ensures ({ let s = lp(kb) + e; s.subrange(8 + le64_val(s.subrange(0, 8)) as int, s.len() as int) == e })
{
    lemma_le64_roundtrip(kb.len());
    let s = lp(kb) + e;
    assert(s.subrange(0, 8) =~= le64(kb.len()));
    assert(s.subrange(8 + kb.len() as int, s.len() as int) =~= e);
}
/// fjall's iterator item (a guard giving access to the stored key)
#[verifier::external_body]
pub struct Guard { _p: u8 }
impl Guard {
    pub uninterp spec fn stored_key(&self) -> Seq<u8>;
    #[verifier::external_body]
    pub fn key(self) -> (r: Result<UserValue, std::fmt::Error>)
        ensures r matches Ok(k) && k.view_bytes() == self.stored_key()
    { unimplemented!() }
}
impl fjall::Iter {
    /// the stored key the iterator is positioned at (None: prefix exhausted). ASSUMPTION (write paths above): every key stored
    /// in a key-of-set keyspace is a member_key image lp(kb) ++ eb with kb shorter than 2^56 bytes
    pub uninterp spec fn at(&self) -> Option<Seq<u8>>;
    #[verifier::external_body]
    pub fn next(&mut self) -> (r: Option<Guard>)
        ensures
            old(self).at() is None ==> r is None,
            old(self).at() matches Some(k) ==> (r matches Some(g) && g.stored_key() == k
                && exists|kb: Seq<u8>, eb: Seq<u8>| #![trigger lp(kb) + eb] k == lp(kb) + eb && kb.len() < 0x100_0000_0000_0000 && 8 + kb.len() + eb.len() <= usize::MAX),
    { unimplemented!() }
}
//@ impl crates/storage/src/kv_database/fjall.rs :: impl<C: KeyOfSetColumn> Iterator for ScanMemberIterator<C>
//@ header-sub Iterator for ScanMemberIterator<C> => ScanMemberIterator<C>
//@ member next
//@ text-sub Option<Self::Item> => Option<C::Element>
//@ ret r
//@ sig
        ensures
            old(self).iter.at() is None ==> r is None,
            old(self).iter.at() matches Some(k) ==> (r matches Some(e)
                && forall|kb: Seq<u8>, e0: C::Element| #![trigger lp(kb) + e0.bytes()] k == lp(kb) + e0.bytes() && kb.len() < 0x100_0000_0000_0000 ==> e.bytes() == e0.bytes()),
//@ head
        proof {
            axiom_try_from_slice8();
            assert forall|kb: Seq<u8>, eb: Seq<u8>| #![trigger lp(kb) + eb] kb.len() < 0x100_0000_0000_0000 implies ({
                let s = lp(kb) + eb;
                s.subrange(0, 8) =~= le64(kb.len()) && le64_val(s.subrange(0, 8)) == kb.len() && s.subrange(8 + kb.len() as int, s.len() as int) =~= eb && s.len() == 8 + kb.len() + eb.len()
            }) by { lemma_le64_roundtrip(kb.len()); lemma_member_split_f(kb, eb); }
        }
//@ end

} // verus!
fn main() {}
