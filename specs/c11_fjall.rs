// C11 — byte-level key scheme of the Fjall backend (crates/storage/src/kv_database/fjall.rs).
//@ rule R10
//@ rule R11
#![allow(unused_imports, unused_variables, dead_code, non_snake_case)]
use vstd::prelude::*;
use vstd::std_specs::convert::*;
verus! {

//@ include inc/bytes_order.rs

//@ include inc/c11_prelude.rs

/// fjall refuses empty keys: an empty key image is padded with one 0 byte
pub open spec fn pad(b: Seq<u8>) -> Seq<u8> { if b.len() == 0 { seq![0u8] } else { b } }

//@ impl crates/storage/src/kv_database/fjall.rs :: impl Impl
//@ member encode_value
//@ sig
        requires old(buffer)@.len() + key.bytes().len() < usize::MAX
        ensures
            final(buffer)@ =~= old(buffer)@ + (if non_empty { pad(key.bytes()) } else { key.bytes() }),
//@ member encode_value_length_prefixed
//@ sig
        requires old(buffer)@.len() + 8 + key.bytes().len() <= usize::MAX
        ensures final(buffer)@ == old(buffer)@ + lp(key.bytes())
//@ head
        proof { lemma_le64_roundtrip(0); }
//@ member encode_wide_column_key
//@ sig
        requires old(buffer)@.len() + key.bytes().len() + C::disc().bytes().len() + 1 < usize::MAX
        ensures
            W::enc() == DiscriminantEncoding::Prefixed ==>
                final(buffer)@ =~= old(buffer)@ + C::disc().bytes() + pad(key.bytes()),
            W::enc() == DiscriminantEncoding::Suffixed ==>
                final(buffer)@ =~= old(buffer)@ + pad(key.bytes()) + C::disc().bytes(),
//@ end

//@ include inc/c11_pair.rs

/// padding cannot create a collision: if some key of a prefix-free key type has an empty image,
/// then every key of that type has (so the type is a singleton on the wire), hence pad is injective on images
pub proof fn lemma_pad_injective<K: Wire>(a: K, b: K)
    requires prefix_free_ty::<K>(), pad(a.bytes()) == pad(b.bytes())
    ensures a.bytes() == b.bytes()
{
    if a.bytes().len() == 0 && b.bytes().len() != 0 {
        // a.bytes() + b.bytes() == b.bytes() + a.bytes()  (a is empty)  ==> a.bytes() == b.bytes()
        assert(a.bytes() + b.bytes() =~= b.bytes() + a.bytes());
    }
    if b.bytes().len() == 0 && a.bytes().len() != 0 {
        assert(a.bytes() + b.bytes() =~= b.bytes() + a.bytes());
    }
}

/// Suffixed columns: pad(key) ++ discriminant is injective in (key image, discriminant image)
pub proof fn lemma_padded_pair_injective<K: Wire, D: Wire>(k1: K, d1: D, k2: K, d2: D)
    requires prefix_free_ty::<K>(), pad(k1.bytes()) + d1.bytes() == pad(k2.bytes()) + d2.bytes()
    ensures k1.bytes() == k2.bytes(), d1.bytes() == d2.bytes()
{
    let (a, b) = (k1.bytes(), k2.bytes());
    if a.len() == 0 && b.len() == 0 {
        assert(d1.bytes() =~= (pad(a) + d1.bytes()).subrange(1, (pad(a) + d1.bytes()).len() as int));
        assert(d2.bytes() =~= (pad(b) + d2.bytes()).subrange(1, (pad(b) + d2.bytes()).len() as int));
    } else if a.len() == 0 {
        assert(a + b =~= b + a);
    } else if b.len() == 0 {
        assert(a + b =~= b + a);
    } else {
    }
}

// ---------------------------------------------------------------- vacuity canaries: each MUST fail
fn canary_fjall_encode_value<K: Encode>(x: &Impl, key: &K, buffer: &mut Vec<u8>)
    requires old(buffer)@.len() + key.bytes().len() < usize::MAX
{
    x.encode_value(key, buffer, true);
    assert(false);
}

fn canary_fjall_encode_lp<K: Encode>(x: &Impl, key: &K, buffer: &mut Vec<u8>)
    requires old(buffer)@.len() + 8 + key.bytes().len() <= usize::MAX
{
    x.encode_value_length_prefixed(key, buffer);
    assert(false);
}

} // verus!
fn main() {}
