// C09 — the per-entry state machine of the wide-column caches (crates/storage/src/wide_column_cache.rs): what `insert` and
// `remove` do to ONE cache entry while they hold its lock. Read-your-writes needs: after a write the entry holds the written
// value (or remembered absence), and the pin count is raised by exactly one per batch that updated the key, so the entry
// cannot be evicted before that batch is durable. The closures run under `TinyLFU::entry` (a concurrent map, not under
// contract): the contract is on the CLOSURES (spliced in textually), over a model of the entry handle that holds the slot.
// Plain lines = specification; `//@` = real source text.
#![allow(unused_imports, unused_variables, dead_code, non_snake_case)]
use vstd::prelude::*;
use vstd::std_specs::convert::*;
use std::hash::Hash;
use std::sync::Arc;
verus! {
use crate::tiny_lfu::TinyLFU;


// ---------------------------------------------------------------- interface stand-ins
/// std AtomicI32 as used under the entry lock (exclusive access through get_mut)
pub struct AtomicI32 { pub v: i32 }
impl AtomicI32 {
    pub fn new(v: i32) -> (r: Self) ensures r.v == v { AtomicI32 { v } }
    pub fn get_mut(&mut self) -> (r: &mut i32)
        ensures *r == old(self).v, final(self).v == *final(r)
    { &mut self.v }
    /// a load under the entry lock (the policy asks `is_pinned` while it holds the entry) returns the stored value
    pub fn load(&self, order: Ordering) -> (r: i32) ensures r == self.v { self.v }
}
/// std::sync::atomic::Ordering (interface stand-in: the ordering argument does not take part in the contracts)
pub enum Ordering { Relaxed, Release, Acquire, AcqRel, SeqCst }
/// std AtomicUsize, as above
pub struct AtomicUsize { pub v: usize }
impl AtomicUsize {
    pub fn load(&self, order: Ordering) -> (r: usize) ensures r == self.v { self.v }
}
pub assume_specification<T>[ std::mem::drop ](_0: T);
/// Option::replace / Option::take (std)
pub assume_specification<T>[ std::option::Option::<T>::replace ](o: &mut std::option::Option<T>, v: T) -> (r: std::option::Option<T>)
    ensures r == *old(o), *final(o) == Some(v);
/// std fact (trusted): i32::from(bool) is 0 / 1
#[verifier::external_body]
pub proof fn axiom_i32_from_bool()
    ensures
        <i32 as FromSpec<bool>>::obeys_from_spec(),
        forall|b: bool| #[trigger] <i32 as FromSpec<bool>>::from_spec(b) == (if b { 1i32 } else { 0i32 }),
{
}

pub mod tiny_lfu {
    use vstd::prelude::*;
    /// model of tiny_lfu::Entry: a handle HOLDS the locked slot of the key (None: no entry). Prophecy contracts as for the
    /// HashMap entry model of unit c10_coalesce.
    #[verifier::reject_recursive_types(K)]
    pub enum Entry<'a, K, V> { Vacant(VacantEntry<'a, K, V>), Occupied(OccupiedEntry<'a, K, V>) }
    #[verifier::reject_recursive_types(K)]
    pub struct VacantEntry<'a, K, V> { pub slot: &'a mut Option<V>, pub key: K }
    #[verifier::reject_recursive_types(K)]
    pub struct OccupiedEntry<'a, K, V> { pub slot: &'a mut Option<V>, pub key: K }
    impl<'a, K, V> VacantEntry<'a, K, V> {
        #[verifier::external_body]
        pub fn insert(self, value: V)
            ensures *final(self.slot) == Some(value)
        { unimplemented!() }
    }
    impl<'a, K, V> OccupiedEntry<'a, K, V> {
        #[verifier::external_body]
        pub fn get_mut(&mut self) -> (r: &mut V)
            requires *old(self).slot is Some
            ensures *r == (*old(self).slot)->0, *final(self).slot == Some(*final(r)), final(self).key == old(self).key,
                *final(final(self).slot) == *final(old(self).slot)
        { unimplemented!() }
        #[verifier::external_body]
        pub fn remove(self) -> (r: V)
            requires *old(self.slot) is Some
            ensures r == (*old(self.slot))->0, *final(self.slot) is None
        { unimplemented!() }
    }
    /// well-formed handles: a Vacant handle's slot is empty, an Occupied one's is full (what TinyLFU::entry hands to the closure)
    pub open spec fn wf<K, V>(e: &Entry<'_, K, V>) -> bool {
        match e { Entry::Vacant(v) => *v.slot is None, Entry::Occupied(o) => *o.slot is Some }
    }
    /// environment invariant of the stored values the closure may rely on (instantiated by the user of the cache)
    pub uninterp spec fn env_ok<K, V>(e: &Entry<'_, K, V>) -> bool;
    /// interface stand-in for tiny_lfu::LifecycleListener (the real trait additionally requires Default): the question the
    /// eviction policy asks the owner of an entry, under the entry lock (unit c16_policy: remove_closure)
    pub trait LifecycleListener<K, V> { fn is_pinned(&self, key: &K, value: &V) -> bool; }
    /// TinyLFU (scc map + policy): not under contract; it runs the closure on the locked entry of the key
    #[verifier::external_body]
    #[verifier::reject_recursive_types(K)]
    #[verifier::reject_recursive_types(V)]
    #[verifier::reject_recursive_types(L)]
    pub struct TinyLFU<K, V, L> { _p: core::marker::PhantomData<(K, V, L)> }
    impl<K, V, L> TinyLFU<K, V, L> {
        #[verifier::external_body]
        pub fn entry<R, F: FnOnce(Entry<'_, K, V>) -> R>(&self, key: K, f: F) -> R
            requires forall|e: Entry<'_, K, V>| wf(&e) && env_ok(&e) ==> #[trigger] f.requires((e,))
        { unimplemented!() }
    }
}
pub mod single_flight {
    #[verifier::external_body]
    #[verifier::reject_recursive_types(K)]
    pub struct SingleFlight<K> { _p: core::marker::PhantomData<K> }
}
#[verifier::external_body]
pub struct PinnedLifecycleListener { _p: u8 }

//@ struct crates/storage/src/wide_column_cache.rs :: Entry
//@ struct crates/storage/src/wide_column_cache.rs :: WideColumnCache
#[verifier::reject_recursive_types(K)]
#[verifier::reject_recursive_types(V)]
#[verifier::reject_recursive_types(T)]
//@ end

// ---------------------------------------------------------------- the entry state machine
/// pins(e): how many not-yet-durable batches wrote the key; cached(e): what a read sees (None = remembered absence)
pub open spec fn pins<V>(e: Option<Entry<V>>) -> int { match e { Some(x) => x.pin_count.v as int, None => 0 } }

/// ASSUMPTION: fewer than 2^31 - 1 not-yet-durable batches have written one key (the pin counter does not wrap)
#[verifier::external_body]
pub proof fn axiom_pins_bounded<K, V>()
    ensures forall|e: tiny_lfu::Entry<'_, K, Entry<V>>| #[trigger] tiny_lfu::env_ok(&e) ==>
        0 <= pins(match e { tiny_lfu::Entry::Vacant(x) => *x.slot, tiny_lfu::Entry::Occupied(x) => *x.slot }) < i32::MAX
{
}

//@ impl crates/storage/src/wide_column_cache.rs :: impl<K: Eq + Hash + Clone + Send + Sync + 'static, V: Send + Sync + 'static, T> WideColumnCache<K, V, T>
//@ member insert
//@ text-sub self.tiny_lfu.entry(key, |e| { => self.tiny_lfu.entry(key, |e: tiny_lfu::Entry<'_, K, Entry<V>>| -> (r: Option<V>) requires tiny_lfu::wf(&e), tiny_lfu::env_ok(&e) ensures ({ let (before, after) = match e { tiny_lfu::Entry::Vacant(x) => (*x.slot, *final(x.slot)), tiny_lfu::Entry::Occupied(x) => (*x.slot, *final(x.slot)) }; after matches Some(n) && n.value == Some(value) && pins(after) == pins(before) + (if updated { 1int } else { 0int }) && r == (match before { Some(o) => o.value, None => None }) }) {
//@ head
        proof { axiom_i32_from_bool(); axiom_pins_bounded::<K, V>(); }
//@ member remove
//@ text-sub self.tiny_lfu.entry(key.clone(), |x| match x { => self.tiny_lfu.entry(key.clone(), |x: tiny_lfu::Entry<'_, K, Entry<V>>| -> (r: Option<V>) requires tiny_lfu::wf(&x), tiny_lfu::env_ok(&x) ensures ({ let (before, after) = match x { tiny_lfu::Entry::Vacant(h) => (*h.slot, *final(h.slot)), tiny_lfu::Entry::Occupied(h) => (*h.slot, *final(h.slot)) }; (after matches Some(n) ==> n.value is None) && pins(after) == pins(before) + (if updated { 1int } else { 0int }) && (pins(after) > 0 ==> after is Some) && r == (match before { Some(o) => o.value, None => None }) }) { match x {
//@ text-sub             }\n        });\n\n        drop(old_value); =>             }}\n        });\n\n        drop(old_value);
//@ head
        proof { axiom_pins_bounded::<K, V>(); }
//@ end


// ---------------------------------------------------------------- what the caches answer when the policy asks "may I evict?"
// Read-your-writes across evictions: an entry must be reported pinned exactly as long as a not-yet-durable batch has
// written it -- whatever it holds, a value or REMEMBERED ABSENCE (a pending remove that is evicted would resurrect the
// stored value). c16_policy proves the policy never evicts an entry whose owner answers "pinned".
//@ impl crates/storage/src/wide_column_cache.rs :: impl<K, V> LifecycleListener<K, Entry<V>> for PinnedLifecycleListener
//@ header-sub LifecycleListener<K, Entry<V>> => tiny_lfu::LifecycleListener<K, Entry<V>>
//@ member is_pinned
//@ ret r
//@ sig
        ensures r == (pins(Some(*value)) > 0)
//@ end

/// struct stand-in: the staging log itself (unit c09_staging) is not touched by the listener
#[verifier::external_body]
#[verifier::reject_recursive_types(V)]
pub struct ConcurrentLog<V> { _p: core::marker::PhantomData<V> }
//@ struct crates/storage/src/key_of_set_map/cache.rs :: TrackedConcurrentLog
#[verifier::reject_recursive_types(V)]
//@ end
#[verifier::external_body]
pub struct PinnedLogLifecycleListener { _p: u8 }
//@ impl crates/storage/src/key_of_set_map/cache.rs :: impl<K: Hash + Eq, V: Eq + Hash + Clone> LifecycleListener<K, TrackedConcurrentLog<V>> for PinnedLogLifecycleListener
//@ header-sub LifecycleListener<K, TrackedConcurrentLog<V>> => tiny_lfu::LifecycleListener<K, TrackedConcurrentLog<V>>
//@ member is_pinned
//@ text-sub std::sync::atomic::Ordering::SeqCst => Ordering::SeqCst
//@ ret r
//@ sig
        ensures r == (value.dirty.v != 0)
//@ end

} // verus!
fn main() {}
