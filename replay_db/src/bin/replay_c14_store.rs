//! C14, store addressing: column types with DIFFERENT stable type ids must live in different slots of the store (column
//! family / keyspace names are derived from the id) -- on the REAL RocksDB and Fjall backends, for crafted families of ids
//! whose textual renderings are easy to confuse (leading-zero halves, digits moving between the two 64-bit halves, swapped
//! halves, ids that are prefixes of one another), for both column kinds, also after a reopen.
use std::collections::BTreeSet;

use qbice_serialize::Plugin;
use qbice_stable_type_id::{Identifiable, StableTypeID};
use qbice_storage::kv_database::{DiscriminantEncoding, KeyOfSetColumn, KvDatabase, WideColumn, WideColumnValue, WriteBatch};

fn json_escape(s: &str) -> String { s.replace('\\', "\\\\").replace('"', "\\\"").replace('\n', "\\n") }
fn found(case: &str, input: &str, observed: &str, expected: &str) -> ! {
    println!("{{\"found\": true, \"case\": \"{}\", \"input\": \"{}\", \"observed\": \"{}\", \"expected\": \"{}\"}}",
        json_escape(case), json_escape(input), json_escape(observed), json_escape(expected));
    std::process::exit(1)
}

#[derive(Debug, Clone, Copy, PartialEq, Eq, Hash)]
struct Col<const HI: u64, const LO: u64>;
impl<const HI: u64, const LO: u64> Identifiable for Col<HI, LO> {
    const STABLE_TYPE_ID: StableTypeID = unsafe { StableTypeID::from_raw_parts(HI, LO) };
}
impl<const HI: u64, const LO: u64> WideColumn for Col<HI, LO> {
    type Discriminant = u8;
    type Key = u32;
    fn discriminant_encoding() -> DiscriminantEncoding { DiscriminantEncoding::Prefixed }
}
impl<const HI: u64, const LO: u64> WideColumnValue<Col<HI, LO>> for u64 { fn discriminant() -> u8 { 0 } }
impl<const HI: u64, const LO: u64> KeyOfSetColumn for Col<HI, LO> { type Key = u32; type Element = u64; }

fn write<D: KvDatabase, const HI: u64, const LO: u64>(db: &D, idx: u64) {
    let mut b = db.write_batch();
    b.put::<Col<HI, LO>, u64>(&7, &idx);
    b.insert_member::<Col<HI, LO>>(&7, &idx);
    b.commit();
}
fn check<D: KvDatabase, const HI: u64, const LO: u64>(name: &str, db: &D, idx: u64, ids: &str, when: &str) -> u64 {
    let g = db.get_wide_column::<Col<HI, LO>, u64>(&7);
    if g != Some(idx) {
        found(&format!("{name}: two different stable type ids share a store slot (wide column) {when}"), &format!("ids written in this order, each column holding its own index under key 7: {ids}; read of column #{idx} = ({HI:#x}, {LO:#x})"), &format!("{g:?}"), &format!("Some({idx})"));
    }
    let s: BTreeSet<u64> = db.scan_members::<Col<HI, LO>>(&7).collect();
    if s != BTreeSet::from([idx]) {
        found(&format!("{name}: two different stable type ids share a store slot (key-of-set column) {when}"), &format!("ids written in this order, each set column holding its own index under key 7: {ids}; scan of column #{idx} = ({HI:#x}, {LO:#x})"), &format!("{s:?}"), &format!("{{{idx}}}"));
    }
    2
}

macro_rules! family {
    ($name:expr, $open:expr, [$(($hi:expr, $lo:expr)),* $(,)?]) => {{
        let ids: String = vec![$(format!("({:#x},{:#x})", $hi as u64, $lo as u64)),*].join(" ");
        let mut n = 0u64;
        {
            let db = $open();
            let mut i = 0u64;
            $( write::<_, { $hi }, { $lo }>(&db, i); i += 1; )*
            let _ = i;
            let mut i = 0u64;
            $( n += check::<_, { $hi }, { $lo }>($name, &db, i, &ids, "in the session that wrote them"); i += 1; )*
            let _ = i;
        }
        let db = $open();
        let mut i = 0u64;
        $( n += check::<_, { $hi }, { $lo }>($name, &db, i, &ids, "after a reopen"); i += 1; )*
        let _ = i;
        n
    }};
}

fn main() {
    let base = std::env::temp_dir().join(format!("verif_c14_store_{}", std::process::id()));
    let _ = std::fs::remove_dir_all(&base);
    std::fs::create_dir_all(&base).unwrap();
    let mut n = 0u64;
    macro_rules! both {
        ($tag:expr, $list:tt) => {{
            let p1 = base.join(format!("rocks_{}", $tag));
            n += family!("rocksdb", || qbice_storage::kv_database::rocksdb::RocksDB::open(&p1, Plugin::default()).unwrap(), $list);
            let p2 = base.join(format!("fjall_{}", $tag));
            n += family!("fjall", || qbice_storage::kv_database::fjall::Fjall::open(&p2, Plugin::default()).unwrap(), $list);
        }};
    }
    // digits moving between the halves / leading-zero nibbles (unpadded concatenations of the two halves coincide)
    both!("a", [(0x1234_5678_9ABC_DEF7u64, 0x0FED_CBA9_8765_4321u64), (0x0123_4567_89AB_CDEFu64, 0x7FED_CBA9_8765_4321u64)]);
    both!("b", [(0x1u64, 0x23u64), (0x12u64, 0x3u64), (0x0u64, 0x123u64), (0x123u64, 0x0u64), (0x1u64, 0x2u64), (0x12u64, 0x0u64), (0x0u64, 0x12u64)]);
    // swapped halves, zero halves, ids that render as prefixes of one another, decimal-looking vs hex
    both!("c", [(0x5u64, 0x7u64), (0x7u64, 0x5u64), (0x0u64, 0x0u64), (0x0u64, 0x1u64), (0x1u64, 0x0u64), (0x10u64, 0x0u64), (0x0u64, 0x10u64), (0xAu64, 0xBu64), (0xABu64, 0x0u64), (0x0u64, 0xABu64)]);
    both!("d", [(0xFFFF_FFFF_FFFF_FFFFu64, 0x0u64), (0x0u64, 0xFFFF_FFFF_FFFF_FFFFu64), (0x0FFF_FFFF_FFFF_FFFFu64, 0xF000_0000_0000_0000u64), (0xFFFF_FFFF_FFFF_FFFFu64, 0xFFFF_FFFF_FFFF_FFFFu64), (0xFFFF_FFFFu64, 0xFFFF_FFFF_0000_0000u64)]);
    let _ = std::fs::remove_dir_all(&base);
    println!("{{\"found\": false, \"searched\": {n}}}");
}
