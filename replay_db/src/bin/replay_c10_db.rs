//! C10 on the REAL backends: the real `WriteBehind` (through `DbBacked`) in front of the real RocksDB / Fjall.
//! Several manager lifetimes per store; in each, batches of puts / removals over an ordinary column and over a
//! unit-keyed, unit-discriminant column (whose encoded key is EMPTY, the shape of the engine's own timestamp column),
//! including lifetimes that only remove. After every lifetime the store is closed, reopened and read through a FRESH
//! engine (cold caches): it must hold exactly the result of applying all batches in creation order.
use std::collections::BTreeMap;

use qbice_serialize::Plugin;
use qbice_stable_type_id::Identifiable;
use qbice_storage::{
    kv_database::{DiscriminantEncoding, KeyOfSetColumn, KvDatabase, WideColumn, WideColumnValue},
    key_of_set_map::KeyOfSetMap as _,
    single_map::SingleMap as _,
    storage_engine::{StorageEngine as _, db_backed::{Configuration, DbBacked}},
};

fn json_escape(s: &str) -> String { s.replace('\\', "\\\\").replace('"', "\\\"").replace('\n', "\\n") }
fn found(case: &str, input: &str, observed: &str, expected: &str) -> ! {
    println!("{{\"found\": true, \"case\": \"{}\", \"input\": \"{}\", \"observed\": \"{}\", \"expected\": \"{}\"}}",
        json_escape(case), json_escape(input), json_escape(observed), json_escape(expected));
    std::process::exit(1)
}
struct Rng(u64);
impl Rng { fn next(&mut self) -> u64 { let mut x = self.0 | 1; x ^= x << 13; x ^= x >> 7; x ^= x << 17; self.0 = x; x } }

#[derive(Debug, Clone, Copy, PartialEq, Eq, PartialOrd, Ord, Hash, Identifiable)]
#[stable_type_id_crate(qbice_stable_type_id)]
struct Col;
impl WideColumn for Col { type Key = u64; type Discriminant = u8; fn discriminant_encoding() -> DiscriminantEncoding { DiscriminantEncoding::Prefixed } }
impl WideColumnValue<Col> for u64 { fn discriminant() -> u8 { 3 } }

#[derive(Debug, Clone, Copy, PartialEq, Eq, PartialOrd, Ord, Hash, Identifiable)]
#[stable_type_id_crate(qbice_stable_type_id)]
struct UnitCol;
impl WideColumn for UnitCol { type Key = (); type Discriminant = (); fn discriminant_encoding() -> DiscriminantEncoding { DiscriminantEncoding::Prefixed } }
impl WideColumnValue<UnitCol> for u64 { fn discriminant() {} }

#[derive(Debug, Clone, Copy, PartialEq, Eq, PartialOrd, Ord, Hash, Identifiable)]
#[stable_type_id_crate(qbice_stable_type_id)]
struct SetCol;
impl KeyOfSetColumn for SetCol { type Key = u8; type Element = u32; }
/// a set whose element type has an EMPTY encoding (membership is one bit per key)
#[derive(Debug, Clone, Copy, PartialEq, Eq, PartialOrd, Ord, Hash, Identifiable)]
#[stable_type_id_crate(qbice_stable_type_id)]
struct FlagCol;
impl KeyOfSetColumn for FlagCol { type Key = u8; type Element = (); }
type DSet<T> = std::sync::Arc<dashmap::DashSet<T>>;

/// key-of-set columns behind the real write manager: members with ordinary and with empty encodings are inserted and removed
/// in later lifetimes (each removal is delivered through the serialization-buffer path), then read from a reopened store
fn run_sets<D: KvDatabase + Clone>(name: &str, open: &dyn Fn() -> D, seed: u64) -> u64 {
    let rt = tokio::runtime::Builder::new_current_thread().build().unwrap();
    let mut rng = Rng(seed ^ 0x5E75);
    let mut model: BTreeMap<u8, std::collections::BTreeSet<u32>> = BTreeMap::new();
    let mut flags: std::collections::BTreeSet<u8> = Default::default();
    let mut history: Vec<String> = Vec::new();
    let mut checks = 0u64;
    // lifetime kinds: 0 mixed, 1 = set flags, 2 = ONLY clear one flag, 3 = ONLY remove one ordinary member
    let plan: Vec<u64> = vec![1, 0, 2, 3, 0, 1, 2, 0, 3];
    for (life, kind) in plan.iter().enumerate() {
        {
            let db = open();
            let engine = DbBacked::new(db, Configuration::builder().serialization_workers(1 + (rng.next() % 3) as usize).build());
            let manager = engine.new_write_manager();
            let set = engine.new_key_of_set_map::<SetCol, DSet<u32>>();
            let flag = engine.new_key_of_set_map::<FlagCol, DSet<()>>();
            history.push(format!("[lifetime {life}]"));
            let nb = if *kind == 0 { 1 + rng.next() % 3 } else { 1 };
            let mut batches = vec![];
            for _ in 0..nb {
                let mut wb = manager.new_write_batch();
                match kind {
                    1 => { for k in 0..3u8 { rt.block_on(flag.insert(k, (), &mut wb)); flags.insert(k); } history.push("batch{set flags 0,1,2}".into()); }
                    2 => { let k = (rng.next() % 3) as u8; rt.block_on(flag.remove(&k, &(), &mut wb)); flags.remove(&k); history.push(format!("batch{{clear flag {k}}}")); }
                    3 => { let k = (rng.next() % 3) as u8; let e = (rng.next() % 4) as u32 * 1000; rt.block_on(set.remove(&k, &e, &mut wb)); if let Some(s) = model.get_mut(&k) { s.remove(&e); } history.push(format!("batch{{remove member {k}/{e}}}")); }
                    _ => {
                        let mut d = String::from("batch{");
                        for _ in 0..(1 + rng.next() % 4) {
                            let k = (rng.next() % 3) as u8; let e = (rng.next() % 4) as u32 * 1000;
                            match rng.next() % 4 {
                                0 => { rt.block_on(set.remove(&k, &e, &mut wb)); if let Some(s) = model.get_mut(&k) { s.remove(&e); } d.push_str(&format!("remove {k}/{e};")); }
                                1 => { rt.block_on(flag.remove(&k, &(), &mut wb)); flags.remove(&k); d.push_str(&format!("clear flag {k};")); }
                                2 => { rt.block_on(flag.insert(k, (), &mut wb)); flags.insert(k); d.push_str(&format!("set flag {k};")); }
                                _ => { rt.block_on(set.insert(k, e, &mut wb)); model.entry(k).or_default().insert(e); d.push_str(&format!("insert {k}/{e};")); }
                            }
                        }
                        d.push('}');
                        history.push(d);
                    }
                }
                batches.push(wb);
            }
            for wb in batches { manager.submit_write_batch(wb); }
            drop(set); drop(flag);
            drop(manager);
            drop(engine);
            history.push("drop manager; close store".into());
        }
        let db = open();
        let hist = || history[history.len().saturating_sub(30)..].join("; ");
        for k in 0..3u8 {
            let got: std::collections::BTreeSet<u32> = db.scan_members::<SetCol>(&k).collect(); checks += 1;
            let want = model.get(&k).cloned().unwrap_or_default();
            if got != want { found(&format!("{name}: members of key {k} in the reopened store after the write manager was dropped"), &hist(), &format!("{got:?}"), &format!("{want:?}")); }
            let got = db.scan_members::<FlagCol>(&k).count(); checks += 1;
            let want = usize::from(flags.contains(&k));
            if got != want { found(&format!("{name}: unit-element set of key {k} in the reopened store after the write manager was dropped"), &hist(), &format!("{got} member(s)"), &format!("{want} member(s)")); }
        }
        drop(db);
    }
    checks
}

fn run<D: KvDatabase + Clone>(name: &str, open: &dyn Fn() -> D, seed: u64) -> u64 {
    let rt = tokio::runtime::Builder::new_current_thread().build().unwrap();
    let mut rng = Rng(seed ^ 0xC10DB);
    let mut model: BTreeMap<u64, u64> = BTreeMap::new();
    let mut unit: Option<u64> = None;
    let mut history: Vec<String> = Vec::new();
    let mut checks = 0u64;
    // lifetime kinds: 0 = mixed traffic, 1 = ONLY a removal of the unit entry, 2 = only removals of ordinary keys, 3 = one put of the unit entry
    // 4 = a key that was NEVER in the store is put in one batch and removed in a later batch of the same lifetime (both end up in
    //     one physical batch of the backend)
    let plan: Vec<u64> = vec![3, 1, 4, 0, 1, 3, 0, 4, 2, 0, 1];
    for (life, kind) in plan.iter().enumerate() {
        {
            let db = open();
            let engine = DbBacked::new(db, Configuration::builder().serialization_workers(1 + (rng.next() % 3) as usize).build());
            let manager = engine.new_write_manager();
            let map = engine.new_single_map::<Col, u64>();
            let umap = engine.new_single_map::<UnitCol, u64>();
            history.push(format!("[lifetime {life}]"));
            let nb = if *kind == 0 { 1 + rng.next() % 4 } else if *kind == 4 { 3 } else { 1 };
            let fresh_key = 1000 + life as u64;
            let mut batches = vec![];
            for b in 0..nb {
                let mut wb = manager.new_write_batch();
                match kind {
                    1 => { rt.block_on(umap.remove(&(), &mut wb)); unit = None; history.push("batch{remove unit}".into()); }
                    3 => { let v = 40 + life as u64; rt.block_on(umap.insert((), v, &mut wb)); unit = Some(v); history.push(format!("batch{{put unit={v}}}")); }
                    4 => {
                        match b {
                            0 => { rt.block_on(map.insert(fresh_key, 10, &mut wb)); history.push(format!("batch{{put {fresh_key}=10 (key never in the store)}}")); }
                            1 => { rt.block_on(map.insert(1, 5000 + life as u64, &mut wb)); model.insert(1, 5000 + life as u64); history.push("batch{put 1}".into()); }
                            _ => { rt.block_on(map.remove(&fresh_key, &mut wb)); history.push(format!("batch{{remove {fresh_key}}}")); }
                        }
                    }
                    2 => { let k = rng.next() % 4; rt.block_on(map.remove(&k, &mut wb)); model.remove(&k); history.push(format!("batch{{remove {k}}}")); }
                    _ => {
                        let mut d = String::from("batch{");
                        for _ in 0..(rng.next() % 4) {
                            let k = rng.next() % 4;
                            match rng.next() % 5 {
                                0 => { rt.block_on(map.remove(&k, &mut wb)); model.remove(&k); d.push_str(&format!("remove {k};")); }
                                1 => { rt.block_on(umap.remove(&(), &mut wb)); unit = None; d.push_str("remove unit;"); }
                                2 => { let v = life as u64 * 100 + b; rt.block_on(umap.insert((), v, &mut wb)); unit = Some(v); d.push_str(&format!("put unit={v};")); }
                                _ => { let v = life as u64 * 100 + b * 10 + k; rt.block_on(map.insert(k, v, &mut wb)); model.insert(k, v); d.push_str(&format!("put {k}={v};")); }
                            }
                        }
                        d.push('}');
                        history.push(d);
                    }
                }
                batches.push(wb);
            }
            for wb in batches { manager.submit_write_batch(wb); }
            drop(map); drop(umap);
            drop(manager); // must return only after everything is in the store
            drop(engine);
            history.push("drop manager; close store".into());
        }
        // reopen, read through a fresh engine (cold caches)
        let db = open();
        let engine = DbBacked::new(db, Configuration::builder().build());
        let map = engine.new_single_map::<Col, u64>();
        let umap = engine.new_single_map::<UnitCol, u64>();
        let hist = || history[history.len().saturating_sub(30)..].join("; ");
        for k in 0..4u64 {
            let g = rt.block_on(map.get(&k)); checks += 1;
            if g != model.get(&k).cloned() { found(&format!("{name}: store content after the write manager was dropped and the store reopened (key {k})"), &hist(), &format!("{g:?}"), &format!("{:?}", model.get(&k))); }
        }
        for l in 0..plan.len() as u64 {
            let g = rt.block_on(map.get(&(1000 + l))); checks += 1;
            if g.is_some() { found(&format!("{name}: a key that was put and then removed by a later batch of the same manager lifetime is still in the store"), &hist(), &format!("get({}) = {g:?}", 1000 + l), "None"); }
        }
        let g = rt.block_on(umap.get(&())); checks += 1;
        if g != unit { found(&format!("{name}: store content after the write manager was dropped and the store reopened (unit-keyed column)"), &hist(), &format!("{g:?}"), &format!("{unit:?}")); }
        drop(map); drop(umap); drop(engine);
    }
    checks
}

fn main() {
    let a: Vec<String> = std::env::args().collect();
    let mut seed = 0u64;
    for i in 0..a.len() { if a[i] == "--seed" && i + 1 < a.len() { seed = a[i + 1].parse().unwrap_or(0); } }
    let base = std::env::temp_dir().join(format!("verif_c10db_{}_{}", std::process::id(), seed));
    let _ = std::fs::remove_dir_all(&base);
    std::fs::create_dir_all(&base).unwrap();
    let mut n = 0;
    {
        use qbice_storage::kv_database::rocksdb::RocksDB;
        let p = base.join("rocks");
        n += run("rocksdb", &|| RocksDB::open(&p, Plugin::default()).unwrap(), seed);
        let p2 = base.join("rocks_sets");
        n += run_sets("rocksdb", &|| RocksDB::open(&p2, Plugin::default()).unwrap(), seed);
    }
    {
        use qbice_storage::kv_database::fjall::Fjall;
        let p = base.join("fjall");
        n += run("fjall", &|| Fjall::open(&p, Plugin::default()).unwrap(), seed);
        let p2 = base.join("fjall_sets");
        n += run_sets("fjall", &|| Fjall::open(&p2, Plugin::default()).unwrap(), seed);
    }
    let _ = std::fs::remove_dir_all(&base);
    println!("{{\"found\": false, \"searched\": {n}}}");
}
