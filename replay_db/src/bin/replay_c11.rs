//! C11 witness search on the REAL backends (RocksDB and Fjall from /repo's qbice_storage):
//! seeded random batches of put/delete/insert-member/delete-member over a key universe of
//! prefix-related, empty, 0xFF-heavy and >32-bit keys, checked against a reference map after
//! every commit and after reopen. Used only after a proof obligation failed or an anchor was lost.
use std::collections::{BTreeMap, BTreeSet};

use qbice_serialize::Plugin;
use qbice_stable_type_id::Identifiable;
use qbice_storage::kv_database::{
    DiscriminantEncoding, KeyOfSetColumn, KvDatabase, SerializationBuffer, WideColumn, WideColumnValue, WriteBatch,
};

fn json_escape(s: &str) -> String { s.replace('\\', "\\\\").replace('"', "\\\"").replace('\n', "\\n") }
fn found(case: &str, input: &str, observed: &str, expected: &str) -> ! {
    println!("{{\"found\": true, \"case\": \"{}\", \"input\": \"{}\", \"observed\": \"{}\", \"expected\": \"{}\"}}",
        json_escape(case), json_escape(input), json_escape(observed), json_escape(expected));
    std::process::exit(1)
}
struct Rng(u64);
impl Rng { fn next(&mut self) -> u64 { let mut x = self.0 | 1; x ^= x << 13; x ^= x >> 7; x ^= x << 17; self.0 = x; x } }

#[derive(Debug, Clone, Copy, PartialEq, Eq, PartialOrd, Ord, Hash, Identifiable)]
#[stable_type_id_crate(qbice_stable_type_id)]
struct SetBytes;
impl KeyOfSetColumn for SetBytes { type Key = Vec<u8>; type Element = Vec<u8>; }

#[derive(Debug, Clone, Copy, PartialEq, Eq, PartialOrd, Ord, Hash, Identifiable)]
#[stable_type_id_crate(qbice_stable_type_id)]
struct SetPair;
impl KeyOfSetColumn for SetPair { type Key = (u8, u8); type Element = u32; }

#[derive(Debug, Clone, Copy, PartialEq, Eq, PartialOrd, Ord, Hash, Identifiable)]
#[stable_type_id_crate(qbice_stable_type_id)]
struct SetUnit;
impl KeyOfSetColumn for SetUnit { type Key = (); type Element = u8; }

#[derive(Debug, Clone, Copy, PartialEq, Eq, PartialOrd, Ord, Hash, Identifiable)]
#[stable_type_id_crate(qbice_stable_type_id)]
struct SetUsize;
impl KeyOfSetColumn for SetUsize { type Key = usize; type Element = usize; }

#[derive(Debug, Clone, Copy, PartialEq, Eq, PartialOrd, Ord, Hash, Identifiable)]
#[stable_type_id_crate(qbice_stable_type_id)]
struct SetWide128;
impl KeyOfSetColumn for SetWide128 { type Key = u128; type Element = i128; }

#[derive(Debug, Clone, Copy, PartialEq, Eq, PartialOrd, Ord, Hash, Identifiable)]
#[stable_type_id_crate(qbice_stable_type_id)]
struct WideEmpty;
impl WideColumn for WideEmpty {
    type Discriminant = ();
    type Key = Vec<u8>;
    fn discriminant_encoding() -> DiscriminantEncoding { DiscriminantEncoding::Suffixed }
}
impl WideColumnValue<WideEmpty> for () { fn discriminant() {} }

#[derive(Debug, Clone, Copy, PartialEq, Eq, PartialOrd, Ord, Hash, Identifiable)]
#[stable_type_id_crate(qbice_stable_type_id)]
struct WidePre;
impl WideColumn for WidePre {
    type Discriminant = Vec<u8>;
    type Key = Vec<u8>;
    fn discriminant_encoding() -> DiscriminantEncoding { DiscriminantEncoding::Prefixed }
}
impl WideColumnValue<WidePre> for String { fn discriminant() -> Vec<u8> { vec![] } }
impl WideColumnValue<WidePre> for u64 { fn discriminant() -> Vec<u8> { vec![0] } }

#[derive(Debug, Clone, Copy, PartialEq, Eq, PartialOrd, Ord, Hash, Identifiable)]
#[stable_type_id_crate(qbice_stable_type_id)]
struct WideSuf;
impl WideColumn for WideSuf {
    type Discriminant = u8;
    type Key = Vec<u8>;
    fn discriminant_encoding() -> DiscriminantEncoding { DiscriminantEncoding::Suffixed }
}
impl WideColumnValue<WideSuf> for String { fn discriminant() -> u8 { 0 } }
impl WideColumnValue<WideSuf> for u64 { fn discriminant() -> u8 { 1 } }

#[derive(Debug, Clone, Copy, PartialEq, Eq, PartialOrd, Ord, Hash, Identifiable)]
#[stable_type_id_crate(qbice_stable_type_id)]
struct WideUnit;
impl WideColumn for WideUnit {
    type Discriminant = u8;
    type Key = ();
    fn discriminant_encoding() -> DiscriminantEncoding { DiscriminantEncoding::Suffixed }
}
impl WideColumnValue<WideUnit> for String { fn discriminant() -> u8 { 0 } }
impl WideColumnValue<WideUnit> for u64 { fn discriminant() -> u8 { 1 } }

/// a column whose key AND discriminant have empty encodings: with a value of type () every byte string involved is empty
#[derive(Debug, Clone, Copy, PartialEq, Eq, PartialOrd, Ord, Hash, Identifiable)]
#[stable_type_id_crate(qbice_stable_type_id)]
struct WideNothing;
impl WideColumn for WideNothing {
    type Discriminant = ();
    type Key = ();
    fn discriminant_encoding() -> DiscriminantEncoding { DiscriminantEncoding::Suffixed }
}
impl WideColumnValue<WideNothing> for () { fn discriminant() {} }
/// string keys and members (strings travel through read_raw_bytes / emit_bytes, unlike Vec<u8>)
#[derive(Debug, Clone, Copy, PartialEq, Eq, PartialOrd, Ord, Hash, Identifiable)]
#[stable_type_id_crate(qbice_stable_type_id)]
struct SetStr;
impl KeyOfSetColumn for SetStr { type Key = String; type Element = String; }

#[derive(Default)]
struct Model {
    set_bytes: BTreeMap<Vec<u8>, BTreeSet<Vec<u8>>>,
    set_pair: BTreeMap<(u8, u8), BTreeSet<u32>>,
    set_unit: BTreeSet<u8>,
    set_usize: BTreeMap<usize, BTreeSet<usize>>,
    set_128: BTreeMap<u128, BTreeSet<i128>>,
    pre_s: BTreeMap<Vec<u8>, String>,
    pre_u: BTreeMap<Vec<u8>, u64>,
    suf_s: BTreeMap<Vec<u8>, String>,
    suf_u: BTreeMap<Vec<u8>, u64>,
    unit_s: Option<String>,
    unit_u: Option<u64>,
}

fn byte_keys() -> Vec<Vec<u8>> {
    let alpha = [0x00u8, 0x01, 0x7F, 0x80, 0xFE, 0xFF];
    let mut v = vec![vec![]];
    for a in alpha { v.push(vec![a]); for b in alpha { v.push(vec![a, b]); } }
    for a in [0xFFu8, 0x00] { v.push(vec![a; 3]); v.push(vec![a; 127]); v.push(vec![a; 128]); v.push(vec![a; 300]); }
    v.push(vec![0xFF, 0xFF, 0x00]);
    v.push(vec![0x01, 0xFF, 0xFF]);
    v
}
/// 128-bit values on and around every 7-bit varint group boundary (and their zigzag images)
fn wide_keys() -> Vec<u128> {
    let mut v = vec![0u128, 1, 127, 128, 129, 255, 256, u128::MAX, u128::MAX - 1];
    let mut k = 7;
    while k < 128 { let p = 1u128 << k; v.extend_from_slice(&[p, p - 1, p + 1, p | 128, (p << 1).wrapping_sub(1)]); k += 7; }
    v
}
fn usize_keys() -> Vec<usize> { vec![0, 5, 127, 128, 255, 256, 16383, 16384, (1 << 32) + 5, (1 << 33) + 5, usize::MAX, usize::MAX - 255] }

fn run<D: KvDatabase>(name: &str, open: &dyn Fn() -> D, seed: u64, rounds: usize) -> u64 {
    let mut rng = Rng(seed ^ 0xD1B54A32D192ED03);
    let keys = byte_keys();
    let ukeys = usize_keys();
    let mut m = Model::default();
    let mut db = open();
    let mut history: Vec<String> = Vec::new();
    let mut checks = 0u64;
    for round in 0..rounds {
        let mut batch = db.write_batch();
        // the write-behind pipeline delivers every write through a serialization buffer that is later consumed by a batch:
        // route each round either directly or through a buffer (also right after a reopen, when nothing has touched a column yet)
        let via_buffer = rng.next() % 2 == 0;
        let mut buffer = db.serialization_buffer();
        let wkeys = wide_keys();
        let nops = 1 + (rng.next() % 6) as usize;
        for _ in 0..nops {
            let wk = wkeys[(rng.next() % wkeys.len() as u64) as usize];
            // elements: signed values whose ZIGZAG image sits on / next to a 7-bit group boundary
            let we = { let p = wkeys[(rng.next() % wkeys.len() as u64) as usize]; match rng.next() % 4 { 0 => (p >> 1) as i128, 1 => -((p >> 1) as i128), 2 => ((p >> 1) as i128).wrapping_sub(1), _ => p as i128 } };
            if rng.next() % 6 == 0 {
                if rng.next() % 3 != 0 {
                    if via_buffer { buffer.insert_member::<SetWide128>(&wk, &we); } else { batch.insert_member::<SetWide128>(&wk, &we); }
                    m.set_128.entry(wk).or_default().insert(we); history.push(format!("insert_member SetWide128 {wk} {we}"));
                } else {
                    if via_buffer { buffer.delete_member::<SetWide128>(&wk, &we); } else { batch.delete_member::<SetWide128>(&wk, &we); }
                    if let Some(s) = m.set_128.get_mut(&wk) { s.remove(&we); } history.push(format!("delete_member SetWide128 {wk} {we}"));
                }
                continue;
            }
            let k = keys[(rng.next() % keys.len() as u64) as usize].clone();
            let e = keys[(rng.next() % keys.len() as u64) as usize].clone();
            let uk = ukeys[(rng.next() % ukeys.len() as u64) as usize];
            let ue = ukeys[(rng.next() % ukeys.len() as u64) as usize];
            let pk = ((rng.next() % 3) as u8, [0u8, 0xFE, 0xFF][(rng.next() % 3) as usize]);
            match rng.next() % 16 {
                0 | 1 => { if via_buffer { buffer.insert_member::<SetBytes>(&k, &e); } else { batch.insert_member::<SetBytes>(&k, &e); } m.set_bytes.entry(k.clone()).or_default().insert(e.clone()); history.push(format!("insert_member SetBytes {k:?} {e:?}")); }
                2 => { if via_buffer { buffer.delete_member::<SetBytes>(&k, &e); } else { batch.delete_member::<SetBytes>(&k, &e); } if let Some(s) = m.set_bytes.get_mut(&k) { s.remove(&e); } history.push(format!("delete_member SetBytes {k:?} {e:?}")); }
                3 | 4 => { let el = (rng.next() % 5) as u32 * 1000; if via_buffer { buffer.insert_member::<SetPair>(&pk, &el); } else { batch.insert_member::<SetPair>(&pk, &el); } m.set_pair.entry(pk).or_default().insert(el); history.push(format!("insert_member SetPair {pk:?} {el}")); }
                5 => { let el = (rng.next() % 5) as u32 * 1000; if via_buffer { buffer.delete_member::<SetPair>(&pk, &el); } else { batch.delete_member::<SetPair>(&pk, &el); } if let Some(s) = m.set_pair.get_mut(&pk) { s.remove(&el); } history.push(format!("delete_member SetPair {pk:?} {el}")); }
                6 => { let el = (rng.next() % 3) as u8 * 127; if via_buffer { buffer.insert_member::<SetUnit>(&(), &el); } else { batch.insert_member::<SetUnit>(&(), &el); } m.set_unit.insert(el); history.push(format!("insert_member SetUnit () {el}")); }
                7 => { if via_buffer { buffer.insert_member::<SetUsize>(&uk, &ue); } else { batch.insert_member::<SetUsize>(&uk, &ue); } m.set_usize.entry(uk).or_default().insert(ue); history.push(format!("insert_member SetUsize {uk} {ue}")); }
                8 => { let v = format!("s{round}"); if via_buffer { buffer.put::<WidePre, String>(&k, &v); } else { batch.put::<WidePre, String>(&k, &v); } m.pre_s.insert(k.clone(), v.clone()); history.push(format!("put WidePre/String {k:?} {v}")); }
                9 => { let v = rng.next(); if via_buffer { buffer.put::<WidePre, u64>(&k, &v); } else { batch.put::<WidePre, u64>(&k, &v); } m.pre_u.insert(k.clone(), v); history.push(format!("put WidePre/u64 {k:?} {v}")); }
                10 => { let v = format!("t{round}"); if via_buffer { buffer.put::<WideSuf, String>(&k, &v); } else { batch.put::<WideSuf, String>(&k, &v); } m.suf_s.insert(k.clone(), v.clone()); history.push(format!("put WideSuf/String {k:?} {v}")); }
                11 => { let v = rng.next(); if via_buffer { buffer.put::<WideSuf, u64>(&k, &v); } else { batch.put::<WideSuf, u64>(&k, &v); } m.suf_u.insert(k.clone(), v); history.push(format!("put WideSuf/u64 {k:?} {v}")); }
                12 => { if via_buffer { buffer.delete::<WidePre, String>(&k); } else { batch.delete::<WidePre, String>(&k); } m.pre_s.remove(&k); history.push(format!("delete WidePre/String {k:?}")); }
                13 => { if via_buffer { buffer.delete::<WideSuf, u64>(&k); } else { batch.delete::<WideSuf, u64>(&k); } m.suf_u.remove(&k); history.push(format!("delete WideSuf/u64 {k:?}")); }
                14 => { let v = format!("u{round}"); if via_buffer { buffer.put::<WideUnit, String>(&(), &v); } else { batch.put::<WideUnit, String>(&(), &v); } m.unit_s = Some(v.clone()); history.push(format!("put WideUnit/String () {v}")); }
                _ => { let v = rng.next(); if via_buffer { buffer.put::<WideUnit, u64>(&(), &v); } else { batch.put::<WideUnit, u64>(&(), &v); } m.unit_u = Some(v); history.push(format!("put WideUnit/u64 () {v}")); }
            }
        }
        if via_buffer { batch.consume_serialization_buffer(buffer); history.push("(all of the above recorded in a serialization buffer, then consumed)".into()); } else { drop(buffer); }
        batch.commit();
        history.push("commit".into());
        if round % 7 == 6 {
            drop(db);
            db = open();
            history.push("reopen".into());
        }
        // check everything against the model
        let hist = || history[history.len().saturating_sub(40)..].join("; ");
        for k in &keys {
            let got: BTreeSet<Vec<u8>> = db.scan_members::<SetBytes>(k).collect();
            let want = m.set_bytes.get(k).cloned().unwrap_or_default();
            checks += 1;
            if got != want { found(&format!("{name}: scan_members SetBytes key {k:?}"), &hist(), &format!("{got:?}"), &format!("{want:?}")); }
            let g = db.get_wide_column::<WidePre, String>(k); checks += 1;
            if g != m.pre_s.get(k).cloned() { found(&format!("{name}: get WidePre/String key {k:?}"), &hist(), &format!("{g:?}"), &format!("{:?}", m.pre_s.get(k))); }
            let g = db.get_wide_column::<WidePre, u64>(k); checks += 1;
            if g != m.pre_u.get(k).cloned() { found(&format!("{name}: get WidePre/u64 key {k:?}"), &hist(), &format!("{g:?}"), &format!("{:?}", m.pre_u.get(k))); }
            let g = db.get_wide_column::<WideSuf, String>(k); checks += 1;
            if g != m.suf_s.get(k).cloned() { found(&format!("{name}: get WideSuf/String key {k:?}"), &hist(), &format!("{g:?}"), &format!("{:?}", m.suf_s.get(k))); }
            let g = db.get_wide_column::<WideSuf, u64>(k); checks += 1;
            if g != m.suf_u.get(k).cloned() { found(&format!("{name}: get WideSuf/u64 key {k:?}"), &hist(), &format!("{g:?}"), &format!("{:?}", m.suf_u.get(k))); }
        }
        for a in 0..3u8 { for b in [0u8, 0xFE, 0xFF] {
            let got: BTreeSet<u32> = db.scan_members::<SetPair>(&(a, b)).collect();
            let want = m.set_pair.get(&(a, b)).cloned().unwrap_or_default();
            checks += 1;
            if got != want { found(&format!("{name}: scan_members SetPair key {:?}", (a, b)), &hist(), &format!("{got:?}"), &format!("{want:?}")); }
        } }
        let got: BTreeSet<u8> = db.scan_members::<SetUnit>(&()).collect(); checks += 1;
        if got != m.set_unit { found(&format!("{name}: scan_members SetUnit"), &hist(), &format!("{got:?}"), &format!("{:?}", m.set_unit)); }
        for uk in &ukeys {
            let got: BTreeSet<usize> = db.scan_members::<SetUsize>(uk).collect();
            let want = m.set_usize.get(uk).cloned().unwrap_or_default();
            checks += 1;
            if got != want { found(&format!("{name}: scan_members SetUsize key {uk}"), &hist(), &format!("{got:?}"), &format!("{want:?}")); }
        }
        for wk in &wide_keys() {
            let got: BTreeSet<i128> = match std::panic::catch_unwind(std::panic::AssertUnwindSafe(|| db.scan_members::<SetWide128>(wk).collect::<BTreeSet<i128>>())) {
                Ok(g) => g,
                Err(_) => found(&format!("{name}: scan_members SetWide128 key {wk} panicked"), &hist(), "panic", "no panic"),
            };
            let want = m.set_128.get(wk).cloned().unwrap_or_default();
            checks += 1;
            if got != want { found(&format!("{name}: scan_members SetWide128 key {wk}"), &hist(), &format!("{got:?}"), &format!("{want:?}")); }
        }
        let g = db.get_wide_column::<WideUnit, String>(&()); checks += 1;
        if g != m.unit_s { found(&format!("{name}: get WideUnit/String"), &hist(), &format!("{g:?}"), &format!("{:?}", m.unit_s)); }
        let g = db.get_wide_column::<WideUnit, u64>(&()); checks += 1;
        if g != m.unit_u { found(&format!("{name}: get WideUnit/u64"), &hist(), &format!("{g:?}"), &format!("{:?}", m.unit_u)); }
    }
    checks
}

/// directed: after a close / reopen the FIRST thing that touches a column is an operation delivered through a
/// serialization buffer (this is how the write-behind pipeline delivers every write) -- for each of the four operations
fn first_touch_after_reopen<D: KvDatabase>(name: &str, open: &dyn Fn() -> D) -> u64 {
    let mut checks = 0;
    for which in 0..4 {
        {
            let db = open();
            let mut b = db.write_batch();
            b.insert_member::<SetUsize>(&(1000 + which), &10);
            b.insert_member::<SetUsize>(&(1000 + which), &11);
            b.insert_member::<SetUsize>(&(2000 + which), &20);
            b.put::<WideSuf, u64>(&vec![which as u8, 1], &77);
            b.put::<WideSuf, u64>(&vec![which as u8, 2], &88);
            b.commit();
        }
        let db = open();
        let mut buffer = db.serialization_buffer();
        let desc;
        let (want_set, want_a): (BTreeSet<usize>, Option<u64>);
        match which {
            0 => { buffer.delete_member::<SetUsize>(&(1000 + which), &10); desc = "buffered delete_member"; want_set = [11].into(); want_a = Some(77); }
            1 => { buffer.insert_member::<SetUsize>(&(1000 + which), &12); desc = "buffered insert_member"; want_set = [10, 11, 12].into(); want_a = Some(77); }
            2 => { buffer.delete::<WideSuf, u64>(&vec![which as u8, 1]); desc = "buffered delete"; want_set = [10, 11].into(); want_a = None; }
            _ => { buffer.put::<WideSuf, u64>(&vec![which as u8, 1], &99); desc = "buffered put"; want_set = [10, 11].into(); want_a = Some(99); }
        }
        let mut b = db.write_batch();
        b.consume_serialization_buffer(buffer);
        b.commit();
        let input = format!("members {{10,11}} of key {} and {{20}} of key {} and two wide-column values committed; close; reopen; FIRST access to the column: {desc} through a serialization buffer, consumed and committed; then read", 1000 + which, 2000 + which);
        {
            let dbr: &D = &db;
            let got: BTreeSet<usize> = dbr.scan_members::<SetUsize>(&(1000 + which)).collect(); checks += 1;
            if got != want_set { found(&format!("{name}: scan_members after {desc} as first touch after reopen"), &input, &format!("{got:?}"), &format!("{want_set:?}")); }
            let got: BTreeSet<usize> = dbr.scan_members::<SetUsize>(&(2000 + which)).collect(); checks += 1;
            if got != [20].into() { found(&format!("{name}: scan_members of an untouched key after {desc} as first touch after reopen"), &input, &format!("{got:?}"), "{20}"); }
            let g = dbr.get_wide_column::<WideSuf, u64>(&vec![which as u8, 1]); checks += 1;
            if g != want_a { found(&format!("{name}: get_wide_column after {desc} as first touch after reopen"), &input, &format!("{g:?}"), &format!("{want_a:?}")); }
            let g = dbr.get_wide_column::<WideSuf, u64>(&vec![which as u8, 2]); checks += 1;
            if g != Some(88) { found(&format!("{name}: get_wide_column of an untouched key after {desc} as first touch after reopen"), &input, &format!("{g:?}"), "Some(88)"); }
        }
        drop(db);
        // and once more after another reopen
        let db = open();
        let got: BTreeSet<usize> = db.scan_members::<SetUsize>(&(1000 + which)).collect(); checks += 1;
        if got != want_set { found(&format!("{name}: scan_members after {desc} as first touch after reopen, read after a second reopen"), &input, &format!("{got:?}"), &format!("{want_set:?}")); }
        let g = db.get_wide_column::<WideSuf, u64>(&vec![which as u8, 1]); checks += 1;
        if g != want_a { found(&format!("{name}: get_wide_column after {desc} as first touch after reopen, read after a second reopen"), &input, &format!("{g:?}"), &format!("{want_a:?}")); }
    }
    checks
}

/// directed: ONE serialization buffer records several operations on the same slot; consumed and committed, the LAST recorded
/// operation must win (the recorded order is the order of application) -- for wide columns and for set members
fn same_slot_twice_in_one_buffer<D: KvDatabase>(name: &str, open: &dyn Fn() -> D) -> u64 {
    let db = open();
    let mut checks = 0;
    let k = vec![1u8, 2, 3];
    let mut buffer = db.serialization_buffer();
    buffer.put::<WideSuf, u64>(&k, &111);
    buffer.put::<WideSuf, u64>(&k, &222);
    buffer.put::<WidePre, String>(&k, &"old".to_string());
    buffer.delete::<WidePre, String>(&k);
    buffer.put::<WidePre, String>(&vec![9u8], &"x".to_string());
    buffer.delete::<WidePre, String>(&vec![9u8]);
    buffer.put::<WidePre, String>(&vec![9u8], &"again".to_string());
    buffer.insert_member::<SetUsize>(&5, &50);
    buffer.delete_member::<SetUsize>(&5, &50);
    buffer.delete_member::<SetUsize>(&6, &60);
    buffer.insert_member::<SetUsize>(&6, &60);
    let mut batch = db.write_batch();
    batch.consume_serialization_buffer(buffer);
    batch.commit();
    let input = "one serialization buffer: put k=111, put k=222; put k'=old, delete k'; put k''=x, delete k'', put k''=again; insert_member(5,50), delete_member(5,50); delete_member(6,60), insert_member(6,60); consumed by one batch, committed";
    let g = db.get_wide_column::<WideSuf, u64>(&k); checks += 1;
    if g != Some(222) { found(&format!("{name}: the last of two puts recorded in one serialization buffer must win"), input, &format!("{g:?}"), "Some(222)"); }
    let g = db.get_wide_column::<WidePre, String>(&k); checks += 1;
    if g.is_some() { found(&format!("{name}: put then delete recorded in one serialization buffer"), input, &format!("{g:?}"), "None"); }
    let g = db.get_wide_column::<WidePre, String>(&vec![9u8]); checks += 1;
    if g.as_deref() != Some("again") { found(&format!("{name}: put, delete, put recorded in one serialization buffer"), input, &format!("{g:?}"), "Some(\"again\")"); }
    let s: BTreeSet<usize> = db.scan_members::<SetUsize>(&5).collect(); checks += 1;
    if !s.is_empty() { found(&format!("{name}: insert_member then delete_member recorded in one serialization buffer"), input, &format!("{s:?}"), "{}"); }
    let s: BTreeSet<usize> = db.scan_members::<SetUsize>(&6).collect(); checks += 1;
    if s != BTreeSet::from([60]) { found(&format!("{name}: delete_member then insert_member recorded in one serialization buffer"), input, &format!("{s:?}"), "{60}"); }
    checks
}

/// directed: values whose encoding is EMPTY (unit, PhantomData) are values: committed, they read back as Some
fn empty_encodings<D: KvDatabase>(name: &str, open: &dyn Fn() -> D) -> u64 {
    let mut checks = 0;
    {
        let db = open();
        let mut b = db.write_batch();
        b.put::<WideEmpty, ()>(&vec![4u8], &());
        b.put::<WideEmpty, ()>(&vec![], &());
        b.commit();
        let mut buffer = db.serialization_buffer();
        buffer.put::<WideEmpty, ()>(&vec![5u8], &());
        let mut b = db.write_batch();
        b.consume_serialization_buffer(buffer);
        b.commit();
        for key in [vec![4u8], vec![], vec![5u8]] {
            let g = db.get_wide_column::<WideEmpty, ()>(&key); checks += 1;
            if g != Some(()) { found(&format!("{name}: a committed value with an empty encoding reads back as absent"), &format!("put::<WideEmpty, ()>({key:?}, ()) committed; get"), &format!("{g:?}"), "Some(())"); }
        }
        let g = db.get_wide_column::<WideEmpty, ()>(&vec![6u8]); checks += 1;
        if g.is_some() { found(&format!("{name}: a key that was never written reads as present"), "get::<WideEmpty, ()>([6])", &format!("{g:?}"), "None"); }
    }
    let db = open();
    let g = db.get_wide_column::<WideEmpty, ()>(&vec![4u8]); checks += 1;
    if g != Some(()) { found(&format!("{name}: a committed value with an empty encoding reads back as absent after reopen"), "put::<WideEmpty, ()>([4], ()) committed; reopen; get", &format!("{g:?}"), "Some(())"); }
    checks
}

/// a second column with exactly the key layout of WideSuf (same key type, same discriminants): only the column differs
#[derive(Debug, Clone, Copy, PartialEq, Eq, PartialOrd, Ord, Hash, Identifiable)]
#[stable_type_id_crate(qbice_stable_type_id)]
struct WideSufTwin;
impl WideColumn for WideSufTwin {
    type Discriminant = u8;
    type Key = Vec<u8>;
    fn discriminant_encoding() -> DiscriminantEncoding { DiscriminantEncoding::Suffixed }
}
impl WideColumnValue<WideSufTwin> for String { fn discriminant() -> u8 { 0 } }
impl WideColumnValue<WideSufTwin> for u64 { fn discriminant() -> u8 { 1 } }
#[derive(Debug, Clone, Copy, PartialEq, Eq, PartialOrd, Ord, Hash, Identifiable)]
#[stable_type_id_crate(qbice_stable_type_id)]
struct SetBytesTwin;
impl KeyOfSetColumn for SetBytesTwin { type Key = Vec<u8>; type Element = Vec<u8>; }

/// directed: two columns whose encoded keys are byte-identical, written back to back (direct batch and serialization buffer):
/// columns never interfere, however adjacent and however similar their operations are
fn twin_columns_back_to_back<D: KvDatabase>(name: &str, open: &dyn Fn() -> D) -> u64 {
    let mut checks = 0;
    for via_buffer in [false, true] {
        let how = if via_buffer { "through one serialization buffer" } else { "in one direct batch" };
        let db = open();
        let k = vec![if via_buffer { 1u8 } else { 2u8 }, 9];
        let mut b = db.write_batch();
        let mut buf = db.serialization_buffer();
        macro_rules! both { ($m:ident :: <$($t:ty),*> ($($a:expr),*)) => { if via_buffer { buf.$m::<$($t),*>($($a),*); } else { b.$m::<$($t),*>($($a),*); } } }
        both!(put::<WideSuf, String>(&k, &"Alice".to_string()));
        both!(put::<WideSufTwin, String>(&k, &"Alice B.".to_string()));
        both!(put::<WideSufTwin, u64>(&k, &7));
        both!(put::<WideSuf, u64>(&k, &8));
        both!(insert_member::<SetBytes>(&k, &vec![1u8]));
        both!(insert_member::<SetBytesTwin>(&k, &vec![1u8]));
        both!(delete_member::<SetBytesTwin>(&k, &vec![1u8]));
        both!(insert_member::<SetBytesTwin>(&k, &vec![2u8]));
        both!(delete::<WideSufTwin, u64>(&k));
        if via_buffer { b.consume_serialization_buffer(buf); } else { drop(buf); }
        b.commit();
        let desc = format!("{how}: put WideSuf/String k=Alice; put WideSufTwin/String k=\"Alice B.\"; put Twin/u64 k=7; put WideSuf/u64 k=8; insert SetBytes k/[1]; insert Twin k/[1]; delete Twin k/[1]; insert Twin k/[2]; delete Twin/u64 k; commit");
        let g = db.get_wide_column::<WideSuf, String>(&k); checks += 1;
        if g.as_deref() != Some("Alice") { found(&format!("{name}: a put to another column changed this column's value"), &desc, &format!("WideSuf/String = {g:?}"), "Some(\"Alice\")"); }
        let g = db.get_wide_column::<WideSufTwin, String>(&k); checks += 1;
        if g.as_deref() != Some("Alice B.") { found(&format!("{name}: a put next to a put of the same key bytes in another column is lost"), &desc, &format!("WideSufTwin/String = {g:?}"), "Some(\"Alice B.\")"); }
        let g = db.get_wide_column::<WideSuf, u64>(&k); checks += 1;
        if g != Some(8) { found(&format!("{name}: twin columns interfere (u64 value)"), &desc, &format!("WideSuf/u64 = {g:?}"), "Some(8)"); }
        let g = db.get_wide_column::<WideSufTwin, u64>(&k); checks += 1;
        if g.is_some() { found(&format!("{name}: twin columns interfere (deleted u64 value)"), &desc, &format!("WideSufTwin/u64 = {g:?}"), "None"); }
        let got: BTreeSet<Vec<u8>> = db.scan_members::<SetBytes>(&k).collect(); checks += 1;
        if got != BTreeSet::from([vec![1u8]]) { found(&format!("{name}: twin set columns interfere"), &desc, &format!("SetBytes = {got:?}"), "{[1]}"); }
        let got: BTreeSet<Vec<u8>> = db.scan_members::<SetBytesTwin>(&k).collect(); checks += 1;
        if got != BTreeSet::from([vec![2u8]]) { found(&format!("{name}: twin set columns interfere"), &desc, &format!("SetBytesTwin = {got:?}"), "{[2]}"); }
    }
    checks
}

/// directed: operations on members / keys that were NEVER committed, several to one slot inside one DIRECT batch (no buffer):
/// the later operation wins whatever the committed store says about the slot
fn fresh_slot_twice_in_one_direct_batch<D: KvDatabase>(name: &str, open: &dyn Fn() -> D) -> u64 {
    let mut checks = 0;
    let db = open();
    let k = vec![7u8, 7, 7];
    let mut b = db.write_batch();
    b.insert_member::<SetBytes>(&k, &vec![1u8]);
    b.delete_member::<SetBytes>(&k, &vec![1u8]);          // fresh member: inserted and deleted in one batch
    b.insert_member::<SetBytes>(&k, &vec![2u8]);
    b.put::<WidePre, u64>(&k, &1);
    b.delete::<WidePre, u64>(&k);                           // fresh key: put and deleted in one batch
    b.put::<WideSuf, u64>(&k, &1);
    b.put::<WideSuf, u64>(&k, &2);
    b.commit();
    let mut b2 = db.write_batch();
    b2.insert_member::<SetBytes>(&k, &vec![3u8]);           // pending in ANOTHER, still uncommitted batch ...
    let mut b3 = db.write_batch();
    b3.delete_member::<SetBytes>(&k, &vec![3u8]);           // ... deleted by a later batch
    b2.commit();
    b3.commit();
    let got: BTreeSet<Vec<u8>> = db.scan_members::<SetBytes>(&k).collect(); checks += 1;
    if got != BTreeSet::from([vec![2u8]]) { found(&format!("{name}: members after insert+delete of never-committed members through the direct batch path"), "batch{insert [1]; delete [1]; insert [2]} commit; batch2{insert [3]} batch3{delete [3]} (both filled before either commits); commit 2; commit 3; scan", &format!("{got:?}"), "{[2]}"); }
    let g = db.get_wide_column::<WidePre, u64>(&k); checks += 1;
    if g.is_some() { found(&format!("{name}: a key put and deleted in one direct batch is present"), "batch{put k=1; delete k} commit; get", &format!("{g:?}"), "None"); }
    let g = db.get_wide_column::<WideSuf, u64>(&k); checks += 1;
    if g != Some(2) { found(&format!("{name}: two puts to one slot in one direct batch"), "batch{put k=1; put k=2} commit; get", &format!("{g:?}"), "Some(2)"); }
    checks
}

/// directed: small signed keys, members and values on both sides of zero (one-byte and zigzag codecs)
#[derive(Debug, Clone, Copy, PartialEq, Eq, PartialOrd, Ord, Hash, Identifiable)]
#[stable_type_id_crate(qbice_stable_type_id)]
struct WideI8;
impl WideColumn for WideI8 {
    type Discriminant = i8;
    type Key = i8;
    fn discriminant_encoding() -> DiscriminantEncoding { DiscriminantEncoding::Prefixed }
}
impl WideColumnValue<WideI8> for i16 { fn discriminant() -> i8 { -1 } }
impl WideColumnValue<WideI8> for i8 { fn discriminant() -> i8 { 1 } }
#[derive(Debug, Clone, Copy, PartialEq, Eq, PartialOrd, Ord, Hash, Identifiable)]
#[stable_type_id_crate(qbice_stable_type_id)]
struct SetI8;
impl KeyOfSetColumn for SetI8 { type Key = i8; type Element = i16; }
fn small_signed<D: KvDatabase>(name: &str, open: &dyn Fn() -> D) -> u64 {
    let mut checks = 0;
    let keys: Vec<i8> = vec![i8::MIN, -127, -100, -64, -63, -2, -1, 0, 1, 2, 63, 64, 100, 127];
    let check = |db: &D, when: &str, checks: &mut u64| {
        for k in &keys {
            let g = db.get_wide_column::<WideI8, i16>(k); *checks += 1;
            if g != Some(*k as i16 * 200) { found(&format!("{name}: i8 key {k} reads back another key's value {when}"), &format!("put::<WideI8, i16>(k, 200*k) for k in {keys:?}; get({k})"), &format!("{g:?}"), &format!("Some({})", *k as i16 * 200)); }
            let g = db.get_wide_column::<WideI8, i8>(k); *checks += 1;
            if g != Some(k.wrapping_neg()) { found(&format!("{name}: i8 value under key {k} reads back differently {when}"), &format!("put::<WideI8, i8>(k, -k); get({k})"), &format!("{g:?}"), &format!("Some({})", k.wrapping_neg())); }
            let got: BTreeSet<i16> = db.scan_members::<SetI8>(k).collect(); *checks += 1;
            let want: BTreeSet<i16> = [*k as i16, -(*k as i16), *k as i16 * 129].into_iter().collect();
            if got != want { found(&format!("{name}: members of i8 key {k} {when}"), &format!("insert_member::<SetI8>({k}, {{k, -k, 129k}})"), &format!("{got:?}"), &format!("{want:?}")); }
        }
    };
    {
        let db = open();
        let mut b = db.write_batch();
        let mut buf = db.serialization_buffer();
        for k in &keys {
            b.put::<WideI8, i16>(k, &(*k as i16 * 200));
            buf.put::<WideI8, i8>(k, &k.wrapping_neg());
            b.insert_member::<SetI8>(k, &(*k as i16));
            buf.insert_member::<SetI8>(k, &(-(*k as i16)));
            b.insert_member::<SetI8>(k, &(*k as i16 * 129));
        }
        b.consume_serialization_buffer(buf);
        b.commit();
        check(&db, "in the same process", &mut checks);
    }
    let db = open();
    check(&db, "after reopen", &mut checks);
    checks
}

/// directed: batches that consist ONLY of operations whose encoded key and value are empty byte strings (direct and through a
/// serialization buffer), each in a batch of its own: put, overwrite-visible-after-reopen, delete
fn all_empty_batch<D: KvDatabase>(name: &str, open: &dyn Fn() -> D) -> u64 {
    let mut checks = 0;
    for via_buffer in [false, true] {
        let how = if via_buffer { "through a serialization buffer" } else { "directly" };
        {
            let db = open();
            // make sure the slot is empty to start with (second pass)
            let mut b = db.write_batch(); b.delete::<WideNothing, ()>(&()); b.put::<WidePre, u64>(&vec![9u8], &7); b.commit();
            let mut b = db.write_batch();
            if via_buffer { let mut buf = db.serialization_buffer(); buf.put::<WideNothing, ()>(&(), &()); b.consume_serialization_buffer(buf); } else { b.put::<WideNothing, ()>(&(), &()); }
            b.commit();
            let g = db.get_wide_column::<WideNothing, ()>(&()); checks += 1;
            if g != Some(()) { found(&format!("{name}: a batch holding only an empty-key/empty-value put ({how}) was not applied"), "put::<WideNothing, ()>((), ()) alone in a batch; commit; get", &format!("{g:?}"), "Some(())"); }
        }
        {
            let db = open();
            let g = db.get_wide_column::<WideNothing, ()>(&()); checks += 1;
            if g != Some(()) { found(&format!("{name}: the empty/empty put ({how}) is gone after reopen"), "put alone in a batch; commit; reopen; get", &format!("{g:?}"), "Some(())"); }
            let mut b = db.write_batch();
            if via_buffer { let mut buf = db.serialization_buffer(); buf.delete::<WideNothing, ()>(&()); b.consume_serialization_buffer(buf); } else { b.delete::<WideNothing, ()>(&()); }
            b.commit();
            let g = db.get_wide_column::<WideNothing, ()>(&()); checks += 1;
            if g.is_some() { found(&format!("{name}: a batch holding only an empty-key delete ({how}) was not applied"), "put committed; delete::<WideNothing, ()>(()) alone in a batch; commit; get", &format!("{g:?}"), "None"); }
        }
        {
            let db = open();
            let g = db.get_wide_column::<WideNothing, ()>(&()); checks += 1;
            if g.is_some() { found(&format!("{name}: the empty-key delete ({how}) is undone after reopen"), "put; delete alone in a batch; commit; reopen; get", &format!("{g:?}"), "None"); }
        }
    }
    checks
}

/// directed: multi-kilobyte strings as values, keys and set members (payload sizes around 1 KiB, 4 KiB, 64 KiB), next to short
/// ones, read back, scanned, and again after reopen
fn large_payloads<D: KvDatabase>(name: &str, open: &dyn Fn() -> D) -> u64 {
    let mut checks = 0;
    let sizes = [0usize, 1, 127, 128, 1023, 1024, 1025, 2048, 4097, 5000, 65535, 65536, 70001];
    let text = |n: usize, c: char| -> String { let mut s = String::with_capacity(n); for i in 0..n { s.push(if i % 97 == 0 { c } else { (b'a' + (i % 23) as u8) as char }); } s };
    let check = |db: &D, when: &str, checks: &mut u64| {
        for (i, n) in sizes.iter().enumerate() {
            let key = vec![i as u8];
            let want = text(*n, 'V');
            let g = db.get_wide_column::<WidePre, String>(&key); *checks += 1;
            if g.as_deref() != Some(want.as_str()) { found(&format!("{name}: a {n}-byte string value reads back differently {when}"), &format!("put::<WidePre, String>({key:?}, <{n} bytes>); commit; get"), &format!("{:?} bytes", g.map(|x| x.len())), &format!("Some({n}) bytes, same content")); }
            let g = db.get_wide_column::<WideSuf, String>(&key); *checks += 1;
            if g.as_deref() != Some(want.as_str()) { found(&format!("{name}: a {n}-byte string value (suffixed column) reads back differently {when}"), &format!("put::<WideSuf, String>({key:?}, <{n} bytes>)"), &format!("{:?} bytes", g.map(|x| x.len())), &format!("Some({n}) bytes")); }
        }
        // members are part of the backend KEY: Fjall limits keys to 65535 bytes (a documented limit of the trusted backend), so
        // members stay multi-kilobyte, values go beyond 64 KiB
        let got: BTreeSet<String> = db.scan_members::<SetStr>(&"k".to_string()).collect();
        let want: BTreeSet<String> = sizes.iter().filter(|n| **n <= 5000).map(|n| text(*n, 'M')).collect();
        *checks += 1;
        if got != want { found(&format!("{name}: members of multi-kilobyte size scan back differently {when}"), &format!("insert_member::<SetStr>(\"k\", <strings of {sizes:?} bytes>); commit; scan"), &format!("lengths {:?}", got.iter().map(|x| x.len()).collect::<Vec<_>>()), &format!("lengths {:?}", want.iter().map(|x| x.len()).collect::<Vec<_>>())); }
        for n in [1024usize, 1025, 5000] {
            let bigkey = text(n, 'K');
            let got: BTreeSet<String> = db.scan_members::<SetStr>(&bigkey).collect();
            *checks += 1;
            if got != BTreeSet::from(["m".to_string(), text(n, 'E')]) { found(&format!("{name}: the set of a {n}-byte key scans back differently {when}"), &format!("insert_member::<SetStr>(<{n}-byte key>, \"m\" and a {n}-byte member)"), &format!("lengths {:?}", got.iter().map(|x| x.len()).collect::<Vec<_>>()), "2 members"); }
        }
    };
    {
        let db = open();
        let mut b = db.write_batch();
        let mut buf = db.serialization_buffer();
        for (i, n) in sizes.iter().enumerate() {
            let key = vec![i as u8];
            b.put::<WidePre, String>(&key, &text(*n, 'V'));
            buf.put::<WideSuf, String>(&key, &text(*n, 'V'));
            if *n <= 5000 { if i % 2 == 0 { b.insert_member::<SetStr>(&"k".to_string(), &text(*n, 'M')); } else { buf.insert_member::<SetStr>(&"k".to_string(), &text(*n, 'M')); } }
        }
        for n in [1024usize, 1025, 5000] {
            b.insert_member::<SetStr>(&text(n, 'K'), &"m".to_string());
            buf.insert_member::<SetStr>(&text(n, 'K'), &text(n, 'E'));
        }
        b.consume_serialization_buffer(buf);
        b.commit();
        check(&db, "in the same process", &mut checks);
    }
    let db = open();
    check(&db, "after reopen", &mut checks);
    checks
}

fn main() {
    let a: Vec<String> = std::env::args().collect();
    let mut seed = 0u64;
    let mut rounds = 60usize;
    for i in 0..a.len() {
        if a[i] == "--seed" && i + 1 < a.len() { seed = a[i + 1].parse().unwrap_or(0); }
        if a[i] == "--rounds" && i + 1 < a.len() { rounds = a[i + 1].parse().unwrap_or(60); }
    }
    let base = std::env::temp_dir().join(format!("verif_c11_{}_{}", std::process::id(), seed));
    let _ = std::fs::remove_dir_all(&base);
    std::fs::create_dir_all(&base).unwrap();
    let p1 = base.join("rocks");
    let p2 = base.join("fjall");
    let mut n = 0;
    {
        use qbice_storage::kv_database::rocksdb::RocksDB;
        n += run("rocksdb", &|| RocksDB::open(&p1, Plugin::default()).unwrap(), seed, rounds);
        let p1b = base.join("rocks_first_touch");
        n += first_touch_after_reopen("rocksdb", &|| RocksDB::open(&p1b, Plugin::default()).unwrap());
        let p1c = base.join("rocks_same_slot");
        n += same_slot_twice_in_one_buffer("rocksdb", &|| RocksDB::open(&p1c, Plugin::default()).unwrap());
        let p1d = base.join("rocks_empty");
        n += empty_encodings("rocksdb", &|| RocksDB::open(&p1d, Plugin::default()).unwrap());
        let p1e = base.join("rocks_all_empty");
        n += all_empty_batch("rocksdb", &|| RocksDB::open(&p1e, Plugin::default()).unwrap());
        let p1i = base.join("rocks_twins");
        n += twin_columns_back_to_back("rocksdb", &|| RocksDB::open(&p1i, Plugin::default()).unwrap());
        let p1h = base.join("rocks_fresh_slot");
        n += fresh_slot_twice_in_one_direct_batch("rocksdb", &|| RocksDB::open(&p1h, Plugin::default()).unwrap());
        let p1g = base.join("rocks_signed");
        n += small_signed("rocksdb", &|| RocksDB::open(&p1g, Plugin::default()).unwrap());
        let p1f = base.join("rocks_large");
        n += large_payloads("rocksdb", &|| RocksDB::open(&p1f, Plugin::default()).unwrap());
    }
    {
        use qbice_storage::kv_database::fjall::Fjall;
        n += run("fjall", &|| Fjall::open(&p2, Plugin::default()).unwrap(), seed, rounds);
        let p2b = base.join("fjall_first_touch");
        n += first_touch_after_reopen("fjall", &|| Fjall::open(&p2b, Plugin::default()).unwrap());
        let p2c = base.join("fjall_same_slot");
        n += same_slot_twice_in_one_buffer("fjall", &|| Fjall::open(&p2c, Plugin::default()).unwrap());
        let p2d = base.join("fjall_empty");
        n += empty_encodings("fjall", &|| Fjall::open(&p2d, Plugin::default()).unwrap());
        let p2e = base.join("fjall_all_empty");
        n += all_empty_batch("fjall", &|| Fjall::open(&p2e, Plugin::default()).unwrap());
        let p2i = base.join("fjall_twins");
        n += twin_columns_back_to_back("fjall", &|| Fjall::open(&p2i, Plugin::default()).unwrap());
        let p2h = base.join("fjall_fresh_slot");
        n += fresh_slot_twice_in_one_direct_batch("fjall", &|| Fjall::open(&p2h, Plugin::default()).unwrap());
        let p2g = base.join("fjall_signed");
        n += small_signed("fjall", &|| Fjall::open(&p2g, Plugin::default()).unwrap());
        let p2f = base.join("fjall_large");
        n += large_payloads("fjall", &|| Fjall::open(&p2f, Plugin::default()).unwrap());
    }
    let _ = std::fs::remove_dir_all(&base);
    println!("{{\"found\": false, \"searched\": {n}}}");
}
