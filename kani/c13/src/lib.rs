//! Kani harnesses for C13: the default `write_*` methods of the real `StableHasher` trait, observed through a recording
//! hasher (full-domain symbolic inputs, loop-free => complete).
#![allow(unused)]
#[cfg(kani)]
mod harness {
    use qbice_stable_hash::{StableHash, StableHasher};

    /// records the bytes fed to `write`
    struct Rec { buf: [u8; 40], n: usize }
    impl Rec { fn new() -> Self { Rec { buf: [0; 40], n: 0 } } }
    impl StableHasher for Rec {
        type Hash = u128;
        fn finish(&self) -> u128 { 0 }
        fn write(&mut self, bytes: &[u8]) {
            let mut i = 0;
            while i < bytes.len() {
                if self.n < 40 { self.buf[self.n] = bytes[i]; }
                self.n += 1;
                i += 1;
            }
        }
        fn sub_hash(&self, _f: &mut dyn FnMut(&mut dyn StableHasher<Hash = u128>)) -> u128 { 0 }
    }

    #[kani::proof]
    #[kani::unwind(6)]
    fn f32_nan_normalised_else_bit_exact() {
        let bits: u32 = kani::any();
        let bits2: u32 = kani::any();
        let (a, b) = (f32::from_bits(bits), f32::from_bits(bits2));
        let (mut ra, mut rb) = (Rec::new(), Rec::new());
        a.stable_hash(&mut ra);
        b.stable_hash(&mut rb);
        assert!(ra.n == 4 && rb.n == 4, "fixed width");
        if a.is_nan() && b.is_nan() {
            assert!(ra.buf[0..4] == rb.buf[0..4], "every NaN feeds the same bytes (payload and sign do not leak)");
        }
        if !a.is_nan() {
            assert!(ra.buf[0..4] == bits.to_le_bytes(), "non-NaN: little-endian IEEE bits");
        }
        if !a.is_nan() && !b.is_nan() && bits != bits2 {
            assert!(ra.buf[0..4] != rb.buf[0..4], "different non-NaN bit patterns feed different bytes");
        }
        if a.is_nan() && !b.is_nan() {
            assert!(ra.buf[0..4] != rb.buf[0..4], "NaN is distinguishable from every number");
        }
        kani::cover!(a.is_nan() && b.is_nan() && bits != bits2);
    }

    #[kani::proof]
    #[kani::unwind(10)]
    fn f64_nan_normalised_else_bit_exact() {
        let bits: u64 = kani::any();
        let bits2: u64 = kani::any();
        let (a, b) = (f64::from_bits(bits), f64::from_bits(bits2));
        let (mut ra, mut rb) = (Rec::new(), Rec::new());
        a.stable_hash(&mut ra);
        b.stable_hash(&mut rb);
        assert!(ra.n == 8 && rb.n == 8, "fixed width");
        if a.is_nan() && b.is_nan() { assert!(ra.buf[0..8] == rb.buf[0..8], "every NaN feeds the same bytes"); }
        if !a.is_nan() { assert!(ra.buf[0..8] == bits.to_le_bytes(), "non-NaN: little-endian IEEE bits"); }
        if !a.is_nan() && !b.is_nan() && bits != bits2 { assert!(ra.buf[0..8] != rb.buf[0..8]); }
        if a.is_nan() && !b.is_nan() { assert!(ra.buf[0..8] != rb.buf[0..8]); }
        kani::cover!(a.is_nan() && b.is_nan() && bits != bits2);
    }

    macro_rules! int_le {
        ($name:ident, $ty:ty, $w:expr, $unwind:expr) => {
            /// the fixed-width little-endian image assumed by the Verus unit (LeImage axioms): width, exact bytes
            #[kani::proof]
            #[kani::unwind($unwind)]
            fn $name() {
                let v: $ty = kani::any();
                let mut r = Rec::new();
                v.stable_hash(&mut r);
                assert!(r.n == $w, "fixed width");
                assert!(r.buf[0..$w] == v.to_le_bytes(), "little-endian image");
                kani::cover!(v != 0);
            }
        };
    }
    int_le!(le_u8, u8, 1, 3);
    int_le!(le_i8, i8, 1, 3);
    int_le!(le_u16, u16, 2, 4);
    int_le!(le_i16, i16, 2, 4);
    int_le!(le_u32, u32, 4, 6);
    int_le!(le_i32, i32, 4, 6);
    int_le!(le_u64, u64, 8, 10);
    int_le!(le_i64, i64, 8, 10);
    int_le!(le_u128, u128, 16, 18);
    int_le!(le_i128, i128, 16, 18);
    int_le!(le_usize, usize, 8, 10);
    int_le!(le_isize, isize, 8, 10);

    /// the raw-byte impl for `Discriminant<T>` (unsafe code, assumed by the Verus unit): feeds ALL bytes of the discriminant,
    /// so two values feed equal bytes exactly when they are the same variant -- also when the discriminants differ only in
    /// their high bits
    #[repr(u64)]
    #[derive(Clone, Copy)]
    enum Wide { A = 1, B = 1 + (1u64 << 32), C = 1 + (1u64 << 63), D = 2 }
    #[repr(i64)]
    #[derive(Clone, Copy)]
    enum WideNeg { A = -1, B = 0xFFFF_FFFF, C = 0 }
    fn pick(i: u8) -> Wide { match i % 4 { 0 => Wide::A, 1 => Wide::B, 2 => Wide::C, _ => Wide::D } }
    fn pickn(i: u8) -> WideNeg { match i % 3 { 0 => WideNeg::A, 1 => WideNeg::B, _ => WideNeg::C } }

    #[kani::proof]
    #[kani::unwind(12)]
    fn discriminant_bytes_identify_the_variant() {
        let (i, j): (u8, u8) = (kani::any(), kani::any());
        kani::assume(i < 4 && j < 4);
        let (a, b) = (pick(i), pick(j));
        let (mut ra, mut rb) = (Rec::new(), Rec::new());
        std::mem::discriminant(&a).stable_hash(&mut ra);
        std::mem::discriminant(&b).stable_hash(&mut rb);
        assert!(ra.n == std::mem::size_of::<std::mem::Discriminant<Wide>>() && rb.n == ra.n, "all bytes of the discriminant are fed");
        assert!((ra.buf[0..8] == rb.buf[0..8]) == (i == j), "equal bytes exactly for the same variant");
        let (k, l): (u8, u8) = (kani::any(), kani::any());
        kani::assume(k < 3 && l < 3);
        let (mut rc, mut rd) = (Rec::new(), Rec::new());
        std::mem::discriminant(&pickn(k)).stable_hash(&mut rc);
        std::mem::discriminant(&pickn(l)).stable_hash(&mut rd);
        assert!((rc.buf[0..8] == rd.buf[0..8]) == (k == l), "equal bytes exactly for the same variant (signed repr)");
        let (x, y): (Option<u8>, Option<u8>) = (kani::any(), kani::any());
        let (mut re, mut rf) = (Rec::new(), Rec::new());
        std::mem::discriminant(&x).stable_hash(&mut re);
        std::mem::discriminant(&y).stable_hash(&mut rf);
        assert!(re.n == rf.n && re.n <= 8);
        assert!((re.buf[0..8] == rf.buf[0..8]) == (x.is_some() == y.is_some()), "Option: equal exactly for the same variant");
        kani::cover!(i != j && k != l);
    }

    #[kani::proof]
    #[kani::unwind(6)]
    fn bool_char_images() {
        let b: bool = kani::any();
        let mut r = Rec::new();
        b.stable_hash(&mut r);
        assert!(r.n == 1 && r.buf[0] == (b as u8));
        let c: char = kani::any();
        let mut r2 = Rec::new();
        c.stable_hash(&mut r2);
        assert!(r2.n == 4 && r2.buf[0..4] == (c as u32).to_le_bytes());
        kani::cover!(b && (c as u32) > 0xFFFF);
    }
}
