//! Kani harnesses for C12 (leaf codecs). They call the public trait methods of the real
//! `PostcardEncoder` / `PostcardDecoder` from /repo; nothing is copied or modelled.
//! Every loop is bounded by the operand width (unwind = ceil(w/7)+2, unwinding assertions on),
//! inputs are full-domain `kani::any()`, so a pass is a complete proof for that width.
#![allow(unused)]
#[cfg(kani)]
mod harness {
    use qbice_serialize::{Decoder, Encoder, PostcardDecoder, PostcardEncoder};

    // error paths build messages with format!; that code is irrelevant to the property and
    // explodes CBMC. (DESIGN section 3)
    fn fmt_stub(_args: std::fmt::Arguments<'_>) -> String { String::new() }

    macro_rules! roundtrip {
        ($name:ident, $pair:ident, $ty:ty, $emit:ident, $read:ident, $unwind:expr, $maxlen:expr) => {
            #[kani::proof]
            #[kani::unwind($unwind)]
            #[kani::stub(alloc::fmt::format, fmt_stub)]
            fn $name() {
                let v: $ty = kani::any();
                let mut enc = PostcardEncoder::new(Vec::<u8>::new());
                enc.$emit(v).unwrap();
                let bytes = enc.into_inner();
                assert!(bytes.len() >= 1 && bytes.len() <= $maxlen, "encoded length within bound");
                let mut dec = PostcardDecoder::new(&bytes[..]);
                let w = dec.$read().expect("decode of an encoded value succeeds");
                assert!(w == v, "round trip");
                assert!(dec.into_inner().is_empty(), "consumes exactly the bytes written");
                kani::cover!(bytes.len() == $maxlen, "maximal length reachable");
            }

            #[kani::proof]
            #[kani::unwind($unwind)]
            #[kani::stub(alloc::fmt::format, fmt_stub)]
            fn $pair() {
                let a: $ty = kani::any();
                let b: $ty = kani::any();
                let mut enc = PostcardEncoder::new(Vec::<u8>::new());
                enc.$emit(a).unwrap();
                enc.$emit(b).unwrap();
                let bytes = enc.into_inner();
                let mut dec = PostcardDecoder::new(&bytes[..]);
                let x = dec.$read().expect("first");
                let y = dec.$read().expect("second");
                assert!(x == a && y == b, "back to back values are read back in sequence");
                assert!(dec.into_inner().is_empty(), "consumes exactly the bytes written");
                kani::cover!(bytes.len() == 2 * $maxlen, "maximal length reachable");
            }
        };
    }

    roundtrip!(rt_u8, pair_u8, u8, emit_u8, read_u8, 3, 1);
    roundtrip!(rt_i8, pair_i8, i8, emit_i8, read_i8, 3, 1);
    roundtrip!(rt_u16, pair_u16, u16, emit_u16, read_u16, 5, 3);
    roundtrip!(rt_i16, pair_i16, i16, emit_i16, read_i16, 5, 3);
    roundtrip!(rt_u32, pair_u32, u32, emit_u32, read_u32, 7, 5);
    roundtrip!(rt_i32, pair_i32, i32, emit_i32, read_i32, 7, 5);
    roundtrip!(rt_u64, pair_u64, u64, emit_u64, read_u64, 12, 10);
    roundtrip!(rt_i64, pair_i64, i64, emit_i64, read_i64, 12, 10);
    roundtrip!(rt_usize, pair_usize, usize, emit_usize, read_usize, 12, 10);
    roundtrip!(rt_isize, pair_isize, isize, emit_isize, read_isize, 12, 10);
    roundtrip!(rt_u128, pair_u128, u128, emit_u128, read_u128, 21, 19);
    roundtrip!(rt_i128, pair_i128, i128, emit_i128, read_i128, 21, 19);
    roundtrip!(rt_bool, pair_bool, bool, emit_bool, read_bool, 3, 1);
    roundtrip!(rt_char, pair_char, char, emit_char, read_char, 7, 3);

    #[kani::proof]
    #[kani::unwind(6)]
    fn rt_f32() {
        let bits: u32 = kani::any();
        let v = f32::from_bits(bits);
        let mut enc = PostcardEncoder::new(Vec::<u8>::new());
        enc.emit_f32(v).unwrap();
        let bytes = enc.into_inner();
        assert!(bytes.len() == 4);
        let mut dec = PostcardDecoder::new(&bytes[..]);
        let w = dec.read_f32().expect("decode");
        assert!(w.to_bits() == bits, "bit-exact round trip (NaN payloads included)");
        assert!(dec.into_inner().is_empty());
        kani::cover!(v.is_nan());
    }

    #[kani::proof]
    #[kani::unwind(10)]
    fn rt_f64() {
        let bits: u64 = kani::any();
        let v = f64::from_bits(bits);
        let mut enc = PostcardEncoder::new(Vec::<u8>::new());
        enc.emit_f64(v).unwrap();
        let bytes = enc.into_inner();
        assert!(bytes.len() == 8);
        let mut dec = PostcardDecoder::new(&bytes[..]);
        let w = dec.read_f64().expect("decode");
        assert!(w.to_bits() == bits, "bit-exact round trip (NaN payloads included)");
        assert!(dec.into_inner().is_empty());
        kani::cover!(v.is_nan());
    }
}
