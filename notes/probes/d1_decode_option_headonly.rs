use vstd::prelude::*;
use std::io;
verus! {

#[verifier::external_type_specification]
#[verifier::external_body]
pub struct ExIoError(std::io::Error);

pub struct Plugin { pub x: u8 }
pub struct Session { pub x: u8 }

pub trait Wire { spec fn bytes(&self) -> Seq<u8>; }

pub trait Decoder {
    spec fn rest(&self) -> Seq<u8>;

    fn read_u8(&mut self) -> (r: io::Result<u8>)
        ensures
            old(self).rest().len() > 0 ==> r == Ok::<u8, io::Error>(old(self).rest()[0]) && final(self).rest() == old(self).rest().subrange(1, old(self).rest().len() as int),
            old(self).rest().len() == 0 ==> r is Err;

    fn read_bool(&mut self) -> (r: io::Result<bool>)
        ensures
            old(self).rest().len() > 0 ==> r == Ok::<bool, io::Error>(old(self).rest()[0] != 0) && final(self).rest() == old(self).rest().subrange(1, old(self).rest().len() as int),
            old(self).rest().len() == 0 ==> r is Err,
    { Ok(self.read_u8()? != 0) }
}

pub open spec fn decodes_to<T: Wire>(before: Seq<u8>, r: io::Result<T>, after: Seq<u8>) -> bool {
    forall|v: T, tail: Seq<u8>| #![trigger v.bytes() + tail] before == v.bytes() + tail ==>
        (r matches Ok(w) && w.bytes() == v.bytes() && after == tail)
}

pub trait Decode: Sized + Wire {
    // self-delimiting: part of the trait contract that implementors must prove
    proof fn prefix_free(a: Self, b: Self, ta: Seq<u8>, tb: Seq<u8>)
        requires a.bytes() + ta == b.bytes() + tb
        ensures a.bytes() == b.bytes(), ta == tb;

    fn decode<D: Decoder + ?Sized>(
        decoder: &mut D,
        plugin: &Plugin,
        session: &mut Session,
    ) -> (r: io::Result<Self>)
        ensures decodes_to::<Self>(old(decoder).rest(), r, final(decoder).rest());
}

impl Wire for u8 { open spec fn bytes(&self) -> Seq<u8> { seq![*self] } }
impl Decode for u8 {
    proof fn prefix_free(a: Self, b: Self, ta: Seq<u8>, tb: Seq<u8>) {
        assert((a.bytes() + ta)[0] == a);
        assert((b.bytes() + tb)[0] == b);
        assert(ta =~= (a.bytes() + ta).subrange(1, (a.bytes() + ta).len() as int));
        assert(tb =~= (b.bytes() + tb).subrange(1, (b.bytes() + tb).len() as int));
    }
    fn decode<D: Decoder + ?Sized>(
        decoder: &mut D,
        _plugin: &Plugin,
        _session: &mut Session,
    ) -> io::Result<Self> {
        proof {
            assert forall|v: u8, tail: Seq<u8>| #![trigger v.bytes() + tail] decoder.rest() == v.bytes() + tail implies
                decoder.rest().len() > 0 && decoder.rest()[0] == v && decoder.rest().subrange(1, decoder.rest().len() as int) =~= tail by {
                assert((v.bytes() + tail)[0] == v);
            }
        }
        decoder.read_u8()
    }
}

impl<T: Wire> Wire for Option<T> {
    open spec fn bytes(&self) -> Seq<u8> {
        match self { Some(v) => seq![1u8] + v.bytes(), None => seq![0u8] }
    }
}


pub broadcast proof fn lemma_option_split<T: Wire>(v: Option<T>, tail: Seq<u8>)
    ensures
        (#[trigger] (v.bytes() + tail)).len() > 0,
        (v.bytes() + tail)[0] == (if v is Some {1u8} else {0u8}),
        v matches Some(x) ==> (v.bytes() + tail).subrange(1, (v.bytes() + tail).len() as int) == x.bytes() + tail,
        v is None ==> (v.bytes() + tail).subrange(1, (v.bytes() + tail).len() as int) == tail,
{
    match v {
        Some(x) => { assert(x.bytes() + tail =~= (v.bytes() + tail).subrange(1, (v.bytes() + tail).len() as int)); }
        None => { assert(tail =~= (v.bytes() + tail).subrange(1, (v.bytes() + tail).len() as int)); }
    }
}

impl<T: Decode> Decode for Option<T> {
    proof fn prefix_free(a: Self, b: Self, ta: Seq<u8>, tb: Seq<u8>) {
        assert((a.bytes() + ta)[0] == (b.bytes() + tb)[0]);
        match (a, b) {
            (Some(x), Some(y)) => {
                assert(x.bytes() + ta =~= (a.bytes() + ta).subrange(1, (a.bytes() + ta).len() as int));
                assert(y.bytes() + tb =~= (b.bytes() + tb).subrange(1, (b.bytes() + tb).len() as int));
                T::prefix_free(x, y, ta, tb);
            }
            (None, None) => {
                assert(ta =~= (a.bytes() + ta).subrange(1, (a.bytes() + ta).len() as int));
                assert(tb =~= (b.bytes() + tb).subrange(1, (b.bytes() + tb).len() as int));
            }
            (Some(x), None) => { assert((a.bytes() + ta)[0] == 1u8); assert((b.bytes() + tb)[0] == 0u8); }
            (None, Some(y)) => { assert((a.bytes() + ta)[0] == 0u8); assert((b.bytes() + tb)[0] == 1u8); }
        }
    }
    fn decode<D: Decoder + ?Sized>(
        decoder: &mut D,
        plugin: &Plugin,
        session: &mut Session,
    ) -> io::Result<Self> {
        broadcast use lemma_option_split;
        let is_some = decoder.read_bool()?;
        if is_some {
            Ok(Some(T::decode(decoder, plugin, session)?))
        } else {
            Ok(None)
        }
    }
}

} // verus!
fn main() {}
