use vstd::prelude::*;
use std::io;
verus! {

#[verifier::external_type_specification]
#[verifier::external_body]
pub struct ExIoError(std::io::Error);
pub struct Plugin { pub x: u8 }
pub struct Session { pub x: u8 }
pub trait Wire { spec fn bytes(&self) -> Seq<u8>; }
pub uninterp spec fn leb(n: nat) -> Seq<u8>;

pub trait Encoder {
    spec fn out(&self) -> Seq<u8>;
    fn emit_usize(&mut self, v: usize) -> (r: io::Result<()>)
        ensures r is Ok ==> final(self).out() == old(self).out() + leb(v as nat);
}
pub trait Encode: Wire {
    fn encode<E: Encoder + ?Sized>(&self, encoder: &mut E, plugin: &Plugin, session: &mut Session) -> (r: io::Result<()>)
        ensures r is Ok ==> final(encoder).out() == old(encoder).out() + self.bytes();
}

pub open spec fn concat<T: Wire>(s: Seq<T>) -> Seq<u8>
    decreases s.len()
{ if s.len() == 0 { seq![] } else { concat(s.drop_last()) + s.last().bytes() } }

impl<T: Wire> Wire for Vec<T> {
    open spec fn bytes(&self) -> Seq<u8> { leb(self@.len()) + concat(self@) }
}

pub broadcast proof fn lemma_concat_push<T: Wire>(s: Seq<T>, i: int)
    requires 0 <= i < s.len()
    ensures #[trigger] concat(s.take(i + 1)) == concat(s.take(i)) + s[i].bytes()
{
    assert(s.take(i + 1).drop_last() =~= s.take(i));
}

impl<T: Encode> Encode for Vec<T> {
    fn encode<E: Encoder + ?Sized>(
        &self,
        encoder: &mut E,
        plugin: &Plugin,
        session: &mut Session,
    ) -> io::Result<()> {
        broadcast use lemma_concat_push;
        encoder.emit_usize(self.len())?;
        for item in it: self
            invariant
                encoder.out() == old(encoder).out() + leb(self@.len()) + concat(self@.take(it.index@)),
        {
            item.encode(encoder, plugin, session)?;
        }
        proof { assert(self@.take(self@.len() as int) =~= self@); }
        Ok(())
    }
}

} // verus!
fn main() {}
