use vstd::prelude::*;
verus! {

pub open spec fn enc(v: nat) -> Seq<u8>
    decreases v
{
    if v < 0x80 { seq![v as u8] } else { seq![((v % 0x80) + 0x80) as u8] + enc(v / 0x80) }
}

const MAX_VARINT_U64_BYTES: usize = 10;

#[inline]
#[allow(clippy::cast_possible_truncation)]
const fn encode_varint_u64(
    mut value: u64,
    buf: &mut [u8; MAX_VARINT_U64_BYTES],
) -> (r: usize)
    ensures
        1 <= r <= 10,
        final(buf)@.subrange(0, r as int) == enc(value as nat),
{
    let mut i = 0;
    let ghost v0 = value;
    while value >= 0x80
        invariant
            0 <= i <= 9,
            enc(v0 as nat) == buf@.subrange(0, i as int) + enc(value as nat),
            value <= (u64::MAX >> ((7 * i) as u64)),
        decreases value
    {
        let ghost old_buf = buf@;
        let ghost old_value = value;
        assert(((value as u8) | 0x80u8) == ((value % 0x80) + 0x80) as u8) by (bit_vector);
        assert(value >> 7 == value / 0x80) by (bit_vector);
        assert(value >= 0x80 && value <= (u64::MAX >> ((7 * i) as u64)) && i <= 9 ==> i < 9) by (bit_vector);
        assert(value <= (u64::MAX >> ((7 * i) as u64)) && i < 9 ==> (value >> 7) <= (u64::MAX >> ((7 * (i + 1)) as u64))) by (bit_vector);
        buf[i] = (value as u8) | 0x80;
        value >>= 7;
        i += 1;
        assert(buf@.subrange(0, i as int) =~= old_buf.subrange(0, i - 1).push(((old_value % 0x80) + 0x80) as u8));
        assert(enc(old_value as nat) =~= seq![((old_value % 0x80) + 0x80) as u8] + enc(value as nat));
        assert(buf@.subrange(0, i as int) + enc(value as nat) =~= old_buf.subrange(0, i - 1) + enc(old_value as nat));
    }
    let ghost old_buf = buf@;
    buf[i] = value as u8;
    assert(buf@.subrange(0, i + 1) =~= old_buf.subrange(0, i as int) + enc(value as nat));
    i + 1
}

} // verus!
fn main() {}
