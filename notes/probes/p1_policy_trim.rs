use vstd::prelude::*;
verus! {

#[derive(Clone, Copy, PartialEq, Eq)]
pub enum Region { Window = 0, Probation = 1, Protected = 2, Pinned = 3 }

#[verifier::external_body]
#[verifier::reject_recursive_types(K)]
pub struct Lru<K> { k: std::marker::PhantomData<K> }

impl<K> Lru<K> {
    pub uninterp spec fn region_seq(&self, r: Region) -> Seq<K>;

    #[verifier::external_body]
    pub fn pinned_len(&self) -> (r: usize) ensures r == self.region_seq(Region::Pinned).len() { unimplemented!() }

    #[verifier::external_body]
    pub fn peek_least_recent(&self, region: Region) -> (r: Option<&K>)
        ensures
            self.region_seq(region).len() == 0 <==> r is None,
            r matches Some(k) ==> *k == self.region_seq(region).last(),
    { unimplemented!() }

    #[verifier::external_body]
    pub fn pop_least_recent(&mut self, region: Region) -> (r: Option<K>)
        ensures
            old(self).region_seq(region).len() == 0 <==> r is None,
            r matches Some(k) ==> k == old(self).region_seq(region).last()
                && final(self).region_seq(region) == old(self).region_seq(region).drop_last(),
            forall|q: Region| q != region ==> final(self).region_seq(q) == old(self).region_seq(q),
    { unimplemented!() }

    #[verifier::external_body]
    pub fn shuffle_tail_to_head(&mut self, region: Region)
        ensures
            final(self).region_seq(region).len() == old(self).region_seq(region).len(),
            forall|q: Region| q != region ==> final(self).region_seq(q) == old(self).region_seq(q),
    { unimplemented!() }
}

#[verifier::reject_recursive_types(K)]
pub struct Policy<K> {
    pub lru: Lru<K>,
}

impl<K> Policy<K> {
    pub fn attempt_to_trim_overflowing_pinned(
        &mut self,
        remove: impl Fn(&K) -> bool,
    ) where
        K: std::hash::Hash + Eq + Clone,
        requires forall|k: &K| remove.requires((k,)),
        ensures
            final(self).lru.region_seq(Region::Pinned).len() <= old(self).lru.region_seq(Region::Pinned).len(),
            forall|q: Region| q != Region::Pinned ==> final(self).lru.region_seq(q) == old(self).lru.region_seq(q),
    {
        while self.lru.pinned_len() > 0
            invariant
                forall|k: &K| remove.requires((k,)),
                self.lru.region_seq(Region::Pinned).len() <= old(self).lru.region_seq(Region::Pinned).len(),
                forall|q: Region| q != Region::Pinned ==> self.lru.region_seq(q) == old(self).lru.region_seq(q),
            decreases self.lru.region_seq(Region::Pinned).len()
        {
            let key = self.lru.peek_least_recent(Region::Pinned).unwrap();

            if remove(key) {
                self.lru.pop_least_recent(Region::Pinned);
            } else {
                self.lru.shuffle_tail_to_head(Region::Pinned);
                break;
            }
        }
    }
}

} // verus!
fn main() {}
