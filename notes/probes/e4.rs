use vstd::prelude::*;
verus! {
pub assume_specification<T: Clone> [<[T]>::to_vec] (s: &[T]) -> (r: Vec<T>)
    ensures r@ == s@;
pub assume_specification [u64::from_le_bytes] (b: [u8; 8]) -> (r: u64)
    ensures r == vstd::bytes::spec_u64_from_le_bytes(b@);
#[verifier::external_type_specification]
pub struct ExTryFromSliceError(std::array::TryFromSliceError);
pub assume_specification<'a> [<&'a [u8] as TryInto<[u8; 8]>>::try_into] (s: &'a [u8]) -> (r: Result<[u8; 8], std::array::TryFromSliceError>)
    ensures s@.len() == 8 ==> r is Ok && r->Ok_0@ == s@, s@.len() != 8 ==> r is Err;

    fn prefix_upper_bound(prefix: &[u8]) -> Vec<u8> {
        let mut upper_bound = prefix.to_vec();

        for i in (0..upper_bound.len()).rev() {
            if upper_bound[i] < 0xFF {
                upper_bound[i] += 1;
                upper_bound.truncate(i + 1);
                return upper_bound;
            }
        }

        // If all bytes are 0xFF, return an empty vector which indicates no
        // upper bound
        Vec::new()
    }

    #[allow(clippy::cast_possible_truncation)]
    fn transform_key(key: &[u8]) -> &[u8] {
        // our length prefix is u64 (8 bytes)
        if key.len() < 8 {
            return key;
        }

        let length = u64::from_le_bytes(
            key[0..8].try_into().expect("length prefix should be 8 bytes"),
        ) as usize;

        if key.len() < 8 + length {
            return key;
        }

        &key[0..8 + length]
    }

} // verus!
fn main() {}
