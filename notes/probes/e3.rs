use vstd::prelude::*;
use std::io;
verus! {

#[verifier::external_type_specification]
#[verifier::external_body]
pub struct ExIoError(std::io::Error);

pub struct Plugin { pub x: u8 }
pub struct Session { pub x: u8 }

pub trait Encoder {
    spec fn out(&self) -> Seq<u8>;

    fn emit_u8(&mut self, v: u8) -> (r: io::Result<()>)
        ensures r is Ok ==> final(self).out() == old(self).out().push(v);

    fn emit_bool(&mut self, v: bool) -> (r: io::Result<()>)
        ensures r is Ok ==> final(self).out() == old(self).out().push(if v {1u8} else {0u8})
    {
        self.emit_u8(u8::from(v))
    }
}

pub trait Encode {
    spec fn bytes(&self) -> Seq<u8>;

    fn encode<E: Encoder + ?Sized>(
        &self,
        encoder: &mut E,
        plugin: &Plugin,
        session: &mut Session,
    ) -> (r: io::Result<()>)
        ensures r is Ok ==> final(encoder).out() == old(encoder).out() + self.bytes();
}

impl Encode for u8 {
    open spec fn bytes(&self) -> Seq<u8> { seq![*self] }
    fn encode<E: Encoder + ?Sized>(
        &self,
        encoder: &mut E,
        _plugin: &Plugin,
        _session: &mut Session,
    ) -> io::Result<()> {
        encoder.emit_u8(*self)
    }
}

impl<T: Encode> Encode for Option<T> {
    open spec fn bytes(&self) -> Seq<u8> {
        match self { Some(v) => seq![1u8] + v.bytes(), None => seq![0u8] }
    }
    fn encode<E: Encoder + ?Sized>(
        &self,
        encoder: &mut E,
        plugin: &Plugin,
        session: &mut Session,
    ) -> io::Result<()> {
        match self {
            Some(v) => {
                encoder.emit_bool(true)?;
                v.encode(encoder, plugin, session)
            }
            None => encoder.emit_bool(false),
        }
    }
}

impl<T: Encode> Encode for Vec<T> {
    open spec fn bytes(&self) -> Seq<u8> { seq![] }
    fn encode<E: Encoder + ?Sized>(
        &self,
        encoder: &mut E,
        plugin: &Plugin,
        session: &mut Session,
    ) -> io::Result<()> {
        encoder.emit_u8(0)?;
        for item in self {
            item.encode(encoder, plugin, session)?;
        }
        Ok(())
    }
}

} // verus!
fn main() {}
