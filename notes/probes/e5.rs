use vstd::prelude::*;
verus! {
pub assume_specification<T: Clone> [<[T]>::to_vec] (s: &[T]) -> (r: Vec<T>)
    ensures r@ == s@;

    fn prefix_upper_bound(prefix: &[u8]) -> (r: Vec<u8>)
    {
        let mut upper_bound = prefix.to_vec();

        for i in (0..upper_bound.len()).rev() {
            if upper_bound[i] < 0xFF {
                upper_bound[i] += 1;
                upper_bound.truncate(i + 1);
                return upper_bound;
            }
        }

        Vec::new()
    }
} // verus!
fn main() {}
