use vstd::prelude::*;
use std::io;
verus! {

#[verifier::external_type_specification]
#[verifier::external_body]
pub struct ExIoError(std::io::Error);

#[verifier::external_type_specification]
pub struct ExIoErrorKind(std::io::ErrorKind);

#[verifier::external_body]
fn verif_io_error() -> std::io::Error { unimplemented!() }

pub struct PostcardDecoder {
    pub data: Vec<u8>,
    pub pos: usize,
}

impl PostcardDecoder {
    pub open spec fn rest(&self) -> Seq<u8> { self.data@.subrange(self.pos as int, self.data@.len() as int) }
    pub open spec fn wf(&self) -> bool { self.pos <= self.data@.len() }

    #[verifier::external_body]
    fn read_byte(&mut self) -> (r: io::Result<u8>)
        requires old(self).wf()
        ensures final(self).wf(), final(self).data == old(self).data,
            match r {
                Ok(b) => old(self).rest().len() > 0 && b == old(self).rest()[0] && final(self).pos == old(self).pos + 1,
                Err(_) => old(self).rest().len() == 0 && final(self).pos == old(self).pos,
            }
    { unimplemented!() }

    /// Reads a varint-encoded u64.
    fn read_varint_u64(&mut self) -> (r: io::Result<u64>)
        requires old(self).wf()
        ensures final(self).wf()
    {
        let mut result: u64 = 0;
        let mut shift = 0;

        loop
            invariant self.wf(), shift <= 70
            decreases self.data@.len() - self.pos
        {
            let byte = self.read_byte()?;

            if shift >= 64 {
                return Err(verif_io_error());
            }

            result |= u64::from(byte & 0x7F) << shift;

            if byte & 0x80 == 0 {
                return Ok(result);
            }

            shift += 7;
        }
    }
}

} // verus!
fn main() {}
