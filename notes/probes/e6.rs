#![feature(allocator_api)]
use vstd::prelude::*;
use std::alloc::Allocator;
use std::collections::BinaryHeap;
use std::ops::Not;
use vstd::multiset::Multiset;
verus! {

#[verifier::external_type_specification]
#[verifier::external_body]
#[verifier::accept_recursive_types(T)]
#[verifier::reject_recursive_types(A)]
pub struct ExBinaryHeap<T, A: Allocator>(BinaryHeap<T, A>);

pub trait SerializationBuffer { }
pub trait DbWriteBatch {
    type SerializationBuffer;
    fn consume_serialization_buffer(&mut self, buffer: Self::SerializationBuffer);
    fn commit(self);
    fn should_write_more(&self) -> bool;
}
pub trait KvDatabase: Sized {
    type WriteBatch: DbWriteBatch<SerializationBuffer = Self::SerializationBuffer>;
    type SerializationBuffer;
    fn write_batch(&self) -> Self::WriteBatch;
}

#[derive(Clone, Copy, PartialEq, Eq, PartialOrd, Ord)]
pub struct Epoch(pub u64);

pub struct WriteBatch<Db: KvDatabase> {
    pub epoch: Epoch,
    pub active: bool,
    pub _p: core::marker::PhantomData<Db>,
}

pub struct WriteTask<Db: KvDatabase> {
    pub write_buffer: WriteBatch<Db>,
    pub serialize_buffer: Db::SerializationBuffer,
}


impl<Db: KvDatabase> PartialEq for WriteTask<Db> {
    fn eq(&self, other: &Self) -> bool {
        self.write_buffer.epoch == other.write_buffer.epoch
    }
}

impl<Db: KvDatabase> Eq for WriteTask<Db> {}

impl<Db: KvDatabase> PartialOrd for WriteTask<Db> {
    fn partial_cmp(&self, other: &Self) -> Option<std::cmp::Ordering> {
        Some(self.cmp(other))
    }
}

impl<Db: KvDatabase> Ord for WriteTask<Db> {
    fn cmp(&self, other: &Self) -> std::cmp::Ordering {
        // Reverse order for min-heap behavior
        other.write_buffer.epoch.cmp(&self.write_buffer.epoch)
    }
}

pub uninterp spec fn heap_view<T, A: Allocator>(h: &BinaryHeap<T, A>) -> Seq<T>;
pub uninterp spec fn is_top<T>(s: Seq<T>, t: T) -> bool;

pub assume_specification<T, A: Allocator>[ BinaryHeap::<T, A>::peek ](h: &BinaryHeap<T, A>) -> (r: Option<&T>)
    ensures
        heap_view(h).len() == 0 <==> r is None,
        r matches Some(t) ==> heap_view(h).contains(*t) && is_top(heap_view(h), *t);

pub assume_specification<T: Ord, A: Allocator>[ BinaryHeap::<T, A>::pop ](h: &mut BinaryHeap<T, A>) -> (r: Option<T>)
    ensures
        heap_view(old(h)).len() == 0 <==> r is None,
        r matches Some(t) ==> is_top(heap_view(old(h)), t) && exists|i: int| 0 <= i < heap_view(old(h)).len() && heap_view(old(h))[i] == t && heap_view(final(h)) == heap_view(old(h)).remove(i);

struct CurrentBatch<Db: KvDatabase> {
    processed_logical_batch: Vec<WriteBatch<Db>>,
    db_write_batch: Db::WriteBatch,
    expected_epoch: Epoch,
}

fn process_pending_commits<Db: KvDatabase>(
    pending_commits: &mut BinaryHeap<WriteTask<Db>>,
    current_batch: &mut CurrentBatch<Db>,
    db: &Db,
)
{
    while let Some(top) = pending_commits.peek()
        invariant true
        decreases heap_view(pending_commits).len()
    {
        if top.write_buffer.epoch == current_batch.expected_epoch {
            let task = pending_commits.pop().unwrap();

            current_batch
                .db_write_batch
                .consume_serialization_buffer(task.serialize_buffer);

            // push into current batch
            current_batch.processed_logical_batch.push(task.write_buffer);

            current_batch.expected_epoch.0 += 1;

            // commit if the physical batch is "big enough"
            if current_batch.db_write_batch.should_write_more().not() {
            }
        } else {
            break;
        }
    }
}

} // verus!
fn main() {}
