#![feature(allocator_api)]
use vstd::prelude::*;
use std::collections::{BinaryHeap, HashSet};
use std::alloc::Allocator;
use std::ops::Not;
verus! {

#[verifier::external_type_specification]
#[verifier::external_body]
#[verifier::accept_recursive_types(T)]
#[verifier::reject_recursive_types(A)]
pub struct ExBinaryHeap<T, A: Allocator>(BinaryHeap<T, A>);

#[derive(Clone, Copy, PartialEq, Eq)]
pub struct Epoch(pub u64);

pub enum Operation<V> { Insert(V), Remove(V) }
pub struct VersionedOperation<V> { pub op: Operation<V>, pub epoch: Epoch }

// prelude stand-in for parking_lot::RwLock: only `write` is used
#[verifier::external_body]
#[verifier::accept_recursive_types(T)]
pub struct RwLock<T> { inner: std::marker::PhantomData<T> }
impl<T> RwLock<T> {
    #[verifier::external_body]
    pub fn write(&self) -> (r: &mut T) { unimplemented!() }
}

pub struct ConcurrentLog<V> {
    pub log: RwLock<BinaryHeap<VersionedOperation<V>>>,
}

pub struct StagingShapshot<T> {
    pub added: HashSet<T>,
    pub removed: HashSet<T>,
}

impl<V: Eq + std::hash::Hash + Clone> ConcurrentLog<V> {
    fn get_snapshot(&self) -> StagingShapshot<V> {
        let mut log = self.log.write();

        let mut added = HashSet::new();
        let mut removed = HashSet::new();

        for op in log.iter() {
            match &op.op {
                Operation::Insert(v) => {
                    if removed.remove(v).not() {
                        added.insert(v.clone());
                    }
                }
                Operation::Remove(v) => {
                    if added.remove(v).not() {
                        removed.insert(v.clone());
                    }
                }
            }
        }

        StagingShapshot { added, removed }
    }
}

} // verus!
fn main() {}
