//! C16 witness search on the REAL public `TinyLFU` (single-threaded, Piggyback maintenance so that runs are deterministic):
//! seeded random histories of insert / update / remove / pin / unpin / get / flush over key sets much larger than the capacity,
//! capacities 1..8, both unpin strategies, against a reference model:
//!   * an entry whose owner reports it pinned is never evicted (still readable, latest value),
//!   * an entry that is readable has its latest value,
//!   * resident entries (counted by live values) <= capacity + pinned + slack,
//!   * no panic.
//! plus directed histories (a pinned entry re-admitted when the probation region is empty; re-pin before the
//! stale unpin notification is processed; long-lived pin parked ahead of released ones).
use std::{
    collections::BTreeMap,
    sync::{Arc, atomic::{AtomicBool, AtomicUsize, Ordering}},
};

use qbice_storage::tiny_lfu::{Entry, LifecycleListener, MaintenanceMode, TinyLFU, UnpinStrategy};
use verif_replay::*;

struct Val { v: u64, pinned: Arc<AtomicBool>, live: Arc<AtomicUsize> }
/// values >= SLOW_DROP take a few milliseconds to drop (an owner releasing a resource): this stretches the tail of a
/// maintenance pass so that other work arrives while it is still running
const SLOW_DROP: u64 = 1 << 40;
impl Drop for Val { fn drop(&mut self) { if self.v >= SLOW_DROP { std::thread::sleep(std::time::Duration::from_millis(3)); } self.live.fetch_sub(1, Ordering::SeqCst); } }

#[derive(Default)]
struct FlagListener;
impl LifecycleListener<u64, Val> for FlagListener {
    fn is_pinned(&self, _key: &u64, value: &Val) -> bool { value.pinned.load(Ordering::SeqCst) }
}
type Cache = TinyLFU<u64, Val, FlagListener>;

const SLACK: usize = 2 * 33 + 8; // write buffer + read buffer batch thresholds + window/probation rounding
const ABSENT: u64 = u64::MAX;

struct H {
    cache: Cache,
    live: Arc<AtomicUsize>,
    /// model: key -> (latest value, pin flag) for every entry that was written and not removed by the owner
    model: BTreeMap<u64, (u64, Arc<AtomicBool>)>,
    cap: usize,
    log: Vec<String>,
    desc: String,
    strategy: UnpinStrategy,
}

impl H {
    fn new(cap: usize, s: UnpinStrategy) -> Self { Self::new_mode(cap, s, MaintenanceMode::Piggyback) }
    fn new_mode(cap: usize, s: UnpinStrategy, mode: MaintenanceMode) -> Self {
        let desc = format!("capacity={cap} strategy={s:?} maintenance={}", if matches!(mode, MaintenanceMode::Piggyback) { "Piggyback" } else { "DedicatedThread" });
        H { cache: TinyLFU::new(cap, s, mode), live: Arc::new(AtomicUsize::new(0)), model: BTreeMap::new(), cap, log: vec![], desc, strategy: s }
    }
    fn put(&mut self, k: u64, v: u64, pinned: bool) {
        self.log.push(format!("put({k},{v},pinned={pinned})"));
        let live = self.live.clone();
        let flag = match self.model.get(&k) { Some((_, f)) => { f.store(pinned || f.load(Ordering::SeqCst), Ordering::SeqCst); f.clone() } None => Arc::new(AtomicBool::new(pinned)) };
        let f2 = flag.clone();
        self.cache.entry(k, |e| match e {
            Entry::Vacant(ve) => { live.fetch_add(1, Ordering::SeqCst); ve.insert(Val { v, pinned: f2, live: live.clone() }); }
            Entry::Occupied(mut oe) => { oe.get_mut().v = v; let p = oe.get().pinned.load(Ordering::SeqCst); oe.get_mut().pinned.store(p || pinned, Ordering::SeqCst); }
        });
        // if the cache had evicted the entry, the new value carries the model's flag object (f2) so pin state stays in sync
        self.model.insert(k, (v, flag));
    }
    fn remove(&mut self, k: u64) {
        self.log.push(format!("remove({k})"));
        self.cache.entry(k, |e| if let Entry::Occupied(oe) = e { drop(oe.remove()); });
        self.model.remove(&k);
    }
    fn unpin(&mut self, k: u64) {
        self.log.push(format!("unpin({k})"));
        if let Some((_, f)) = self.model.get(&k) { f.store(false, Ordering::SeqCst); }
        // Notify: the owner tells the cache; Poll: the owner only stops reporting the entry as pinned and the cache finds out
        // by itself during maintenance (every second release still notifies, which Poll mode must tolerate as well)
        if self.strategy == UnpinStrategy::Notify || k % 2 == 0 { self.cache.unpin(k); }
    }
    fn repin(&mut self, k: u64) {
        self.log.push(format!("repin({k})"));
        // only an entry that is still resident can be pinned again by its owner
        let mut ok = false;
        self.cache.entry(k, |e| if let Entry::Occupied(oe) = e { oe.get().pinned.store(true, Ordering::SeqCst); ok = true; });
        let _ = ok;
    }
    fn flush(&mut self) {
        self.log.push("flush".into());
        for _ in 0..40 { self.cache.unpin(ABSENT); }
    }
    fn get(&mut self, k: u64) -> Option<u64> {
        self.cache.get_map(&k, |v| v.v)
    }
    fn hist(&self) -> String { format!("{}: {}", self.desc, self.log[self.log.len().saturating_sub(60)..].join("; ")) }
    fn check(&mut self, universe: u64) {
        let mut pinned = 0usize;
        for k in 0..universe {
            let got = self.get(k);
            match self.model.get(&k) {
                Some((v, f)) => {
                    let p = f.load(Ordering::SeqCst);
                    if p { pinned += 1; }
                    match got {
                        Some(g) if g != *v => report_found("readable entry does not hold its latest value", &self.hist(), &format!("get({k}) = {g}"), &format!("{v}")),
                        None if p => report_found("an entry its owner reports as pinned was evicted", &self.hist(), &format!("get({k}) = None"), &format!("Some({v})")),
                        _ => {}
                    }
                }
                None => if let Some(g) = got { report_found("entry readable after the owner removed it", &self.hist(), &format!("get({k}) = {g}"), "None") },
            }
        }
        let resident = self.live.load(Ordering::SeqCst);
        if resident > self.cap + pinned + SLACK {
            report_found("resident entries exceed capacity + pinned + slack", &self.hist(), &format!("{resident} resident, {pinned} pinned, capacity {}", self.cap), &format!("<= {}", self.cap + pinned + SLACK));
        }
    }
}

fn random_history(rng: &mut Rng, cap: usize, s: UnpinStrategy, steps: usize) -> u64 {
    let mut h = H::new(cap, s);
    let universe = (cap as u64) * 6 + 8;
    for step in 0..steps {
        let k = rng.next() % universe;
        match rng.next() % 16 {
            0..=5 => h.put(k, step as u64, rng.next() % 4 == 0),
            6 => h.remove(k),
            7 | 8 => h.unpin(k),
            9 => h.repin(k),
            10 => h.flush(),
            _ => { let _ = h.get(k); }
        }
        if step % 97 == 96 { h.flush(); h.check(universe); }
    }
    // release everything and let maintenance settle: the bound must hold with nothing pinned
    let keys: Vec<u64> = h.model.keys().cloned().collect();
    for k in keys { h.unpin(k); }
    h.flush(); h.flush();
    h.check(universe);
    steps as u64
}

/// directed: probation is empty when a parked (pinned-region) key is released
fn directed_empty_probation(s: UnpinStrategy) -> u64 {
    let mut h = H::new(1, s);
    h.desc.push_str(" directed: unpin of a parked key while the probation region is empty");
    h.put(1, 10, false);
    h.put(2, 20, true);
    h.put(3, 30, false);
    h.flush();
    h.remove(1); h.remove(3);
    h.flush();
    h.unpin(2);
    h.flush();
    h.check(8);
    1
}

/// directed: many keys go through park -> unpin queued -> re-pin -> stale unpin processed -> real unpin
fn directed_repin(s: UnpinStrategy) -> u64 {
    let cap = 8;
    let mut h = H::new(cap, s);
    h.desc.push_str(" directed: re-pin before the stale unpin notification is processed");
    let mut next = 100u64;
    for round in 0..200u64 {
        let k = next; next += 1;
        h.put(k, round, true);
        // pressure so that k is parked
        for _ in 0..(cap as u64 * 2) { let f = next; next += 1; h.put(f, 0, false); let _ = h.get(f); }
        h.flush();
        h.unpin(k);      // queued (flag cleared)
        h.repin(k);      // owner pins again before maintenance
        h.flush();       // stale notification processed
        h.unpin(k);      // really released
        h.flush();
        if h.live.load(Ordering::SeqCst) > cap + SLACK + 1 {
            report_found("resident entries exceed capacity + pinned + slack", &h.hist(), &format!("{} resident, nothing pinned, capacity {cap}", h.live.load(Ordering::SeqCst)), &format!("<= {}", cap + SLACK + 1));
        }
    }
    200
}

/// directed: one long-lived pin parked first, then many parked entries that are released (Poll trims from the tail)
fn directed_long_pin(s: UnpinStrategy) -> u64 {
    let cap = 8;
    let mut h = H::new(cap, s);
    h.desc.push_str(" directed: a long-lived pin parked ahead of entries that are released later");
    let mut next = 1000u64;
    h.put(1, 1, true);
    for _ in 0..(cap as u64 * 3) { let f = next; next += 1; h.put(f, 0, false); let _ = h.get(f); }
    h.flush();
    let mut parked = vec![];
    for round in 0..200u64 {
        let k = next; next += 1;
        h.put(k, round, true);
        for _ in 0..(cap as u64 * 2) { let f = next; next += 1; h.put(f, 0, false); let _ = h.get(f); }
        h.flush();
        parked.push(k);
    }
    for k in parked { h.unpin(k); }
    h.flush(); h.flush(); h.flush();
    let resident = h.live.load(Ordering::SeqCst);
    if resident > cap + 1 + SLACK {
        report_found("resident entries exceed capacity + pinned + slack", &h.hist(), &format!("{resident} resident, 1 pinned, capacity {cap}"), &format!("<= {}", cap + 1 + SLACK));
    }
    200
}

/// the same history with maintenance on the cache's own thread: the pass runs asynchronously, so the bound is awaited (up to
/// 3 s of repeated nudges) instead of being demanded at once -- a correct cache converges within a few passes
fn directed_long_pin_dedicated(s: UnpinStrategy) -> u64 {
    let cap = 8;
    let mut h = H::new_mode(cap, s, MaintenanceMode::DedicatedThread);
    h.desc.push_str(" directed: pins parked under pressure and released later, maintenance on the dedicated thread");
    let mut next = 1000u64;
    h.put(1, 1, true);
    let nap = || std::thread::sleep(std::time::Duration::from_millis(2));
    for _ in 0..(cap as u64 * 3) { let f = next; next += 1; h.put(f, 0, false); let _ = h.get(f); }
    h.flush(); nap();
    let mut parked = vec![];
    for round in 0..300u64 {
        let k = next | 1; next = k + 1;     // odd keys: in Poll mode their release is never notified (see H::unpin)
        h.put(k, round, true);
        for _ in 0..(cap as u64 * 2) { let f = next; next += 1; h.put(f, 0, false); let _ = h.get(f); }
        h.flush(); nap();
        parked.push(k);
    }
    // while the pins are held none of the parked entries may disappear
    for k in &parked { if h.get(*k).is_none() { report_found("an entry its owner reports as pinned was evicted", &h.hist(), &format!("get({k}) = None"), "Some(..)"); } }
    for k in parked { h.unpin(k); }
    let bound = cap + 1 + SLACK;
    let mut resident = h.live.load(Ordering::SeqCst);
    for _ in 0..300 {
        if resident <= bound { break; }
        h.flush();
        std::thread::sleep(std::time::Duration::from_millis(10));
        resident = h.live.load(Ordering::SeqCst);
    }
    if resident > bound {
        report_found("resident entries exceed capacity + pinned + slack", &h.hist(), &format!("{resident} resident after 3 s of maintenance nudges, 1 pinned, capacity {cap}"), &format!("<= {bound}"));
    }
    if h.get(1) != Some(1) { report_found("an entry its owner reports as pinned was evicted", &h.hist(), "get(1) = None", "Some(1)"); }
    300
}

/// dedicated maintenance thread, work arriving DURING the tail of a pass: parked entries whose values are slow to drop are
/// released, a pass starts trimming them (about 100 ms), and meanwhile the client writes several batches' worth of new
/// entries; afterwards the client keeps writing. The cache must keep maintaining itself (bound awaited up to 3 s).
fn directed_dedicated_busy_tail() -> u64 {
    let cap = 8;
    let mut h = H::new_mode(cap, UnpinStrategy::Poll, MaintenanceMode::DedicatedThread);
    h.desc.push_str(" directed: several batches of writes arrive while the dedicated thread is still in the tail of a pass");
    let mut next = 1001u64;
    let nap = |ms: u64| std::thread::sleep(std::time::Duration::from_millis(ms));
    let mut parked = vec![];
    for round in 0..40u64 {
        let k = next | 1; next = k + 1;
        h.put(k, SLOW_DROP + round, true);
        for _ in 0..(cap as u64 * 2) { let f = next; next += 1; h.put(f, 0, false); let _ = h.get(f); }
        h.flush(); nap(2);
        parked.push(k);
    }
    nap(30);
    for k in &parked { if let Some((_, f)) = h.model.get(k) { f.store(false, Ordering::SeqCst); } }   // silent release (Poll)
    h.log.push("release all parked entries silently".into());
    h.flush();                       // starts a pass: drains the buffer, then trims ~40 slow-to-drop entries
    nap(25);                         // the pass is now in its tail
    for _ in 0..150u64 { let f = next; next += 2; h.put(f & !1, 0, false); }   // several batches pile up meanwhile
    h.log.push("150 writes while the pass was still running".into());
    nap(250);                        // the pass has ended
    for _ in 0..1500u64 { let f = next; next += 2; h.put(f & !1, 0, false); }
    h.log.push("1500 more writes".into());
    let bound = cap + SLACK;
    let mut resident = h.live.load(Ordering::SeqCst);
    for _ in 0..300 {
        if resident <= bound { break; }
        h.flush();
        nap(10);
        resident = h.live.load(Ordering::SeqCst);
    }
    if resident > bound {
        report_found("resident entries exceed capacity + pinned + slack", &h.hist(), &format!("{resident} resident after 3 s of maintenance nudges, nothing pinned, capacity {cap}"), &format!("<= {bound}"));
    }
    1650
}

/// the bound with nothing pinned, after ordinary traffic has had a chance to push leaked entries out
fn settle_and_check_bound(h: &mut H, next: &mut u64, what: &str) {
    let keys: Vec<u64> = h.model.keys().cloned().collect();
    for k in keys { if h.model.get(&k).map(|(_, f)| f.load(Ordering::SeqCst)).unwrap_or(false) { h.unpin(k); } }
    h.flush(); h.flush();
    for _ in 0..(h.cap as u64 * 3) { let f = *next; *next += 1; h.put(f, 0, false); }
    h.flush(); h.flush();
    let resident = h.live.load(Ordering::SeqCst);
    if resident > h.cap + SLACK {
        report_found("resident entries exceed capacity + pinned + slack", &format!("{} [{what}]", h.hist()), &format!("{resident} resident, nothing pinned, capacity {}", h.cap), &format!("<= {}", h.cap + SLACK));
    }
}

/// directed: the main area is full of pinned entries; newcomers that were asked for several times before they are
/// inserted (higher frequency) win the admission duel against pinned probation victims, which are parked; then the owner
/// unpins everything and ordinary traffic follows. The parked phase must not inflate any region permanently.
fn directed_popular_newcomers(s: UnpinStrategy, cap: usize) -> u64 {
    let mut h = H::new(cap, s);
    h.desc.push_str(" directed: popular newcomers beat pinned probation victims, then everything is unpinned");
    let n_old = cap as u64;
    let n_new = cap as u64 * 3 / 2;
    for k in 0..n_old { h.put(k, k, true); }
    h.flush();
    let new_keys: Vec<u64> = (n_old..n_old + n_new).collect();
    for chunk in new_keys.chunks(16) {
        for _ in 0..3 { for k in chunk { let _ = h.get(*k); } h.flush(); }
    }
    for &k in &new_keys { h.put(k, k, false); }
    h.flush();
    for k in 0..n_old {
        if h.get(k) != Some(k) { report_found("an entry its owner reports as pinned was evicted", &h.hist(), &format!("get({k}) = None"), &format!("Some({k})")); }
    }
    let mut next = 1_000_000u64;
    settle_and_check_bound(&mut h, &mut next, "after the pinned victims were released");
    n_old + n_new
}

/// directed: pinned entries arrive while the cache is full (they lose the duel and are parked); the owner then REPLACES
/// each of them (remove + insert of the same key with an unpinned value) within one maintenance batch.
fn directed_replace_parked(s: UnpinStrategy, cap: usize) -> u64 {
    let mut h = H::new(cap, s);
    h.desc.push_str(" directed: parked entries are removed and re-inserted unpinned within one maintenance batch");
    let n_cold = cap as u64 * 5 / 4;
    let n_hot = cap as u64 * 3 / 4;
    for k in 0..n_cold { h.put(k, k, false); }
    h.flush();
    for k in n_cold..n_cold + n_hot { h.put(k, k, true); }
    h.flush();
    for k in n_cold..n_cold + n_hot {
        if h.get(k) != Some(k) { report_found("an entry its owner reports as pinned was evicted", &h.hist(), &format!("get({k}) = None"), &format!("Some({k})")); }
    }
    h.flush();
    for k in n_cold..n_cold + n_hot { h.remove(k); h.put(k, k + 1, false); }
    h.flush();
    let mut next = 1_000_000u64;
    settle_and_check_bound(&mut h, &mut next, "after the parked entries were replaced");
    n_cold + n_hot
}

/// random histories at capacities where the bound is not vacuous: phases of pinned inserts under pressure, warmed-up
/// newcomers, replace (remove + re-insert), unpin, re-pin; the bound is checked after every phase with everything released
fn random_large(rng: &mut Rng, cap: usize, s: UnpinStrategy, phases: usize) -> u64 {
    let mut h = H::new(cap, s);
    h.desc.push_str(" random phases at a capacity above the slack");
    let mut next = 0u64;
    let mut steps = 0u64;
    for ph in 0..phases {
        let mut mine: Vec<u64> = vec![];
        let n = cap as u64 / 2 + rng.next() % (cap as u64 * 2);
        let pin_ratio = rng.next() % 4; // 0: none pinned .. 3: mostly pinned
        let warm = rng.next() % 3 == 0;
        let batch: Vec<u64> = (0..n).map(|_| { let k = next; next += 1; k }).collect();
        if warm {
            for chunk in batch.chunks(16) { for _ in 0..3 { for k in chunk { let _ = h.get(*k); } h.flush(); } }
        }
        for &k in &batch {
            let pinned = pin_ratio > 0 && rng.next() % 4 < pin_ratio;
            h.put(k, ph as u64, pinned);
            if pinned { mine.push(k); }
            steps += 1;
            if rng.next() % 40 == 0 { h.flush(); }
        }
        h.flush();
        for &k in &mine {
            match rng.next() % 6 {
                0 => { h.remove(k); h.put(k, 7, false); }
                1 => { h.unpin(k); h.repin(k); }
                2 => { h.unpin(k); }
                3 => { h.remove(k); }
                _ => {}
            }
            steps += 1;
            if rng.next() % 50 == 0 { h.flush(); }
        }
        h.flush();
        h.check(next);
        let mut fresh = 10_000_000 + next * 8;
        settle_and_check_bound(&mut h, &mut fresh, &format!("phase {ph}"));
        // forget the tail traffic in the model's universe: those keys are plain unpinned entries
    }
    steps
}

fn main() {
    let seed = seed_from_args();
    let mut rng = Rng(seed.wrapping_mul(0x9E3779B97F4A7C15) ^ 0xC16);
    let mut n = 0u64;
    let run = |name: &str, f: &mut dyn FnMut() -> u64| -> u64 {
        eprintln!("LAST-HISTORY {name}");
        match std::panic::catch_unwind(std::panic::AssertUnwindSafe(|| f())) {
            Ok(k) => k,
            Err(e) => {
                let msg = e.downcast_ref::<String>().cloned().or_else(|| e.downcast_ref::<&str>().map(|s| s.to_string())).unwrap_or_default();
                report_found("panic inside the cache", name, &format!("panic: {msg}"), "no panic")
            }
        }
    };
    n += run("directed_dedicated_busy_tail", &mut || directed_dedicated_busy_tail());
    for s in [UnpinStrategy::Notify, UnpinStrategy::Poll] {
        n += run(&format!("directed_empty_probation {s:?}"), &mut || directed_empty_probation(s));
        n += run(&format!("directed_repin {s:?}"), &mut || directed_repin(s));
        n += run(&format!("directed_long_pin {s:?}"), &mut || directed_long_pin(s));
        n += run(&format!("directed_long_pin_dedicated {s:?}"), &mut || directed_long_pin_dedicated(s));
        for cap in [100usize, 200] {
            n += run(&format!("directed_popular_newcomers capacity={cap} {s:?}"), &mut || directed_popular_newcomers(s, cap));
            n += run(&format!("directed_replace_parked capacity={cap} {s:?}"), &mut || directed_replace_parked(s, cap));
        }
        for cap in [96usize, 160] {
            for _ in 0..3 {
                let sd = rng.next();
                let mut r2 = Rng(sd);
                n += run(&format!("random_large capacity={cap} {s:?} seed={sd}"), &mut || random_large(&mut r2, cap, s, 6));
            }
        }
        for cap in [1usize, 2, 3, 5, 8] {
            for _ in 0..6 {
                let sd = rng.next();
                let mut r2 = Rng(sd);
                n += run(&format!("random capacity={cap} {s:?} seed={sd}"), &mut || random_history(&mut r2, cap, s, 1500));
            }
        }
    }
    report_none(n);
}
