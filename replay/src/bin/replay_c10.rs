//! C10 witness search: the REAL `WriteBehind` (through `DbBacked`) on the recording mock store.
//! Seeded random histories: batches created in order, filled with writes over overlapping keys (some
//! batches empty), submitted from several threads in an order that differs from creation order, with
//! 1..4 serializer workers, random serialization delays and random physical grouping. After the write
//! manager is dropped the store must equal applying the batches one after another in creation order,
//! each exactly once.
use std::collections::{BTreeMap, BTreeSet};
use std::sync::{Arc, atomic::Ordering};

use dashmap::DashSet;

use qbice_stable_type_id::Identifiable;
use qbice_storage::{
    key_of_set_map::KeyOfSetMap as _,
    kv_database::{DiscriminantEncoding, KeyOfSetColumn, WideColumn, WideColumnValue},
    single_map::SingleMap as _,
    storage_engine::{StorageEngine as _, db_backed::{Configuration, DbBacked}},
};
use verif_replay::{mockdb::*, *};

#[derive(Debug, Clone, Copy, PartialEq, Eq, PartialOrd, Ord, Hash, Identifiable)]
#[stable_type_id_crate(qbice_stable_type_id)]
struct Col;
impl WideColumn for Col {
    type Key = u64;
    type Discriminant = ();
    fn discriminant_encoding() -> DiscriminantEncoding { DiscriminantEncoding::Prefixed }
}
impl WideColumnValue<Col> for u64 { fn discriminant() {} }

#[derive(Debug, Clone, Copy, PartialEq, Eq, PartialOrd, Ord, Hash, Identifiable)]
#[stable_type_id_crate(qbice_stable_type_id)]
struct SetCol;
impl KeyOfSetColumn for SetCol { type Key = u64; type Element = u64; }
type Set = Arc<DashSet<u64>>;

fn one_history(rt: &tokio::runtime::Runtime, rng: &mut Rng, idx: u64) -> u64 {
    let db = MockDb::default();
    let workers = 1 + (rng.next() % 4) as usize;
    db.0.group_ops.store([0usize, 0, 2, 3, 5, 50][(rng.next() % 6) as usize], Ordering::Relaxed);
    db.0.delay_mod.store([0u64, 0, 50, 300][(rng.next() % 4) as usize], Ordering::Relaxed);
    db.0.delay_seed.store(rng.next(), Ordering::Relaxed);
    let engine = DbBacked::new(db.clone(), Configuration::builder().serialization_workers(workers).build());
    let manager = engine.new_write_manager();
    let map = engine.new_single_map::<Col, u64>();
    let sets = engine.new_key_of_set_map::<SetCol, Set>();
    let nb = 1 + (rng.next() % 9) as usize;
    let nkeys = 1 + rng.next() % 3;
    let nelems = 1 + rng.next() % 3;
    let mut model: BTreeMap<u64, u64> = BTreeMap::new();
    let mut set_model: BTreeMap<u64, BTreeSet<u64>> = BTreeMap::new();
    let mut desc = format!("workers={workers} group_ops={} delay_mod={} batches=[", db.0.group_ops.load(Ordering::Relaxed), db.0.delay_mod.load(Ordering::Relaxed));
    let mut batches = Vec::new();
    for b in 0..nb {
        let mut wb = manager.new_write_batch();
        let nops = (rng.next() % 6) as usize; // 0 = empty batch
        desc.push_str(&format!("b{b}:{{"));
        for _ in 0..nops {
            let k = rng.next() % nkeys;
            let kind = rng.next() % 10;
            if kind >= 5 {
                // key-of-set traffic: the same (key, element) is often inserted and removed within one batch
                let e = rng.next() % nelems;
                if kind >= 7 {
                    rt.block_on(sets.insert(k, e, &mut wb));
                    set_model.entry(k).or_default().insert(e);
                    desc.push_str(&format!("sadd {k}:{e};"));
                } else {
                    rt.block_on(sets.remove(&k, &e, &mut wb));
                    if let Some(s) = set_model.get_mut(&k) { s.remove(&e); }
                    desc.push_str(&format!("srem {k}:{e};"));
                }
            } else if kind == 0 {
                rt.block_on(map.remove(&k, &mut wb));
                model.remove(&k);
                desc.push_str(&format!("del {k};"));
            } else {
                let v = idx * 1000 + b as u64 * 10 + rng.next() % 10;
                rt.block_on(map.insert(k, v, &mut wb));
                model.insert(k, v);
                desc.push_str(&format!("put {k}={v};"));
            }
        }
        desc.push_str("} ");
        batches.push(wb);
    }
    // submission order: a random permutation, split over up to 3 submitting threads
    let mut order: Vec<usize> = (0..nb).collect();
    for i in (1..nb).rev() { let j = (rng.next() % (i as u64 + 1)) as usize; order.swap(i, j); }
    desc.push_str(&format!("] submit_order={order:?}"));
    let nthreads = 1 + (rng.next() % 3) as usize;
    let mut slots: Vec<Option<_>> = batches.into_iter().map(Some).collect();
    let mut per_thread: Vec<Vec<_>> = (0..nthreads).map(|_| Vec::new()).collect();
    for (pos, bi) in order.iter().enumerate() { per_thread[pos % nthreads].push(slots[*bi].take().unwrap()); }
    std::thread::scope(|s| {
        for list in per_thread {
            let m = &manager;
            s.spawn(move || { for wb in list { m.submit_write_batch(wb); } });
        }
    });
    eprintln!("LAST-HISTORY #{idx}: {desc}");
    drop(map);
    drop(sets);
    drop(manager); // must return only after everything is in the store
    // compare
    {
        let stored = db.0.sets.lock().unwrap();
        let mut got_sets: BTreeMap<u64, BTreeSet<u64>> = BTreeMap::new();
        for k in 0..nkeys {
            if let Some(ms) = stored.get(&set_key::<SetCol>(&k)) {
                let s: BTreeSet<u64> = ms.iter().map(|b| qbice_serialize::postcard::decode::<u64>(b, &qbice_serialize::Plugin::default()).unwrap()).collect();
                if !s.is_empty() { got_sets.insert(k, s); }
            }
        }
        let want: BTreeMap<u64, BTreeSet<u64>> = set_model.iter().filter(|(_, s)| !s.is_empty()).map(|(k, s)| (*k, s.clone())).collect();
        if got_sets != want {
            report_found("write-behind final set content != sequential application in creation order", &desc, &format!("{got_sets:?}"), &format!("{want:?}"));
        }
    }
    let wide = db.0.wide.lock().unwrap();
    let mut got: BTreeMap<u64, u64> = BTreeMap::new();
    for k in 0..nkeys {
        if let Some(b) = wide.get(&wide_key::<Col, u64>(&k)) {
            got.insert(k, qbice_serialize::postcard::decode::<u64>(b, &qbice_serialize::Plugin::default()).unwrap());
        }
    }
    if got != model {
        report_found("write-behind final content != sequential application in creation order", &desc, &format!("{got:?}"), &format!("{model:?}"));
    }
    // exactly once: number of batch boundaries == number of batches
    let commits = db.0.commits.lock().unwrap();
    let boundaries: usize = commits.iter().flatten().filter(|op| matches!(op, Op::Del(k) if k.as_slice() == b"\0batch-boundary")).count();
    if boundaries != nb {
        report_found("number of logical batches that reached the store != number submitted", &desc, &format!("{boundaries}"), &format!("{nb}"));
    }
    1
}

/// directed: the FIRST batch is serialized last (it stalls inside the store until all later batches have been
/// serialized), k successors are already held back when it arrives, the store closes a physical batch after
/// every logical batch, and nothing else is ever submitted.
fn late_first(rt: &tokio::runtime::Runtime, successors: usize, group_ops: usize, workers: usize) -> u64 {
    let db = MockDb::default();
    db.0.group_ops.store(group_ops, Ordering::Relaxed);
    let stall: u64 = 999_999;
    *db.0.stall_value.lock().unwrap() = Some(qbice_serialize::postcard::encode(&stall, &qbice_serialize::Plugin::default()).unwrap());
    db.0.stall_until.store(successors, Ordering::SeqCst);
    let engine = DbBacked::new(db.clone(), Configuration::builder().serialization_workers(workers).build());
    let manager = engine.new_write_manager();
    let map = engine.new_single_map::<Col, u64>();
    let mut batches = Vec::new();
    let mut model: BTreeMap<u64, u64> = BTreeMap::new();
    for b in 0..=successors {
        let mut wb = manager.new_write_batch();
        let v = if b == 0 { stall } else { 1000 + b as u64 };
        rt.block_on(map.insert(7, v, &mut wb));
        model.insert(7, v);
        batches.push(wb);
    }
    let desc = format!("directed: {} batches all writing key 7; batch 0 is serialized last ({successors} successors held back), group_ops={group_ops}, workers={workers}, no further traffic", successors + 1);
    eprintln!("LAST-HISTORY directed: {desc}");
    for wb in batches { manager.submit_write_batch(wb); }
    drop(map);
    drop(manager);
    let wide = db.0.wide.lock().unwrap();
    let got = wide.get(&wide_key::<Col, u64>(&7)).map(|b| qbice_serialize::postcard::decode::<u64>(b, &qbice_serialize::Plugin::default()).unwrap());
    if got != model.get(&7).cloned() {
        report_found("write-behind final content != sequential application in creation order", &desc, &format!("{got:?}"), &format!("{:?}", model.get(&7)));
    }
    let commits = db.0.commits.lock().unwrap();
    let boundaries: usize = commits.iter().flatten().filter(|op| matches!(op, Op::Del(k) if k.as_slice() == b"\0batch-boundary")).count();
    if boundaries != successors + 1 {
        report_found("number of logical batches that reached the store != number submitted", &desc, &format!("{boundaries}"), &format!("{}", successors + 1));
    }
    1
}

/// directed: the manager is dropped DURING PANIC UNWINDING of the thread that owns it, with batches still inside the
/// serializers / held back; when the unwinding is over everything that was submitted must be in the store
fn dropped_while_unwinding(rt: &tokio::runtime::Runtime, nbatches: usize, delay_mod: u64, group_ops: usize) -> u64 {
    let db = MockDb::default();
    db.0.group_ops.store(group_ops, Ordering::Relaxed);
    db.0.delay_mod.store(delay_mod, Ordering::Relaxed);
    db.0.delay_seed.store(0xABCDEF, Ordering::Relaxed);
    let engine = DbBacked::new(db.clone(), Configuration::builder().serialization_workers(2).build());
    let manager = engine.new_write_manager();
    let map = engine.new_single_map::<Col, u64>();
    let sets = engine.new_key_of_set_map::<SetCol, Set>();
    let mut batches = Vec::new();
    let mut model: BTreeMap<u64, u64> = BTreeMap::new();
    let mut set_model: std::collections::BTreeSet<u64> = Default::default();
    for b in 0..nbatches {
        let mut wb = manager.new_write_batch();
        rt.block_on(map.insert(b as u64 % 3, 5000 + b as u64, &mut wb));
        model.insert(b as u64 % 3, 5000 + b as u64);
        // every third batch carries ONLY key-of-set operations, every third both kinds
        if b % 3 != 0 { rt.block_on(sets.insert(77, b as u64, &mut wb)); set_model.insert(b as u64); }
        batches.push(wb);
    }
    for b in 0..nbatches {
        if b % 3 == 1 {
            let mut wb = manager.new_write_batch();
            rt.block_on(sets.remove(&77, &(b as u64), &mut wb)); set_model.remove(&(b as u64));
            rt.block_on(sets.insert(77, 1000 + b as u64, &mut wb)); set_model.insert(1000 + b as u64);
            batches.push(wb);
        }
    }
    drop(sets);
    let desc = format!("directed: {nbatches} batches submitted by a thread that then panics; the write manager is dropped while that thread unwinds (delay_mod={delay_mod}, group_ops={group_ops})");
    eprintln!("LAST-HISTORY directed: {desc}");
    drop(map);
    let prev = std::panic::take_hook();
    std::panic::set_hook(Box::new(|_| {}));
    let h = std::thread::spawn(move || {
        let manager = manager;
        for wb in batches { manager.submit_write_batch(wb); }
        panic!("owner of the write manager panics");
    });
    let _ = h.join();
    std::panic::set_hook(prev);
    let wide = db.0.wide.lock().unwrap();
    let mut got: BTreeMap<u64, u64> = BTreeMap::new();
    for k in 0..3u64 {
        if let Some(b) = wide.get(&wide_key::<Col, u64>(&k)) {
            got.insert(k, qbice_serialize::postcard::decode::<u64>(b, &qbice_serialize::Plugin::default()).unwrap());
        }
    }
    if got != model {
        report_found("batches submitted before the write manager was dropped (during unwinding) are not in the store when the drop returns", &desc, &format!("{got:?}"), &format!("{model:?}"));
    }
    let got_set: std::collections::BTreeSet<u64> = db.0.sets.lock().unwrap().get(&set_key::<SetCol>(&77)).map(|s| s.iter().map(|b| qbice_serialize::postcard::decode::<u64>(b, &qbice_serialize::Plugin::default()).unwrap()).collect()).unwrap_or_default();
    if got_set != set_model {
        report_found("key-of-set operations of batches whose maps were dropped before submission are not in the store when the drop returns", &desc, &format!("{got_set:?}"), &format!("{set_model:?}"));
    }
    1
}

/// directed: a LONG manager lifetime -- hundreds of batches, each committed and recycled while the manager is alive (the
/// recycled-buffer pool of the after-commit thread grows), submitted in waves so that recycled buffers are handed out again
fn long_lifetime(rt: &tokio::runtime::Runtime, waves: usize, per_wave: usize, group_ops: usize) -> u64 {
    let db = MockDb::default();
    db.0.group_ops.store(group_ops, Ordering::Relaxed);
    let engine = DbBacked::new(db.clone(), Configuration::builder().serialization_workers(2).build());
    let manager = engine.new_write_manager();
    let map = engine.new_single_map::<Col, u64>();
    let sets = engine.new_key_of_set_map::<SetCol, Set>();
    let mut model: BTreeMap<u64, u64> = BTreeMap::new();
    let mut set_model: std::collections::BTreeSet<u64> = Default::default();
    let desc = format!("directed: one write manager lifetime of {waves} waves x {per_wave} batches (group_ops={group_ops}); every batch writes key b%5 and toggles set member b%7");
    eprintln!("LAST-HISTORY directed: {desc}");
    let mut b = 0u64;
    for w in 0..waves {
        let mut batches = Vec::new();
        for _ in 0..per_wave {
            let mut wb = manager.new_write_batch();
            rt.block_on(map.insert(b % 5, 10_000 + b, &mut wb)); model.insert(b % 5, 10_000 + b);
            if b % 2 == 0 { rt.block_on(sets.insert(3, b % 7, &mut wb)); set_model.insert(b % 7); } else { rt.block_on(sets.remove(&3, &(b % 7), &mut wb)); set_model.remove(&(b % 7)); }
            batches.push(wb);
            b += 1;
        }
        for wb in batches { manager.submit_write_batch(wb); }
        // let the pipeline drain between waves so that committed buffers are recycled and handed out again
        let want = (w + 1) * per_wave;
        let t0 = std::time::Instant::now();
        loop {
            let n: usize = db.0.commits.lock().unwrap().iter().flatten().filter(|op| matches!(op, Op::Del(k) if k.as_slice() == b"\0batch-boundary")).count();
            // (a grouping store holds the open physical batch back: do not wait for it)
            if n >= want || t0.elapsed() > std::time::Duration::from_millis(if group_ops == 0 { 5000 } else { 30 }) { break; }
            std::thread::yield_now();
        }
    }
    drop(map); drop(sets);
    drop(manager);
    let wide = db.0.wide.lock().unwrap();
    let mut got: BTreeMap<u64, u64> = BTreeMap::new();
    for k in 0..5u64 { if let Some(v) = wide.get(&wide_key::<Col, u64>(&k)) { got.insert(k, qbice_serialize::postcard::decode::<u64>(v, &qbice_serialize::Plugin::default()).unwrap()); } }
    if got != model { report_found("write-behind final content != sequential application in creation order", &desc, &format!("{got:?}"), &format!("{model:?}")); }
    let got_set: std::collections::BTreeSet<u64> = db.0.sets.lock().unwrap().get(&set_key::<SetCol>(&3)).map(|s| s.iter().map(|e| qbice_serialize::postcard::decode::<u64>(e, &qbice_serialize::Plugin::default()).unwrap()).collect()).unwrap_or_default();
    if got_set != set_model { report_found("write-behind final set content != sequential application in creation order", &desc, &format!("{got_set:?}"), &format!("{set_model:?}")); }
    let boundaries: usize = db.0.commits.lock().unwrap().iter().flatten().filter(|op| matches!(op, Op::Del(k) if k.as_slice() == b"\0batch-boundary")).count();
    if boundaries != waves * per_wave { report_found("number of logical batches that reached the store != number submitted", &desc, &format!("{boundaries}"), &format!("{}", waves * per_wave)); }
    1
}

fn main() {
    let seed = seed_from_args();
    let mut rng = Rng(seed.wrapping_mul(0x2545F4914F6CDD1D) ^ 0xC10C10);
    let rt = tokio::runtime::Builder::new_current_thread().build().unwrap();
    // a panic in the pipeline (e.g. the commit thread's assert) is a finding too
    let n = 400u64;
    let mut done = 0;
    for successors in 1..=4usize {
        for group_ops in [0usize, 2, 50] {
            for workers in [2usize, 4] {
                if workers <= 1 { continue; }
                let r = std::panic::catch_unwind(std::panic::AssertUnwindSafe(|| late_first(&rt, successors, group_ops, workers.max(successors + 1))));
                match r {
                    Ok(k) => done += k,
                    Err(_) => report_found("panic inside the write-behind pipeline", "directed late-first history", "panic", "no panic"),
                }
            }
        }
    }
    for (nb, dm, go) in [(2usize, 300u64, 0usize), (5, 300, 0), (5, 50, 2), (9, 300, 50)] {
        done += dropped_while_unwinding(&rt, nb, dm, go);
    }
    for (waves, per_wave, go) in [(6usize, 40usize, 0usize), (3, 100, 2), (10, 12, 50)] {
        done += long_lifetime(&rt, waves, per_wave, go);
    }
    for i in 0..n {
        let r = std::panic::catch_unwind(std::panic::AssertUnwindSafe(|| one_history(&rt, &mut rng, i)));
        match r {
            Ok(k) => done += k,
            Err(_) => report_found("panic inside the write-behind pipeline", &format!("history #{i} of seed {seed}"), "panic", "no panic"),
        }
    }
    report_none(done);
}
