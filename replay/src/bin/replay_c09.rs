//! C09 witness search: the REAL cached maps of qbice_storage (CacheKeyOfSetMap, CacheSingleMap, CacheDynamicMap through
//! `DbBacked`) + the REAL WriteBehind on the recording mock store. Seeded random histories of get / insert / remove over
//! overlapping keys, with batches submitted at random points (so the background writer is anywhere between "nothing
//! flushed" and "everything flushed"), cache capacities from 1 up, sets crossing the 1024 spill threshold; every read is
//! compared with a reference map that applies all operations issued so far. Plus directed histories for the staging log.
use std::collections::{BTreeMap, BTreeSet};
use std::sync::Arc;

use dashmap::DashSet;
use qbice_stable_type_id::Identifiable;
use qbice_storage::{
    dynamic_map::DynamicMap as _,
    key_of_set_map::KeyOfSetMap as _,
    kv_database::{DiscriminantEncoding, KeyOfSetColumn, WideColumn, WideColumnValue},
    single_map::SingleMap as _,
    storage_engine::{StorageEngine as _, db_backed::{Configuration, DbBacked}},
};
use verif_replay::{mockdb::*, *};

#[derive(Debug, Clone, Copy, PartialEq, Eq, PartialOrd, Ord, Hash, Identifiable)]
#[stable_type_id_crate(qbice_stable_type_id)]
struct SetCol;
impl KeyOfSetColumn for SetCol { type Key = u32; type Element = u32; }

#[derive(Debug, Clone, Copy, PartialEq, Eq, PartialOrd, Ord, Hash, Identifiable)]
#[stable_type_id_crate(qbice_stable_type_id)]
struct OneCol;
impl WideColumn for OneCol { type Key = u32; type Discriminant = (); fn discriminant_encoding() -> DiscriminantEncoding { DiscriminantEncoding::Prefixed } }
impl WideColumnValue<OneCol> for u64 { fn discriminant() {} }

#[derive(Debug, Clone, Copy, PartialEq, Eq, PartialOrd, Ord, Hash, Identifiable)]
#[stable_type_id_crate(qbice_stable_type_id)]
struct DynCol;
impl WideColumn for DynCol { type Key = u32; type Discriminant = u8; fn discriminant_encoding() -> DiscriminantEncoding { DiscriminantEncoding::Suffixed } }
impl WideColumnValue<DynCol> for u64 { fn discriminant() -> u8 { 0 } }
impl WideColumnValue<DynCol> for String { fn discriminant() -> u8 { 1 } }

type Set = Arc<DashSet<u32>>;

fn history(rt: &tokio::runtime::Runtime, rng: &mut Rng, cap: u64, big: bool, steps: usize, desc0: &str) -> u64 {
    let db = MockDb::default();
    db.0.group_ops.store([0usize, 3, 20][(rng.next() % 3) as usize], std::sync::atomic::Ordering::Relaxed);
    let engine = DbBacked::new(db.clone(), Configuration::builder().cache_capacity(cap).serialization_workers(1 + (rng.next() % 3) as usize).build());
    let manager = engine.new_write_manager();
    let sets = engine.new_key_of_set_map::<SetCol, Set>();
    let one = engine.new_single_map::<OneCol, u64>();
    let dynm = engine.new_dynamic_map::<DynCol>();
    let mut m_sets: BTreeMap<u32, BTreeSet<u32>> = BTreeMap::new();
    let mut m_one: BTreeMap<u32, u64> = BTreeMap::new();
    let mut m_du: BTreeMap<u32, u64> = BTreeMap::new();
    let mut m_ds: BTreeMap<u32, String> = BTreeMap::new();
    let nkeys = 2 + (rng.next() % 6) as u32;
    let nelems: u32 = if big { 1300 } else { 6 };
    let mut log: Vec<String> = vec![];
    let mut wb = manager.new_write_batch();
    let mut checks = 0u64;
    let desc = |log: &Vec<String>| format!("{desc0} capacity={cap} keys={nkeys}: {}", log[log.len().saturating_sub(50)..].join("; "));
    if big {
        // grow one set across the spill threshold first
        for e in 0..1100u32 { rt.block_on(sets.insert(0, e, &mut wb)); m_sets.entry(0).or_default().insert(e); }
        log.push("insert(set 0, 0..1100)".into());
    }
    for step in 0..steps {
        let k = (rng.next() % nkeys as u64) as u32;
        let e = (rng.next() % nelems as u64) as u32;
        match rng.next() % 20 {
            0..=3 => { rt.block_on(sets.insert(k, e, &mut wb)); m_sets.entry(k).or_default().insert(e); log.push(format!("sets.insert({k},{e})")); }
            4 | 5 => { rt.block_on(sets.remove(&k, &e, &mut wb)); if let Some(s) = m_sets.get_mut(&k) { s.remove(&e); } log.push(format!("sets.remove({k},{e})")); }
            6 | 7 => { rt.block_on(one.insert(k, step as u64, &mut wb)); m_one.insert(k, step as u64); log.push(format!("one.insert({k},{step})")); }
            8 => { rt.block_on(one.remove(&k, &mut wb)); m_one.remove(&k); log.push(format!("one.remove({k})")); }
            9 => { rt.block_on(dynm.insert(k, step as u64, &mut wb)); m_du.insert(k, step as u64); log.push(format!("dyn.insert::<u64>({k},{step})")); }
            10 => { let v = format!("s{step}"); rt.block_on(dynm.insert(k, v.clone(), &mut wb)); m_ds.insert(k, v); log.push(format!("dyn.insert::<String>({k})")); }
            11 => { rt.block_on(dynm.remove::<u64>(&k, &mut wb)); m_du.remove(&k); log.push(format!("dyn.remove::<u64>({k})")); }
            12 | 13 => {
                // close this batch and open the next one: the background writer may now flush at any time
                let old = std::mem::replace(&mut wb, manager.new_write_batch());
                manager.submit_write_batch(old);
                log.push("submit; new batch".into());
                if rng.next() % 3 == 0 { std::thread::sleep(std::time::Duration::from_micros(rng.next() % 800)); }
            }
            14 => {
                // cache pressure: touch many other keys of the single map so that small caches evict
                for j in 0..(cap as u32 * 3 + 5) { let _ = rt.block_on(one.get(&(1000 + j))); }
                log.push("pressure".into());
            }
            _ => {}
        }
        // reads must reflect everything issued so far
        let k = (rng.next() % nkeys as u64) as u32;
        let got: BTreeSet<u32> = rt.block_on(sets.get(&k)).collect();
        let want = m_sets.get(&k).cloned().unwrap_or_default();
        checks += 1;
        if got != want {
            let missing: Vec<_> = want.difference(&got).take(5).collect();
            let extra: Vec<_> = got.difference(&want).take(5).collect();
            report_found("key-to-set map read does not reflect the operations issued before it", &desc(&log), &format!("get({k}): missing {missing:?}, stale/extra {extra:?} ({} elements)", got.len()), &format!("{} elements", want.len()));
        }
        let g = rt.block_on(one.get(&k)); checks += 1;
        if g != m_one.get(&k).cloned() { report_found("single map read does not reflect the latest write", &desc(&log), &format!("one.get({k}) = {g:?}"), &format!("{:?}", m_one.get(&k))); }
        let g = rt.block_on(dynm.get::<u64>(&k)); checks += 1;
        if g != m_du.get(&k).cloned() { report_found("dynamic map read (u64) does not reflect the latest write", &desc(&log), &format!("{g:?}"), &format!("{:?}", m_du.get(&k))); }
        let g = rt.block_on(dynm.get::<String>(&k)); checks += 1;
        if g != m_ds.get(&k).cloned() { report_found("dynamic map read (String) does not reflect the latest write", &desc(&log), &format!("{g:?}"), &format!("{:?}", m_ds.get(&k))); }
    }
    manager.submit_write_batch(wb);
    eprintln!("LAST-HISTORY {}", desc(&log));
    drop(sets); drop(one); drop(dynm);
    drop(manager);
    checks
}

/// directed: three unsubmitted batches insert / remove / insert the same element; first read of the key is a cache miss
fn directed_w1(rt: &tokio::runtime::Runtime) -> u64 {
    let db = MockDb::default();
    let engine = DbBacked::new(db.clone(), Configuration::builder().cache_capacity(4).serialization_workers(1).build());
    let manager = engine.new_write_manager();
    let sets = engine.new_key_of_set_map::<SetCol, Set>();
    let (mut b1, mut b2, mut b3) = (manager.new_write_batch(), manager.new_write_batch(), manager.new_write_batch());
    rt.block_on(sets.insert(1, 7, &mut b1));
    rt.block_on(sets.remove(&1, &7, &mut b2));
    rt.block_on(sets.insert(1, 7, &mut b3));
    let got: BTreeSet<u32> = rt.block_on(sets.get(&1)).collect();
    let ok = got == BTreeSet::from([7]);
    eprintln!("LAST-HISTORY directed W1");
    manager.submit_write_batch(b1); manager.submit_write_batch(b2); manager.submit_write_batch(b3);
    drop(sets); drop(manager);
    if !ok {
        report_found("key-to-set map read does not reflect the operations issued before it",
            "store empty; insert(1,7)@batch1; remove(1,7)@batch2; insert(1,7)@batch3 (nothing submitted); get(1) on a cold cache",
            &format!("{got:?}"), "{7}");
    }
    1
}

/// directed: the store already holds the element; insert then remove in two unsubmitted batches; cold cache
fn directed_w2(rt: &tokio::runtime::Runtime) -> u64 {
    let db = MockDb::default();
    {
        let engine = DbBacked::new(db.clone(), Configuration::builder().cache_capacity(4).serialization_workers(1).build());
        let manager = engine.new_write_manager();
        let sets = engine.new_key_of_set_map::<SetCol, Set>();
        let mut b0 = manager.new_write_batch();
        rt.block_on(sets.insert(1, 7, &mut b0));
        manager.submit_write_batch(b0);
        drop(sets); drop(manager); // durable now
    }
    let engine = DbBacked::new(db.clone(), Configuration::builder().cache_capacity(4).serialization_workers(1).build());
    let manager = engine.new_write_manager();
    let sets = engine.new_key_of_set_map::<SetCol, Set>();
    let (mut b1, mut b2) = (manager.new_write_batch(), manager.new_write_batch());
    rt.block_on(sets.insert(1, 7, &mut b1));
    rt.block_on(sets.remove(&1, &7, &mut b2));
    let got: BTreeSet<u32> = rt.block_on(sets.get(&1)).collect();
    let ok = got.is_empty();
    eprintln!("LAST-HISTORY directed W2");
    manager.submit_write_batch(b1); manager.submit_write_batch(b2);
    drop(sets); drop(manager);
    if !ok {
        report_found("key-to-set map read does not reflect the operations issued before it",
            "store holds {7} for key 1; insert(1,7)@batch1; remove(1,7)@batch2 (nothing submitted); get(1) on a cold cache",
            &format!("{got:?}"), "{}");
    }
    1
}

/// directed: two batches are open on one key; the OLDER one is submitted, committed and its after-commit notification has
/// run (the staging log is trimmed up to its epoch) while the younger one is still open: a read must still see every
/// operation staged through the younger batch
fn directed_older_committed(rt: &tokio::runtime::Runtime, variant: u32) -> u64 {
    let db = MockDb::default();
    if variant >= 1 {
        let engine = DbBacked::new(db.clone(), Configuration::builder().cache_capacity(4).serialization_workers(1).build());
        let manager = engine.new_write_manager();
        let sets = engine.new_key_of_set_map::<SetCol, Set>();
        let mut b0 = manager.new_write_batch();
        let n = if variant == 2 { 1100 } else { 1 };
        for e in 0..n { rt.block_on(sets.insert(2, 5 + e, &mut b0)); }
        manager.submit_write_batch(b0);
        drop(sets); drop(manager);
    }
    let engine = DbBacked::new(db.clone(), Configuration::builder().cache_capacity(16).serialization_workers(1).build());
    let manager = engine.new_write_manager();
    let sets = engine.new_key_of_set_map::<SetCol, Set>();
    let (mut older, mut younger) = (manager.new_write_batch(), manager.new_write_batch());
    let (key, probe, want, desc): (u32, u32, BTreeSet<u32>, String);
    if variant == 0 {
        rt.block_on(sets.insert(1, 10, &mut older));
        rt.block_on(sets.insert(1, 20, &mut younger));
        rt.block_on(sets.insert(1, 30, &mut younger));
        key = 1; probe = 10; want = [10, 20, 30].into();
        desc = "older batch: insert(1,10); younger batch (still open): insert(1,20), insert(1,30); older submitted, committed, notified; get(1)".into();
    } else {
        rt.block_on(sets.insert(2, 3, &mut older));
        rt.block_on(sets.remove(&2, &5, &mut younger));
        rt.block_on(sets.insert(2, 4, &mut younger));
        key = 2; probe = 3;
        let n = if variant == 2 { 1100 } else { 1 };
        let mut w: BTreeSet<u32> = (5..5 + n).collect(); w.remove(&5); w.insert(3); w.insert(4);
        want = w;
        desc = format!("store holds {n} members of key 2 incl. 5; older batch: insert(2,3); younger batch (still open): remove(2,5), insert(2,4); older submitted, committed, notified; get(2)");
    }
    manager.submit_write_batch(older);
    // wait until the older batch is in the store, then give the after-commit thread time to notify the caches
    let pk = set_key::<SetCol>(&key);
    let pe = qbice_serialize::postcard::encode(&probe, &qbice_serialize::Plugin::default()).unwrap();
    for _ in 0..1000 {
        if db.0.sets.lock().unwrap().get(&pk).map(|s| s.contains(&pe)).unwrap_or(false) { break; }
        std::thread::sleep(std::time::Duration::from_millis(5));
    }
    std::thread::sleep(std::time::Duration::from_millis(300));
    let got: BTreeSet<u32> = rt.block_on(sets.get(&key)).collect();
    let got2: BTreeSet<u32> = rt.block_on(sets.get(&key)).collect();
    eprintln!("LAST-HISTORY directed older-committed variant {variant}");
    manager.submit_write_batch(younger);
    drop(sets); drop(manager);
    for g in [&got, &got2] {
        if *g != want {
            let missing: Vec<_> = want.difference(g).take(5).collect();
            let extra: Vec<_> = g.difference(&want).take(5).collect();
            report_found("key-to-set map read does not reflect the operations issued before it", &desc, &format!("{} elements; missing {missing:?}; stale/extra {extra:?}", g.len()), &format!("{} elements", want.len()));
        }
    }
    2
}

/// directed: n members are durable in the store; a FRESH map (cold set cache) reads the key -- across the 1024 spill
/// threshold -- with staged inserts / removes on top (they must be merged into the spilled / streaming iteration)
fn directed_cold_spill(rt: &tokio::runtime::Runtime, n: u32, staged: bool) -> u64 {
    let db = MockDb::default();
    {
        let engine = DbBacked::new(db.clone(), Configuration::builder().cache_capacity(8).serialization_workers(2).build());
        let manager = engine.new_write_manager();
        let sets = engine.new_key_of_set_map::<SetCol, Set>();
        let mut b0 = manager.new_write_batch();
        for e in 0..n { rt.block_on(sets.insert(5, e, &mut b0)); }
        manager.submit_write_batch(b0);
        drop(sets); drop(manager);
    }
    let engine = DbBacked::new(db.clone(), Configuration::builder().cache_capacity(8).serialization_workers(2).build());
    let manager = engine.new_write_manager();
    let sets = engine.new_key_of_set_map::<SetCol, Set>();
    let mut want: BTreeSet<u32> = (0..n).collect();
    let mut b1 = manager.new_write_batch();
    if staged {
        for e in [0u32, 1, n / 2, n.saturating_sub(1)] { rt.block_on(sets.remove(&5, &e, &mut b1)); want.remove(&e); }
        for e in [n, n + 1, 7_000_000] { rt.block_on(sets.insert(5, e, &mut b1)); want.insert(e); }
        rt.block_on(sets.insert(5, 0, &mut b1)); want.insert(0); // removed then re-inserted
    }
    let got: Vec<u32> = rt.block_on(sets.get(&5)).collect();
    let got_set: BTreeSet<u32> = got.iter().cloned().collect();
    let got2: BTreeSet<u32> = rt.block_on(sets.get(&5)).collect();
    eprintln!("LAST-HISTORY directed cold spill n={n} staged={staged}");
    manager.submit_write_batch(b1);
    drop(sets); drop(manager);
    let desc = format!("{n} members durable in the store; fresh map (cold cache); staged ops on top: {staged}; first get(5)");
    if got_set != want {
        let missing: Vec<_> = want.difference(&got_set).take(5).collect();
        let extra: Vec<_> = got_set.difference(&want).take(5).collect();
        report_found("key-to-set map read does not reflect the operations issued before it", &desc, &format!("{} elements; missing {missing:?}; stale/extra {extra:?}", got_set.len()), &format!("{} elements", want.len()));
    }
    if got2 != want {
        report_found("key-to-set map read does not reflect the operations issued before it", &format!("{desc}; SECOND get(5)"), &format!("{} elements", got2.len()), &format!("{} elements", want.len()));
    }
    2
}

/// directed race ("reads racing with flushes / removes"): a cache-miss load of key k has read the committed value from the
/// store but has not installed it yet when `remove(k)` is issued; every read issued AFTER the remove must see the absence
fn directed_load_races_remove(rt: &tokio::runtime::Runtime, dynamic: bool) -> u64 {
    let db = MockDb::default();
    {
        let engine = DbBacked::new(db.clone(), Configuration::builder().cache_capacity(8).serialization_workers(1).build());
        let manager = engine.new_write_manager();
        let mut b0 = manager.new_write_batch();
        if dynamic { let m = engine.new_dynamic_map::<DynCol>(); rt.block_on(m.insert(9, 10u64, &mut b0)); manager.submit_write_batch(b0); drop(m); }
        else { let m = engine.new_single_map::<OneCol, u64>(); rt.block_on(m.insert(9, 10u64, &mut b0)); manager.submit_write_batch(b0); drop(m); }
        drop(manager);
    }
    let engine = DbBacked::new(db.clone(), Configuration::builder().cache_capacity(8).serialization_workers(1).build());
    let manager = engine.new_write_manager();
    let gate_key = if dynamic { wide_key::<DynCol, u64>(&9) } else { wide_key::<OneCol, u64>(&9) };
    *db.0.read_gate.lock().unwrap() = Some(gate_key);
    let wait_reached = || { let t0 = std::time::Instant::now(); while !db.0.gate_reached.load(std::sync::atomic::Ordering::SeqCst) && t0.elapsed() < std::time::Duration::from_secs(3) { std::thread::yield_now(); } };
    let mut b1 = manager.new_write_batch();
    let (after, later) = if dynamic {
        let m = Arc::new(engine.new_dynamic_map::<DynCol>());
        let m2 = m.clone();
        let t = std::thread::spawn(move || { let rt2 = tokio::runtime::Builder::new_current_thread().build().unwrap(); rt2.block_on(m2.get::<u64>(&9)) });
        wait_reached();
        *db.0.read_gate.lock().unwrap() = None;
        rt.block_on(m.remove::<u64>(&9, &mut b1));
        db.0.gate_release.store(true, std::sync::atomic::Ordering::SeqCst);
        let _raced = t.join().unwrap();
        let after = rt.block_on(m.get::<u64>(&9));
        manager.submit_write_batch(b1);
        drop(manager);
        let later = rt.block_on(m.get::<u64>(&9));
        (after, later)
    } else {
        let m = Arc::new(engine.new_single_map::<OneCol, u64>());
        let m2 = m.clone();
        let t = std::thread::spawn(move || { let rt2 = tokio::runtime::Builder::new_current_thread().build().unwrap(); rt2.block_on(m2.get(&9)) });
        wait_reached();
        *db.0.read_gate.lock().unwrap() = None;
        rt.block_on(m.remove(&9, &mut b1));
        db.0.gate_release.store(true, std::sync::atomic::Ordering::SeqCst);
        let _raced = t.join().unwrap();
        let after = rt.block_on(m.get(&9));
        manager.submit_write_batch(b1);
        drop(manager);
        let later = rt.block_on(m.get(&9));
        (after, later)
    };
    eprintln!("LAST-HISTORY directed load races remove dynamic={dynamic}");
    let which = if dynamic { "multi-type map" } else { "single-value map" };
    let desc = format!("{which}: store holds 9 -> 10; cold cache; get(9) has read the store but not installed the value yet; remove(9) issued; the load completes");
    if after.is_some() { report_found("a cached map read returns a value that was removed before the read", &format!("{desc}; get(9)"), &format!("{after:?}"), "None"); }
    if later.is_some() { report_found("a cached map read returns a value that was removed before the read", &format!("{desc}; batch committed; get(9)"), &format!("{later:?}"), "None"); }
    2
}

/// directed: a spilled set (more than 1025 durable members, cold cache) with MANY staged removes and few or no staged inserts:
/// more removed elements among the first 1025 scanned than the rest of the scan plus the staged inserts can make up for
fn directed_cold_spill_many_removes(rt: &tokio::runtime::Runtime, n: u32, removes: u32, adds: u32) -> u64 {
    let db = MockDb::default();
    {
        let engine = DbBacked::new(db.clone(), Configuration::builder().cache_capacity(8).serialization_workers(2).build());
        let manager = engine.new_write_manager();
        let sets = engine.new_key_of_set_map::<SetCol, Set>();
        let mut b0 = manager.new_write_batch();
        for e in 0..n { rt.block_on(sets.insert(5, e, &mut b0)); }
        manager.submit_write_batch(b0);
        drop(sets); drop(manager);
    }
    let engine = DbBacked::new(db.clone(), Configuration::builder().cache_capacity(8).serialization_workers(2).build());
    let manager = engine.new_write_manager();
    let sets = engine.new_key_of_set_map::<SetCol, Set>();
    let mut want: BTreeSet<u32> = (0..n).collect();
    let mut b1 = manager.new_write_batch();
    for i in 0..removes { let e = (i * 37) % n; rt.block_on(sets.remove(&5, &e, &mut b1)); want.remove(&e); }
    for i in 0..adds { let e = 9_000_000 + i; rt.block_on(sets.insert(5, e, &mut b1)); want.insert(e); }
    let got: BTreeSet<u32> = rt.block_on(sets.get(&5)).collect();
    eprintln!("LAST-HISTORY directed cold spill, many removes n={n} removes={removes} adds={adds}");
    manager.submit_write_batch(b1);
    drop(sets); drop(manager);
    if got != want {
        let missing: Vec<_> = want.difference(&got).take(6).collect();
        let extra: Vec<_> = got.difference(&want).take(6).collect();
        report_found("key-to-set map read does not reflect the operations issued before it",
            &format!("{n} members durable in the store; fresh map (cold cache); {removes} staged removes (elements (i*37) mod n) and {adds} staged inserts in one uncommitted batch; first get(5)"),
            &format!("{} elements; {} missing, e.g. {missing:?}; stale/extra {extra:?}", got.len(), want.difference(&got).count()), &format!("{} elements", want.len()));
    }
    1
}

// ---- an element type whose Clone can hold ONE chosen thread (the staging-log replay is the only place where a read clones
// elements): lets a write be issued while a reader is inside the log of the same key
static CLONE_GATE_ARMED: std::sync::Mutex<Option<std::thread::ThreadId>> = std::sync::Mutex::new(None);
static CLONE_GATE_FIRED: std::sync::atomic::AtomicBool = std::sync::atomic::AtomicBool::new(false);
static CLONE_GATE_RELEASED: std::sync::atomic::AtomicBool = std::sync::atomic::AtomicBool::new(false);
#[derive(Debug, PartialEq, Eq, Hash, PartialOrd, Ord)]
struct GElem(u32);
impl Clone for GElem {
    fn clone(&self) -> Self {
        let mine = { let mut a = CLONE_GATE_ARMED.lock().unwrap(); if *a == Some(std::thread::current().id()) { *a = None; true } else { false } };
        if mine {
            CLONE_GATE_FIRED.store(true, std::sync::atomic::Ordering::SeqCst);
            let t0 = std::time::Instant::now();
            while !CLONE_GATE_RELEASED.load(std::sync::atomic::Ordering::SeqCst) && t0.elapsed() < std::time::Duration::from_secs(5) { std::thread::yield_now(); }
        }
        GElem(self.0)
    }
}
impl qbice_serialize::Encode for GElem {
    fn encode<E: qbice_serialize::Encoder + ?Sized>(&self, e: &mut E, p: &qbice_serialize::Plugin, s: &mut qbice_serialize::session::Session) -> std::io::Result<()> { self.0.encode(e, p, s) }
}
impl qbice_serialize::Decode for GElem {
    fn decode<D: qbice_serialize::Decoder + ?Sized>(d: &mut D, p: &qbice_serialize::Plugin, s: &mut qbice_serialize::session::Session) -> std::io::Result<Self> { <u32 as qbice_serialize::Decode>::decode(d, p, s).map(GElem) }
}
#[derive(Debug, Clone, Copy, PartialEq, Eq, PartialOrd, Ord, Hash, Identifiable)]
#[stable_type_id_crate(qbice_stable_type_id)]
struct GSetCol;
impl KeyOfSetColumn for GSetCol { type Key = u32; type Element = GElem; }

/// directed race: a write to key k is issued while a reader is inside k's staging log (the append is parked); every read
/// issued after the write must see it
fn directed_write_while_log_is_busy(rt: &tokio::runtime::Runtime) -> u64 {
    use std::sync::atomic::Ordering::SeqCst;
    let db = MockDb::default();
    let n = 1100u32;
    {
        let engine = DbBacked::new(db.clone(), Configuration::builder().cache_capacity(16).serialization_workers(1).build());
        let manager = engine.new_write_manager();
        let sets = engine.new_key_of_set_map::<GSetCol, Arc<DashSet<GElem>>>();
        let mut b0 = manager.new_write_batch();
        for e in 0..n { rt.block_on(sets.insert(7, GElem(e), &mut b0)); }
        manager.submit_write_batch(b0);
        drop(sets); drop(manager);
    }
    let engine = DbBacked::new(db.clone(), Configuration::builder().cache_capacity(16).serialization_workers(1).build());
    let manager = engine.new_write_manager();
    let sets = Arc::new(engine.new_key_of_set_map::<GSetCol, Arc<DashSet<GElem>>>());
    let mut batch = manager.new_write_batch();
    rt.block_on(sets.insert(7, GElem(5000), &mut batch));        // the staging log of key 7 exists
    CLONE_GATE_FIRED.store(false, SeqCst); CLONE_GATE_RELEASED.store(false, SeqCst);
    let reader = { let sets = sets.clone(); std::thread::spawn(move || {
        *CLONE_GATE_ARMED.lock().unwrap() = Some(std::thread::current().id());
        let rt2 = tokio::runtime::Builder::new_current_thread().build().unwrap();
        rt2.block_on(async { sets.get(&7).await.count() })
    }) };
    let t0 = std::time::Instant::now();
    while !CLONE_GATE_FIRED.load(SeqCst) && t0.elapsed() < std::time::Duration::from_secs(5) { std::thread::yield_now(); }
    let reached = CLONE_GATE_FIRED.load(SeqCst);
    rt.block_on(sets.insert(7, GElem(6000), &mut batch));        // issued while the log is busy (if the reader got there)
    CLONE_GATE_RELEASED.store(true, SeqCst);
    let _ = reader.join();
    *CLONE_GATE_ARMED.lock().unwrap() = None;
    let got: BTreeSet<u32> = rt.block_on(sets.get(&7)).map(|e| e.0).collect();
    eprintln!("LAST-HISTORY directed write while the staging log is busy (reader reached the log: {reached})");
    manager.submit_write_batch(batch);
    drop(sets); drop(manager);
    let mut want: BTreeSet<u32> = (0..n).collect(); want.insert(5000); want.insert(6000);
    if got != want {
        let missing: Vec<_> = want.difference(&got).take(5).collect();
        let extra: Vec<_> = got.difference(&want).take(5).collect();
        report_found("key-to-set map read does not reflect the operations issued before it",
            &format!("{n} members durable; insert(7,5000) staged; a reader is inside key 7's staging log (reached: {reached}); insert(7,6000) issued meanwhile; reader finishes; get(7)"),
            &format!("{} elements; missing {missing:?}; extra {extra:?}", got.len()), &format!("{} elements incl. 5000 and 6000", want.len()));
    }
    1
}

/// directed race: a read of a too-large set overlaps the commit AND the after-commit flush of a batch that was staged before
/// the read began; the read must still reflect that batch (overlay taken before the scan, or store read after the commit)
fn directed_flush_during_scan(rt: &tokio::runtime::Runtime) -> u64 {
    use std::sync::atomic::Ordering::SeqCst;
    let db = MockDb::default();
    let n = 1100u32;
    {
        let engine = DbBacked::new(db.clone(), Configuration::builder().cache_capacity(16).serialization_workers(1).build());
        let manager = engine.new_write_manager();
        let sets = engine.new_key_of_set_map::<SetCol, Set>();
        let mut b0 = manager.new_write_batch();
        for e in 0..n { rt.block_on(sets.insert(7, e, &mut b0)); }
        manager.submit_write_batch(b0);
        drop(sets); drop(manager);
    }
    let engine = DbBacked::new(db.clone(), Configuration::builder().cache_capacity(16).serialization_workers(1).build());
    let manager = engine.new_write_manager();
    let sets = Arc::new(engine.new_key_of_set_map::<SetCol, Set>());
    let _ = rt.block_on(sets.get(&7)).count();                    // the entry is now cached as "too large"
    let _ = rt.block_on(sets.get(&7)).count();
    db.0.commit_hold.store(true, SeqCst);
    let commits0 = db.0.commits.lock().unwrap().len();
    let mut b1 = manager.new_write_batch();
    rt.block_on(sets.insert(7, 5000, &mut b1));
    rt.block_on(sets.remove(&7, &3, &mut b1));
    manager.submit_write_batch(b1);                               // staged, submitted, commit held back
    db.0.gate_reached.store(false, SeqCst); db.0.gate_release.store(false, SeqCst);
    *db.0.scan_gate.lock().unwrap() = Some(set_key::<SetCol>(&7));
    let reader = { let sets = sets.clone(); std::thread::spawn(move || {
        let rt2 = tokio::runtime::Builder::new_current_thread().build().unwrap();
        rt2.block_on(async { sets.get(&7).await.collect::<BTreeSet<u32>>() })
    }) };
    let t0 = std::time::Instant::now();
    while !db.0.gate_reached.load(SeqCst) && t0.elapsed() < std::time::Duration::from_secs(5) { std::thread::yield_now(); }
    let reached = db.0.gate_reached.load(SeqCst);
    db.0.commit_hold.store(false, SeqCst);                        // commit, then the after-commit flush trims the staging log
    let t1 = std::time::Instant::now();
    while db.0.commits.lock().unwrap().len() == commits0 && t1.elapsed() < std::time::Duration::from_secs(5) { std::thread::yield_now(); }
    std::thread::sleep(std::time::Duration::from_millis(60));
    db.0.gate_release.store(true, SeqCst);
    let got = reader.join().unwrap();
    *db.0.scan_gate.lock().unwrap() = None;
    eprintln!("LAST-HISTORY directed flush during scan (reader reached the scan: {reached})");
    drop(sets); drop(manager);
    let mut want: BTreeSet<u32> = (0..n).collect(); want.insert(5000); want.remove(&3);
    if got != want {
        let missing: Vec<_> = want.difference(&got).take(5).collect();
        let extra: Vec<_> = got.difference(&want).take(5).collect();
        report_found("key-to-set map read does not reflect the operations issued before it",
            &format!("{n} members durable, entry cached as too large; batch {{insert(7,5000); remove(7,3)}} staged and submitted (commit held); get(7) starts and is paused in its store scan (reached: {reached}); the batch commits and is flushed; the read finishes"),
            &format!("{} elements; missing {missing:?}; stale/extra {extra:?}", got.len()), &format!("{} elements, with 5000, without 3", want.len()));
    }
    1
}

fn main() {
    let seed = seed_from_args();
    let mut rng = Rng(seed.wrapping_mul(0x9E3779B97F4A7C15) ^ 0xC09);
    let rt = tokio::runtime::Builder::new_current_thread().build().unwrap();
    let mut n = 0u64;
    n += directed_w1(&rt);
    n += directed_w2(&rt);
    for v in 0..3 { n += directed_older_committed(&rt, v); }
    n += directed_load_races_remove(&rt, false);
    n += directed_load_races_remove(&rt, true);
    n += directed_write_while_log_is_busy(&rt);
    n += directed_flush_during_scan(&rt);
    for members in [3u32, 1023, 1024, 1025, 1026, 1100, 2100] {
        n += directed_cold_spill(&rt, members, false);
        n += directed_cold_spill(&rt, members, true);
    }
    for (members, removes, adds) in [(1026u32, 10u32, 0u32), (1030, 40, 2), (1100, 200, 0), (2100, 1500, 3), (1025, 5, 0)] {
        n += directed_cold_spill_many_removes(&rt, members, removes, adds);
    }
    for cap in [1u64, 2, 4, 64] {
        for _ in 0..6 { n += history(&rt, &mut rng, cap, false, 400, "random"); }
    }
    n += history(&rt, &mut rng, 2, true, 150, "random+spill");
    n += history(&rt, &mut rng, 64, true, 150, "random+spill");
    report_none(n);
}
