//! C16, the lock-table sentence: "two tasks asking for the lock of the same query always contend on the same lock, even
//! while the table is evicting". The REAL `query_lock_manager.rs` of the qbice crate (a private module) is compiled into this
//! driver with `include!` (its only crate-local dependency, `crate::query::QueryID`, is replaced by a local key type: the
//! table never looks inside the key). Seeded random histories: tasks obtain lock instances, keep them for a while (locked or
//! NOT YET locked), release them; in between, hundreds of other queries push the table far over its capacity. Whenever some
//! task still holds an instance of query q, every `get_lock_instance(q)` must return the SAME lock object.
#![allow(dead_code, unused_imports)]
use verif_replay::*;

mod query {
    #[derive(Debug, Clone, Copy, PartialEq, Eq, Hash)]
    pub struct QueryID(pub u64);
}

mod query_lock_manager {
    include!("/repo/crates/qbice/src/engine/computation_graph/query_lock_manager.rs");

    /// same module, so the private field is visible: identity of the lock object behind an instance
    pub fn same_lock(a: &OwnedLock, b: &OwnedLock) -> bool { Arc::ptr_eq(&a.0, &b.0) }
    /// is there an entry for `id` in the table right now?
    pub fn is_resident(m: &QueryLockManager, id: &QueryID) -> bool { m.hot.get_map(id, |_| ()).is_some() }
    /// lock it (write) without blocking, as a task that got past `write_owned().await` would hold it
    pub fn try_lock_exclusive(a: &OwnedLock) -> Option<tokio::sync::OwnedRwLockWriteGuard<()>> { a.0.clone().try_write_owned().ok() }
}
use query::QueryID;
use query_lock_manager::*;

struct Holder { inst: OwnedLock, guard: Option<tokio::sync::OwnedRwLockWriteGuard<()>> }

fn history(rng: &mut Rng, cap: u64, steps: usize) -> u64 {
    let m = QueryLockManager::new(cap);
    let nq = 6u64;
    // a rolling window of query ids: over a history hundreds of DIFFERENT queries are held through eviction pressure
    let mut base_q = 0u64;
    let mut held: std::collections::BTreeMap<u64, Vec<Holder>> = std::collections::BTreeMap::new();
    let mut log: Vec<String> = vec![format!("capacity={cap}")];
    let mut fresh = 1_000_000u64;
    let mut checks = 0u64;
    for step in 0..steps {
        if step % 4 == 3 { base_q += 1; }
        let q = base_q + rng.next() % nq;
        match rng.next() % 8 {
            0 | 1 | 2 => {
                // a task obtains the instance of q; sometimes it locks it right away, sometimes it has not locked it yet
                let inst = m.get_lock_instance(&QueryID(q));
                if let Some(first) = held.get(&q).and_then(|v| v.first()) {
                    checks += 1;
                    if !same_lock(&first.inst, &inst) {
                        report_found("two tasks asking for the lock of the same query got DIFFERENT lock objects", &log[log.len().saturating_sub(40)..].join("; "), &format!("get_lock_instance({q}) returned a fresh lock while another task still holds an instance of query {q}"), "the same lock object");
                    }
                }
                let guard = if rng.next() % 2 == 0 && held.get(&q).map(|v| v.iter().all(|h| h.guard.is_none())).unwrap_or(true) { try_lock_exclusive(&inst) } else { None };
                log.push(format!("task takes instance of q{q}{}", if guard.is_some() { " and locks it" } else { " (not locked yet)" }));
                held.entry(q).or_default().push(Holder { inst, guard });
            }
            3 => {
                if held.get(&q).map(|v| !v.is_empty()).unwrap_or(false) {
                    let v = held.get_mut(&q).unwrap();
                    let i = (rng.next() % v.len() as u64) as usize;
                    v.remove(i);
                    log.push(format!("a task releases its instance of q{q}"));
                }
            }
            4 | 5 => {
                // eviction pressure: many other queries take and release their locks
                let n = 50 + rng.next() % 400;
                for _ in 0..n { let other = m.get_lock_instance(&QueryID(fresh)); fresh += 1; drop(other); }
                log.push(format!("{n} other queries take and release their locks"));
            }
            _ => {
                // a held-but-unlocked instance gets locked now
                if let Some(h) = held.get_mut(&q).and_then(|v| v.iter_mut().find(|h| h.guard.is_none())) {
                    let others_locked = false;
                    if !others_locked { h.guard = try_lock_exclusive(&h.inst); }
                    log.push(format!("a task that held an instance of q{q} locks it now"));
                }
            }
        }
        // the clause, for every query some task holds
        for q in 0..nq {
            if let Some(first) = held.get(&q).and_then(|v| v.first()) {
                let again = m.get_lock_instance(&QueryID(q));
                checks += 1;
                if !same_lock(&first.inst, &again) {
                    report_found("two tasks asking for the lock of the same query got DIFFERENT lock objects", &log[log.len().saturating_sub(40)..].join("; "), &format!("get_lock_instance({q}) returned a fresh lock while another task still holds an instance of query {q}"), "the same lock object");
                }
                // (the probe itself is dropped again: it is a second holder only for this moment)
            }
        }
    }
    // boundedness: release everything, let ordinary traffic pass, then count what the table still holds
    held.clear();
    for _ in 0..(cap * 3 + 200) { let other = m.get_lock_instance(&QueryID(fresh)); fresh += 1; drop(other); }
    let mut resident = 0usize;
    for q in 0..=(base_q + nq) { if is_resident(&m, &QueryID(q)) { resident += 1; } }
    for id in 1_000_000u64..fresh { if is_resident(&m, &QueryID(id)) { resident += 1; } }
    checks += 1;
    let bound = cap as usize + 2 * 33 + 8;
    if resident > bound {
        report_found("the lock table does not stay bounded: locks that were held once are never released from the table", &log[log.len().saturating_sub(40)..].join("; "), &format!("{resident} locks resident, none held, capacity {cap}"), &format!("<= {bound}"));
    }
    checks
}

fn main() {
    let seed = seed_from_args();
    let mut rng = Rng(seed.wrapping_mul(0x9E3779B97F4A7C15) ^ 0xC16_10C);
    let mut n = 0u64;
    for cap in [1u64, 2, 8, 32] {
        for _ in 0..4 { n += history(&mut rng, cap, 1600); }
    }
    report_none(n);
}
