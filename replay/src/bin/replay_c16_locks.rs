//! C16, the lock-table sentence: "two tasks asking for the lock of the same query always contend on the same lock, even
//! while the table is evicting". The REAL `query_lock_manager.rs` of the qbice crate (a private module) is compiled into this
//! driver with `include!` (its only crate-local dependency, `crate::query::QueryID`, is replaced by a local key type: the
//! table never looks inside the key). Seeded random histories: tasks obtain lock instances, keep them for a while (locked or
//! NOT YET locked), release them; in between, hundreds of other queries push the table far over its capacity. Whenever some
//! task still holds an instance of query q, every `get_lock_instance(q)` must return the SAME lock object.
#![allow(dead_code, unused_imports)]
use verif_replay::*;

mod query {
    #[derive(Debug, Clone, Copy, PartialEq, Eq, Hash)]
    pub struct QueryID(pub u64);
}

mod query_lock_manager {
    include!("/repo/crates/qbice/src/engine/computation_graph/query_lock_manager.rs");

    /// same module, so the private field is visible: identity of the lock object behind an instance
    pub fn same_lock(a: &OwnedLock, b: &OwnedLock) -> bool { Arc::ptr_eq(&a.0, &b.0) }
    /// lock it (write) without blocking, as a task that got past `write_owned().await` would hold it
    pub fn try_lock_exclusive(a: &OwnedLock) -> Option<tokio::sync::OwnedRwLockWriteGuard<()>> { a.0.clone().try_write_owned().ok() }
}
use query::QueryID;
use query_lock_manager::*;

struct Holder { inst: OwnedLock, guard: Option<tokio::sync::OwnedRwLockWriteGuard<()>> }

fn history(rng: &mut Rng, cap: u64, steps: usize) -> u64 {
    let m = QueryLockManager::new(cap);
    let nq = 6u64;
    let mut held: Vec<Vec<Holder>> = (0..nq).map(|_| Vec::new()).collect();
    let mut log: Vec<String> = vec![format!("capacity={cap}")];
    let mut fresh = 1_000_000u64;
    let mut checks = 0u64;
    for _ in 0..steps {
        let q = rng.next() % nq;
        match rng.next() % 8 {
            0 | 1 | 2 => {
                // a task obtains the instance of q; sometimes it locks it right away, sometimes it has not locked it yet
                let inst = m.get_lock_instance(&QueryID(q));
                if let Some(first) = held[q as usize].first() {
                    checks += 1;
                    if !same_lock(&first.inst, &inst) {
                        report_found("two tasks asking for the lock of the same query got DIFFERENT lock objects", &log[log.len().saturating_sub(40)..].join("; "), &format!("get_lock_instance({q}) returned a fresh lock while another task still holds an instance of query {q}"), "the same lock object");
                    }
                }
                let guard = if rng.next() % 2 == 0 && held[q as usize].iter().all(|h| h.guard.is_none()) { try_lock_exclusive(&inst) } else { None };
                log.push(format!("task takes instance of q{q}{}", if guard.is_some() { " and locks it" } else { " (not locked yet)" }));
                held[q as usize].push(Holder { inst, guard });
            }
            3 => {
                if !held[q as usize].is_empty() {
                    let i = (rng.next() % held[q as usize].len() as u64) as usize;
                    held[q as usize].remove(i);
                    log.push(format!("a task releases its instance of q{q}"));
                }
            }
            4 | 5 => {
                // eviction pressure: many other queries take and release their locks
                let n = 50 + rng.next() % 400;
                for _ in 0..n { let other = m.get_lock_instance(&QueryID(fresh)); fresh += 1; drop(other); }
                log.push(format!("{n} other queries take and release their locks"));
            }
            _ => {
                // a held-but-unlocked instance gets locked now
                if let Some(h) = held[q as usize].iter_mut().find(|h| h.guard.is_none()) {
                    let others_locked = false;
                    if !others_locked { h.guard = try_lock_exclusive(&h.inst); }
                    log.push(format!("a task that held an instance of q{q} locks it now"));
                }
            }
        }
        // the clause, for every query some task holds
        for q in 0..nq {
            if let Some(first) = held[q as usize].first() {
                let again = m.get_lock_instance(&QueryID(q));
                checks += 1;
                if !same_lock(&first.inst, &again) {
                    report_found("two tasks asking for the lock of the same query got DIFFERENT lock objects", &log[log.len().saturating_sub(40)..].join("; "), &format!("get_lock_instance({q}) returned a fresh lock while another task still holds an instance of query {q}"), "the same lock object");
                }
                // (the probe itself is dropped again: it is a second holder only for this moment)
            }
        }
    }
    checks
}

fn main() {
    let seed = seed_from_args();
    let mut rng = Rng(seed.wrapping_mul(0x9E3779B97F4A7C15) ^ 0xC16_10C);
    let mut n = 0u64;
    for cap in [1u64, 2, 8, 32] {
        for _ in 0..6 { n += history(&mut rng, cap, 400); }
    }
    report_none(n);
}
