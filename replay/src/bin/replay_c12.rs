//! C12 witness search on the real `qbice_serialize`: boundary + exhaustive-16-bit + seeded random
//! values of every integer width, nested through the generic constructors; a failure prints the
//! concrete input. Used only after a proof obligation failed (the proof is the deciding step).
use std::{collections::*, fmt::Debug, ops::Bound, rc::Rc, sync::Arc};

use qbice_serialize::{Decode, Encode, Plugin};
use verif_replay::*;

static mut COUNT: u64 = 0;

/// a reader that delivers at most one byte per `read` call
struct Trickle<'a>(&'a [u8]);
impl std::io::Read for Trickle<'_> {
    fn read(&mut self, buf: &mut [u8]) -> std::io::Result<usize> {
        if buf.is_empty() || self.0.is_empty() { return Ok(0); }
        buf[0] = self.0[0];
        self.0 = &self.0[1..];
        Ok(1)
    }
}

fn rt<T: Encode + Decode + PartialEq + Debug>(kind: &str, v: &T) {
    unsafe { COUNT += 1 };
    let plugin = Plugin::new();
    let bytes = match qbice_serialize::postcard::encode(v, &plugin) {
        Ok(b) => b,
        Err(e) => report_found(kind, &format!("{v:?}"), &format!("encode error {e}"), "Ok"),
    };
    // exact consumption + self delimiting: decode from bytes ++ sentinel, then check the rest
    let mut ext = bytes.clone();
    ext.extend_from_slice(&[0xA5, 0x5A]);
    let mut dec = qbice_serialize::PostcardDecoder::new(&ext[..]);
    let r: std::io::Result<T> = qbice_serialize::Decoder::decode(&mut dec, &plugin);
    // the same bytes through a reader that hands out ONE byte per read() call (a pipe / socket / chained buffers): a decoder
    // must not depend on how the underlying stream chunks its data
    {
        let mut tdec = qbice_serialize::PostcardDecoder::new(Trickle(&ext[..]));
        let tr: std::io::Result<T> = qbice_serialize::Decoder::decode(&mut tdec, &plugin);
        match tr {
            Ok(w) => {
                if &w != v { report_found(kind, &format!("{v:?}"), &format!("{w:?} when the reader delivers one byte per call (bytes {bytes:?})"), &format!("{v:?}")); }
                let rest = tdec.into_inner().0;
                if rest != &[0xA5u8, 0x5A][..] { report_found(kind, &format!("{v:?}"), &format!("decoder left {} bytes when the reader delivers one byte per call, bytes {bytes:?}", rest.len()), "exactly the 2 sentinel bytes"); }
            }
            Err(e) => report_found(kind, &format!("{v:?}"), &format!("decode error {e} when the reader delivers one byte per call (bytes {bytes:?})"), "Ok"),
        }
    }
    match r {
        Ok(w) => {
            if &w != v {
                report_found(kind, &format!("{v:?}"), &format!("{w:?} (bytes {bytes:?})"), &format!("{v:?}"));
            }
            let rest: &[u8] = dec.into_inner();
            if rest != &[0xA5u8, 0x5A][..] {
                report_found(kind, &format!("{v:?}"), &format!("decoder left {} bytes, bytes {bytes:?}", rest.len()), "exactly the 2 sentinel bytes");
            }
        }
        Err(e) => report_found(kind, &format!("{v:?}"), &format!("decode error {e} (bytes {bytes:?})"), "Ok"),
    }
}

// ---- interned handles: the wire form depends on the encode session (first occurrence in full, later ones by hash);
// decode with a FRESH interner (a re-opened database) and with the writer's interner
fn interner() -> (Plugin, qbice_storage::intern::Interner) {
    let i = qbice_storage::intern::Interner::new(4, qbice_stable_hash::BuildStableHasherDefault::<qbice_stable_hash::Sip128Hasher>::default());
    let mut p = Plugin::new();
    p.insert(i.clone());
    (p, i)
}
fn rt_interned<T: Encode + Decode>(kind: &str, v: &T, show: &dyn Fn(&T) -> String, wp: &Plugin) {
    unsafe { COUNT += 1 };
    let bytes = match qbice_serialize::postcard::encode(v, wp) {
        Ok(b) => b,
        Err(e) => report_found(kind, &show(v), &format!("encode error {e}"), "Ok"),
    };
    let (fresh, _keep) = interner();
    for (which, plugin) in [("fresh interner", &fresh), ("writer's interner", wp)] {
        let mut ext = bytes.clone();
        ext.extend_from_slice(&[0xA5, 0x5A]);
        let shown = show(v);
        let r = std::panic::catch_unwind(std::panic::AssertUnwindSafe(|| {
            let mut dec = qbice_serialize::PostcardDecoder::new(&ext[..]);
            let r: std::io::Result<T> = qbice_serialize::Decoder::decode(&mut dec, plugin);
            (r.map(|w| show(&w)).map_err(|e| e.to_string()), dec.into_inner().len())
        }));
        match r {
            Err(_) => report_found(&format!("{kind} ({which})"), &shown, &format!("decode panicked (bytes {bytes:?})"), &shown),
            Ok((Err(e), _)) => report_found(&format!("{kind} ({which})"), &shown, &format!("decode error {e} (bytes {bytes:?})"), &shown),
            Ok((Ok(w), rest)) => {
                if w != shown { report_found(&format!("{kind} ({which})"), &shown, &format!("{w} (bytes {bytes:?})"), &shown); }
                if rest != 2 { report_found(&format!("{kind} ({which})"), &shown, &format!("decoder left {rest} bytes"), "exactly the 2 sentinel bytes"); }
            }
        }
    }
}
/// the writer's handles are all DROPPED before decoding with the writer's interner: its tables then hold dead weak entries for
/// exactly these values (no vacuum pass has run), and decoding must re-populate them
fn rt_interned_after_drop<T: Encode + Decode>(kind: &str, make: &dyn Fn(&qbice_storage::intern::Interner) -> T, show: &dyn Fn(&T) -> String) {
    unsafe { COUNT += 1 };
    let (wp, wi) = interner();
    let (bytes, shown) = {
        let v = make(&wi);
        let shown = show(&v);
        let bytes = match qbice_serialize::postcard::encode(&v, &wp) { Ok(b) => b, Err(e) => report_found(kind, &shown, &format!("encode error {e}"), "Ok") };
        (bytes, shown)
        // v (and with it every handle) is dropped here
    };
    let r = std::panic::catch_unwind(std::panic::AssertUnwindSafe(|| {
        let mut dec = qbice_serialize::PostcardDecoder::new(&bytes[..]);
        let r: std::io::Result<T> = qbice_serialize::Decoder::decode(&mut dec, &wp);
        (r.map(|w| show(&w)).map_err(|e| e.to_string()), dec.into_inner().len())
    }));
    let case = format!("{kind} (all handles dropped, then decoded with the SAME interner)");
    match r {
        Err(_) => report_found(&case, &shown, &format!("decode panicked (bytes {bytes:?})"), &shown),
        Ok((Err(e), _)) => report_found(&case, &shown, &format!("decode error {e}"), &shown),
        Ok((Ok(w), rest)) => {
            if w != shown { report_found(&case, &shown, &w, &shown); }
            if rest != 0 { report_found(&case, &shown, &format!("decoder left {rest} bytes"), "0 bytes"); }
        }
    }
}

fn interned_cases() {
    use qbice_storage::intern::Interned;
    use std::path::{Path, PathBuf};
    std::panic::set_hook(Box::new(|_| {}));
    for text in ["", "shared", &"y".repeat(128)] {
        let (wp, wi) = interner();
        let s: Interned<String> = wi.intern(text.to_string());
        let u: Interned<str> = wi.intern_unsized::<str, _>(text.to_string());
        let other: Interned<String> = wi.intern(format!("{text}!"));
        rt_interned("Interned<String>", &s, &|v| format!("{:?}", &**v), &wp);
        rt_interned("Interned<str>", &u, &|v| format!("{:?}", &**v), &wp);
        rt_interned("Vec<Interned<String>> with repeats", &vec![s.clone(), s.clone(), other.clone(), s.clone(), other.clone()],
            &|v| format!("{:?}", v.iter().map(|x| (**x).clone()).collect::<Vec<_>>()), &wp);
        // equal content under DIFFERENT handle types in one session, in both orders and interleaved
        rt_interned("(Interned<String>, Interned<str>) equal text", &(s.clone(), u.clone()), &|v| format!("({:?},{:?})", &*v.0, &*v.1), &wp);
        rt_interned("(Interned<str>, Interned<String>) equal text", &(u.clone(), s.clone()), &|v| format!("({:?},{:?})", &*v.0, &*v.1), &wp);
        rt_interned("(Interned<String>, Interned<str>, Interned<String>, Interned<str>)", &(s.clone(), u.clone(), s.clone(), u.clone()),
            &|v| format!("({:?},{:?},{:?},{:?})", &*v.0, &*v.1, &*v.2, &*v.3), &wp);
        rt_interned("Option<Interned<str>> after Interned<String>", &(s.clone(), Some(u.clone()), None::<Interned<str>>),
            &|v| format!("({:?},{:?},{:?})", &*v.0, v.1.as_ref().map(|x| x.to_string()), v.2.as_ref().map(|x| x.to_string())), &wp);
        let pb: Interned<PathBuf> = wi.intern(PathBuf::from(text));
        let pa: Interned<Path> = wi.intern_unsized::<Path, _>(PathBuf::from(text));
        rt_interned("(Interned<PathBuf>, Interned<Path>) equal path", &(pb.clone(), pa.clone()), &|v| format!("({:?},{:?})", &*v.0, &*v.1), &wp);
        rt_interned("(Interned<Path>, Interned<PathBuf>, Interned<Path>)", &(pa.clone(), pb.clone(), pa.clone()), &|v| format!("({:?},{:?},{:?})", &*v.0, &*v.1, &*v.2), &wp);
    }
    for elems in [vec![], vec![1u32, 1 << 21, u32::MAX], (0..130u32).collect::<Vec<_>>()] {
        let (wp, wi) = interner();
        let v: Interned<Vec<u32>> = wi.intern(elems.clone());
        let sl: Interned<[u32]> = wi.intern_unsized::<[u32], _>(elems.clone());
        rt_interned("Interned<Vec<u32>>", &v, &|v| format!("{:?}", &**v), &wp);
        rt_interned("Interned<[u32]>", &sl, &|v| format!("{:?}", &**v), &wp);
        rt_interned("(Interned<Vec<u32>>, Interned<[u32]>) equal elements", &(v.clone(), sl.clone()), &|v| format!("({:?},{:?})", &*v.0, &*v.1), &wp);
        rt_interned("(Interned<[u32]>, Interned<Vec<u32>>, Interned<[u32]>)", &(sl.clone(), v.clone(), sl.clone()), &|v| format!("({:?},{:?},{:?})", &*v.0, &*v.1, &*v.2), &wp);
        // nested handles: the inner handle is written inside the outer one's source form
        let inner: Interned<String> = wi.intern("in".to_string());
        let outer: Interned<Vec<Interned<String>>> = wi.intern(vec![inner.clone(), inner.clone()]);
        rt_interned("(Interned<Vec<Interned<String>>>, Interned<String>, same outer again)", &(outer.clone(), inner.clone(), outer.clone()),
            &|v| format!("({:?},{:?},{:?})", v.0.iter().map(|x| x.to_string()).collect::<Vec<_>>(), &*v.1, v.2.iter().map(|x| x.to_string()).collect::<Vec<_>>()), &wp);
    }
    {
        use qbice_storage::intern::Interned;
        use std::path::{Path, PathBuf};
        rt_interned_after_drop("Vec<Interned<String>> with repeats", &|i| { let a = i.intern("dup".to_string()); vec![a.clone(), a.clone(), i.intern("other".to_string()), a] },
            &|v| format!("{:?}", v.iter().map(|x| (**x).clone()).collect::<Vec<_>>()));
        rt_interned_after_drop("Vec<Interned<str>> with repeats", &|i| { let a = i.intern_unsized::<str, _>("dup".to_string()); vec![a.clone(), a.clone(), i.intern_unsized::<str, _>("other".to_string()), a] },
            &|v| format!("{:?}", v.iter().map(|x| x.to_string()).collect::<Vec<_>>()));
        rt_interned_after_drop("Vec<Interned<[u32]>> with repeats", &|i| { let a = i.intern_unsized::<[u32], _>(vec![1u32, 2, 3]); vec![a.clone(), a.clone(), a] },
            &|v| format!("{:?}", v.iter().map(|x| x.to_vec()).collect::<Vec<_>>()));
        rt_interned_after_drop("Vec<Interned<Path>> with repeats", &|i| { let a = i.intern_unsized::<Path, _>(PathBuf::from("/a/b")); vec![a.clone(), a.clone(), a] },
            &|v| format!("{:?}", v.iter().map(|x| x.to_path_buf()).collect::<Vec<_>>()));
        rt_interned_after_drop("(Interned<String>, Interned<str>, Interned<String>, Interned<str>)", &|i| { let s = i.intern("t".to_string()); let u = i.intern_unsized::<str, _>("t".to_string()); (s.clone(), u.clone(), s, u) },
            &|v| format!("({:?},{:?},{:?},{:?})", &*v.0, &*v.1, &*v.2, &*v.3));
    }
    let _ = std::panic::take_hook();
}

/// types that are not PartialEq / Debug, or whose equality is by content: round trip compared through a projection
fn rt_via<T: Encode + Decode, P: PartialEq + Debug>(kind: &str, v: &T, proj: &dyn Fn(&T) -> P) {
    unsafe { COUNT += 1 };
    let plugin = Plugin::new();
    let shown = format!("{:?}", proj(v));
    let bytes = match qbice_serialize::postcard::encode(v, &plugin) { Ok(b) => b, Err(e) => report_found(kind, &shown, &format!("encode error {e}"), "Ok") };
    let mut ext = bytes.clone();
    ext.extend_from_slice(&[0xA5, 0x5A]);
    let mut dec = qbice_serialize::PostcardDecoder::new(&ext[..]);
    let r: std::io::Result<T> = qbice_serialize::Decoder::decode(&mut dec, &plugin);
    match r {
        Ok(w) => {
            if proj(&w) != proj(v) { report_found(kind, &shown, &format!("{:?} (bytes {bytes:?})", proj(&w)), &shown); }
            let rest: &[u8] = dec.into_inner();
            if rest != &[0xA5u8, 0x5A][..] { report_found(kind, &shown, &format!("decoder left {} bytes, bytes {bytes:?}", rest.len()), "exactly the 2 sentinel bytes"); }
        }
        Err(e) => report_found(kind, &shown, &format!("decode error {e} (bytes {bytes:?})"), "Ok"),
    }
}
fn other_std_types(rng: &mut Rng) {
    use std::borrow::Cow;
    use std::cell::{Cell, RefCell};
    use std::path::{Path, PathBuf};
    use std::sync::atomic::*;
    for text in ["", "a", "héllo", &"y".repeat(128), &"z".repeat(300)] {
        rt(&format!("Box<str> len {}", text.len()), &Box::<str>::from(text));
        rt(&format!("Rc<str> len {}", text.len()), &Rc::<str>::from(text));
        rt(&format!("Arc<str> len {}", text.len()), &Arc::<str>::from(text));
        rt("(Box<str>, u8, Arc<str>) back to back", &(Box::<str>::from(text), 9u8, Arc::<str>::from(text)));
        rt_via("Cow<str> owned", &Cow::<str>::Owned(text.to_string()), &|c| c.to_string());
        rt_via("Cow<str> borrowed (static)", &Cow::<str>::Borrowed("static text"), &|c| c.to_string());
        rt_via("RefCell<String>", &RefCell::new(text.to_string()), &|c| c.borrow().clone());
        rt(&format!("Box<Path> {text:?}"), &PathBuf::from(text).into_boxed_path());
        rt(&format!("Arc<Path> {text:?}"), &Arc::<Path>::from(PathBuf::from(text)));
        rt(&format!("Rc<Path> {text:?}"), &Rc::<Path>::from(PathBuf::from(text)));
        rt(&format!("(PathBuf, PathBuf) {text:?}"), &(PathBuf::from(text), PathBuf::from("/x").join(text)));
    }
    rt_via("Cow<[u32]> owned", &Cow::<[u32]>::Owned(vec![1, 1 << 21, u32::MAX]), &|c| c.to_vec());
    rt_via("Cow<Vec<u8>>", &Cow::<Vec<u8>>::Owned(vec![0, 128, 255]), &|c| c.to_vec());
    for _ in 0..40 {
        let x = rng.next();
        rt_via("Cell<u64>", &Cell::new(x), &|c| c.get());
        rt_via("RefCell<(u32, i64)>", &RefCell::new((x as u32, x as i64)), &|c| *c.borrow());
        rt_via("AtomicBool", &AtomicBool::new(x & 1 == 1), &|a| a.load(Ordering::SeqCst));
        rt_via("AtomicU8", &AtomicU8::new(x as u8), &|a| a.load(Ordering::SeqCst));
        rt_via("AtomicI8", &AtomicI8::new(x as i8), &|a| a.load(Ordering::SeqCst));
        rt_via("AtomicU16", &AtomicU16::new(x as u16), &|a| a.load(Ordering::SeqCst));
        rt_via("AtomicI16", &AtomicI16::new(x as i16), &|a| a.load(Ordering::SeqCst));
        rt_via("AtomicU32", &AtomicU32::new(x as u32), &|a| a.load(Ordering::SeqCst));
        rt_via("AtomicI32", &AtomicI32::new(x as i32), &|a| a.load(Ordering::SeqCst));
        rt_via("AtomicU64", &AtomicU64::new(x), &|a| a.load(Ordering::SeqCst));
        rt_via("AtomicI64", &AtomicI64::new(x as i64), &|a| a.load(Ordering::SeqCst));
        rt_via("AtomicUsize", &AtomicUsize::new(x as usize), &|a| a.load(Ordering::SeqCst));
        rt_via("AtomicIsize", &AtomicIsize::new(x as isize), &|a| a.load(Ordering::SeqCst));
        rt_via("(AtomicU16, AtomicI64) back to back", &(AtomicU16::new(x as u16), AtomicI64::new(-(x as i64 >> 3))), &|a| (a.0.load(Ordering::SeqCst), a.1.load(Ordering::SeqCst)));
    }
    for v in [0u64, 127, 128, 16383, 16384, u64::MAX] { rt_via("AtomicU64 boundary", &AtomicU64::new(v), &|a| a.load(Ordering::SeqCst)); rt_via("AtomicI64 boundary", &AtomicI64::new(-(v as i64)), &|a| a.load(Ordering::SeqCst)); }
    non_utf8_paths();
    rt("PhantomData<u8>", &std::marker::PhantomData::<u8>);
    rt("[u8;0]", &[0u8; 0]);
    rt("[u16;33]", &{ let mut a = [0u16; 33]; for (i, x) in a.iter_mut().enumerate() { *x = (i as u16) << 9; } a });
    rt("[[u8;2];3]", &[[1u8, 2], [3, 4], [128, 255]]);
    rt("[String;2]", &["a".to_string(), "".to_string()]);
    rt("RangeFull", &(..));
    // concurrent collections: compared by content
    {
        let dm: dashmap::DashMap<u32, String> = (0..40u32).map(|i| (i * 1000, format!("v{i}"))).collect();
        rt_via("DashMap<u32,String>", &dm, &|m| m.iter().map(|e| (*e.key(), e.value().clone())).collect::<BTreeMap<_, _>>());
        rt_via("DashMap empty", &dashmap::DashMap::<u32, String>::new(), &|m| m.len());
        let ds: dashmap::DashSet<i64> = [-1i64, i64::MIN, 1 << 40, 0].into_iter().collect();
        rt_via("DashSet<i64>", &ds, &|s| s.iter().map(|e| *e).collect::<BTreeSet<_>>());
        rt_via("(DashSet<i64>, u8) back to back", &(ds.clone(), 7u8), &|s| (s.0.iter().map(|e| *e).collect::<BTreeSet<_>>(), s.1));
    }
    // maps / sets with exactly 127 / 128 / 129 entries (length-prefix boundary) and nested collections
    for n in [0usize, 1, 127, 128, 129] {
        let hm: HashMap<u16, u16> = (0..n as u16).map(|i| (i, i.wrapping_mul(257))).collect();
        rt(&format!("HashMap with {n} entries"), &hm);
        let bm: BTreeMap<u16, Vec<u8>> = (0..n as u16).map(|i| (i, vec![i as u8; (i % 3) as usize])).collect();
        rt(&format!("BTreeMap with {n} entries"), &bm);
        let hs: HashSet<u32> = (0..n as u32).map(|i| i << 7).collect();
        rt(&format!("HashSet with {n} entries"), &hs);
        let bs: BTreeSet<i32> = (0..n as i32).map(|i| -i * 129).collect();
        rt(&format!("BTreeSet with {n} entries"), &bs);
        let ll: LinkedList<u8> = (0..n).map(|i| i as u8).collect();
        rt(&format!("LinkedList with {n} entries"), &ll);
        let vd: VecDeque<u16> = (0..n as u16).collect();
        rt(&format!("VecDeque with {n} entries"), &vd);
    }
    rt("Vec<HashMap<u8,Vec<Option<String>>>>", &vec![HashMap::from([(1u8, vec![None, Some("x".to_string())])]), HashMap::new()]);
    rt("BTreeMap<String,BTreeSet<(u8,i8)>>", &BTreeMap::from([("k".to_string(), BTreeSet::from([(1u8, -1i8), (2, 0)])), (String::new(), BTreeSet::new())]));
}

/// a path that is not valid UTF-8 has no image in this format: the encoder must either refuse it (the unchanged tree returns
/// InvalidData) or, if it produces bytes, those bytes must decode to the same path
#[cfg(unix)]
fn non_utf8_paths() {
    use std::os::unix::ffi::OsStrExt;
    use std::path::{Path, PathBuf};
    let plugin = Plugin::new();
    for raw in [&b"/data/\xff\xfe.bin"[..], &b"\xff"[..], &b"ok/\xc3"[..], &b"a\x80b"[..], &b"/x/\xed\xa0\x80"[..]] {
        let p: PathBuf = Path::new(std::ffi::OsStr::from_bytes(raw)).to_path_buf();
        unsafe { COUNT += 1 };
        match qbice_serialize::postcard::encode(&p, &plugin) {
            Err(_) => {}
            Ok(bytes) => {
                let mut dec = qbice_serialize::PostcardDecoder::new(&bytes[..]);
                let r: std::io::Result<PathBuf> = qbice_serialize::Decoder::decode(&mut dec, &plugin);
                match r {
                    Ok(w) if w == p => {}
                    other => report_found("PathBuf that is not valid UTF-8", &format!("{raw:?}"), &format!("encoded to {bytes:?}, which decodes to {other:?}"), "the same path (or a refusal to encode)"),
                }
            }
        }
        let bp: Box<Path> = p.clone().into_boxed_path();
        unsafe { COUNT += 1 };
        if let Ok(bytes) = qbice_serialize::postcard::encode(&bp, &plugin) {
            let mut dec = qbice_serialize::PostcardDecoder::new(&bytes[..]);
            let r: std::io::Result<Box<Path>> = qbice_serialize::Decoder::decode(&mut dec, &plugin);
            match r { Ok(w) if w == bp => {}, other => report_found("Box<Path> that is not valid UTF-8", &format!("{raw:?}"), &format!("encoded to {bytes:?}, which decodes to {other:?}"), "the same path (or a refusal to encode)") }
        }
    }
}
#[cfg(not(unix))]
fn non_utf8_paths() {}

fn nested<T: Encode + Decode + PartialEq + Debug + Clone>(kind: &str, a: &T, b: &T) {
    rt(&format!("{kind}"), a);
    rt(&format!("Option<{kind}>"), &Some(a.clone()));
    rt(&format!("Option<Option<{kind}>>"), &Some(None::<T>));
    rt(&format!("Result<{kind},{kind}>"), &Ok::<T, T>(a.clone()));
    rt(&format!("Result<{kind},{kind}>"), &Err::<T, T>(b.clone()));
    rt(&format!("Vec<{kind}>"), &vec![a.clone(), b.clone(), a.clone()]);
    rt(&format!("Vec<Vec<{kind}>>"), &vec![vec![], vec![a.clone()], vec![b.clone(), a.clone()]]);
    rt(&format!("({kind},{kind})"), &(a.clone(), b.clone()));
    rt(&format!("({kind},u8,{kind})"), &(a.clone(), 7u8, b.clone()));
    rt(&format!("Box<{kind}>"), &Box::new(a.clone()));
    rt(&format!("Rc<{kind}>"), &Rc::new(a.clone()));
    rt(&format!("Arc<{kind}>"), &Arc::new(a.clone()));
    rt(&format!("Box<[{kind}]>"), &vec![a.clone(), b.clone()].into_boxed_slice());
    rt(&format!("Arc<[{kind}]>"), &Arc::<[T]>::from(vec![a.clone(), b.clone()]));
    rt(&format!("Rc<[{kind}]>"), &Rc::<[T]>::from(vec![b.clone()]));
    rt(&format!("[{kind};3]"), &[a.clone(), b.clone(), a.clone()]);
    rt(&format!("Bound<{kind}>"), &Bound::Included(a.clone()));
    rt(&format!("Bound<{kind}>"), &Bound::Excluded(b.clone()));
    rt(&format!("Bound<{kind}>"), &Bound::<T>::Unbounded);
    rt(&format!("Range<{kind}>"), &(a.clone()..b.clone()));
    rt(&format!("RangeInclusive<{kind}>"), &(a.clone()..=b.clone()));
    rt(&format!("RangeFrom<{kind}>"), &(a.clone()..));
    rt(&format!("RangeTo<{kind}>"), &(..a.clone()));
    rt(&format!("RangeToInclusive<{kind}>"), &(..=b.clone()));
    rt(&format!("VecDeque<{kind}>"), &VecDeque::from(vec![a.clone(), b.clone()]));
    {
        // a deque whose ring buffer has WRAPPED (two non-empty physical slices): the wire form depends on the element
        // sequence only
        let mut d: VecDeque<T> = VecDeque::from(vec![a.clone(), b.clone(), a.clone()]);
        d.push_front(b.clone());
        d.push_front(a.clone());
        if d.as_slices().1.is_empty() { d.rotate_left(1); d.push_front(b.clone()); }
        rt(&format!("VecDeque<{kind}> with a wrapped ring buffer (as_slices = {} + {})", d.as_slices().0.len(), d.as_slices().1.len()), &d);
        let mut e: VecDeque<T> = VecDeque::with_capacity(4);
        for i in 0..6 { if i % 2 == 0 { e.push_back(a.clone()); } else { e.push_back(b.clone()); } if i >= 2 { let f = e.pop_front().unwrap(); e.push_back(f); } }
        rt(&format!("VecDeque<{kind}> after pop_front/push_back cycles (as_slices = {} + {})", e.as_slices().0.len(), e.as_slices().1.len()), &e);
        rt(&format!("(VecDeque<{kind}>, u8) back to back"), &(d, 7u8));
    }
    rt(&format!("LinkedList<{kind}>"), &LinkedList::from_iter(vec![a.clone(), b.clone()]));
    rt(&format!("Wrapping<{kind}>"), &std::num::Wrapping(a.clone()));
    rt(&format!("Reverse<{kind}>"), &std::cmp::Reverse(b.clone()));
    rt(
        &format!("12-tuple<{kind}>"),
        &(a.clone(), b.clone(), 1u8, a.clone(), 2u16, b.clone(), 3u32, a.clone(), 4u64, b.clone(), true, a.clone()),
    );
}

macro_rules! ints {
    ($ty:ty, $name:expr, $rng:expr) => {{
        let bits = <$ty>::BITS;
        let mut vals: Vec<$ty> = vec![0 as $ty, 1 as $ty, <$ty>::MAX, <$ty>::MIN, <$ty>::MAX - 1, (<$ty>::MIN).wrapping_add(1)];
        let mut k = 7;
        while k < bits {
            let p: $ty = (1 as $ty) << k;
            vals.extend_from_slice(&[p, p.wrapping_sub(1), p.wrapping_add(1), p.wrapping_neg(), p.wrapping_neg().wrapping_sub(1), p.wrapping_neg().wrapping_add(1)]);
            k += 7;
        }
        k = 6;
        while k < bits {
            let p: $ty = (1 as $ty) << k;
            vals.extend_from_slice(&[p, p.wrapping_sub(1), p.wrapping_neg(), p.wrapping_neg().wrapping_sub(1)]);
            k += 7;
        }
        for _ in 0..64 {
            let r = $rng.next() as u128 | (($rng.next() as u128) << 64);
            vals.push(r as $ty);
            vals.push((r >> ($rng.next() % bits as u64)) as $ty);
        }
        for i in 0..vals.len() {
            rt($name, &vals[i]);
        }
        for i in 0..vals.len() {
            let a = vals[i];
            let b = vals[(i * 7 + 3) % vals.len()];
            if i < 40 {
                nested($name, &a, &b);
            } else {
                rt(&format!("({},{})", $name, $name), &(a, b));
            }
        }
    }};
}

/// directed case (finding F4): a RangeInclusive that was iterated to exhaustion carries a third component, the private
/// `exhausted` flag, which `==` compares and `is_empty` / `contains` observe -- it is not on the wire
fn range_inclusive_exhausted() {
    let mut a = 3u32..=3;
    let _ = a.next();
    rt("RangeInclusive<u32> iterated to exhaustion (3..=3 after one next())", &a);
    let mut b = -2i64..=0;
    while b.next().is_some() {}
    rt("RangeInclusive<i64> iterated to exhaustion (-2..=0 drained)", &b);
    let mut c = 'a'..='a';
    let _ = c.next_back();
    rt("RangeInclusive<char> exhausted from the back", &c);
}

fn main() {
    {
        let args: Vec<String> = std::env::args().collect();
        if let Some(i) = args.iter().position(|a| a == "--only") {
            match args.get(i + 1).map(String::as_str) {
                Some("range_inclusive_exhausted") => { range_inclusive_exhausted(); report_none(unsafe { COUNT }); }
                other => panic!("unknown --only case {other:?}"),
            }
        }
    }
    let mut rng = Rng(seed_from_args().wrapping_add(0x9E3779B97F4A7C15));
    // exhaustive 16 bit
    for v in 0..=u16::MAX {
        rt("u16", &v);
        rt("i16", &(v as i16));
    }
    for v in 0..=u8::MAX {
        rt("u8", &v);
        rt("i8", &(v as i8));
    }
    ints!(u16, "u16", rng);
    ints!(i16, "i16", rng);
    ints!(u32, "u32", rng);
    ints!(i32, "i32", rng);
    ints!(u64, "u64", rng);
    ints!(i64, "i64", rng);
    ints!(u128, "u128", rng);
    ints!(i128, "i128", rng);
    ints!(usize, "usize", rng);
    ints!(isize, "isize", rng);
    ints!(u8, "u8", rng);
    ints!(i8, "i8", rng);
    nested("bool", &true, &false);
    for c in ['\0', 'a', '\u{7f}', '\u{80}', '\u{7ff}', '\u{800}', '\u{d7ff}', '\u{e000}', '\u{ffff}', '\u{10000}', '\u{10ffff}'] {
        nested("char", &c, &'\u{3fff}');
    }
    for f in [0.0f32, -0.0, 1.5, f32::MAX, f32::MIN_POSITIVE, f32::INFINITY, f32::NEG_INFINITY] {
        rt("f32", &f);
    }
    for f in [0.0f64, -0.0, 1.5, f64::MAX, f64::MIN_POSITIVE, f64::INFINITY, f64::NEG_INFINITY] {
        rt("f64", &f);
    }
    {
        // NaN: compare by bits
        let plugin = Plugin::new();
        let v = f64::from_bits(0x7ff8_0000_dead_beef);
        let b = qbice_serialize::postcard::encode(&v, &plugin).unwrap();
        let w: f64 = qbice_serialize::postcard::decode(&b, &plugin).unwrap();
        if w.to_bits() != v.to_bits() {
            report_found("f64 NaN payload", "0x7ff80000deadbeef", &format!("{:#x}", w.to_bits()), "same bits");
        }
    }
    for n in [65535usize, 65536, 65537, 131072, 200_000] {
        // long payloads: every byte must arrive at its own position (content patterned, not constant)
        let long: String = (0..n).map(|i| char::from(b'a' + ((i * 7 + i / 251) % 26) as u8)).collect();
        rt(&format!("String of {n} bytes"), &long);
        rt(&format!("(String of {n} bytes, u8)"), &(long.clone(), 7u8));
        rt(&format!("Box<str> of {n} bytes"), &long.clone().into_boxed_str());
        rt(&format!("PathBuf of {n} bytes"), &std::path::PathBuf::from(&long));
        let bytes: Vec<u8> = (0..n).map(|i| (i * 31 + i / 257) as u8).collect();
        rt(&format!("Vec<u8> of {n} bytes"), &bytes);
    }
    for s in ["", "a", "héllo", "\u{10ffff}", &"x".repeat(127), &"y".repeat(128), &"z".repeat(16384)] {
        nested("String", &s.to_string(), &"q".to_string());
    }
    nested("()", &(), &());
    nested("Duration", &std::time::Duration::new(5, 999_999_999), &std::time::Duration::new(u64::MAX, 0));
    nested("NonZeroU32", &std::num::NonZeroU32::new(1 << 21).unwrap(), &std::num::NonZeroU32::MAX);
    nested("NonZeroI64", &std::num::NonZeroI64::new(-(1 << 48)).unwrap(), &std::num::NonZeroI64::MIN);
    nested("PathBuf", &std::path::PathBuf::from("/a/b"), &std::path::PathBuf::from(""));
    let mut bm = BTreeMap::new();
    bm.insert(300u32, "x".to_string());
    bm.insert(1u32, String::new());
    nested("BTreeMap<u32,String>", &bm, &BTreeMap::new());
    let bs: BTreeSet<i64> = [-1i64, i64::MIN, 1 << 40].into_iter().collect();
    nested("BTreeSet<i64>", &bs, &BTreeSet::new());
    let hm: HashMap<u16, Vec<u8>> = [(1u16, vec![1u8, 2]), (65535u16, vec![])].into_iter().collect();
    nested("HashMap<u16,Vec<u8>>", &hm, &HashMap::new());
    let hs: HashSet<i32> = [i32::MIN, -1, 0, 1 << 20].into_iter().collect();
    nested("HashSet<i32>", &hs, &HashSet::new());
    // optional features: smallvec, bitvec (every storage type and bit order; lengths across element boundaries; non-zero head offsets)
    {
        use bitvec::prelude::*;
        use smallvec::SmallVec;
        let sv: SmallVec<[u32; 4]> = SmallVec::from_vec(vec![1, 1 << 21, u32::MAX]);
        nested("SmallVec<[u32;4]> (inline)", &sv, &SmallVec::<[u32; 4]>::new());
        let sv2: SmallVec<[u32; 2]> = SmallVec::from_vec((0..40).map(|i| i * 1000).collect());
        nested("SmallVec<[u32;2]> (spilled)", &sv2, &SmallVec::<[u32; 2]>::from_vec(vec![7]));
        macro_rules! bv {
            ($t:ty, $o:ty, $name:expr) => {{
                for len in [0usize, 1, 7, 8, 9, 15, 16, 17, 20, 31, 32, 33, 63, 64, 65, 70, 129] {
                    let mut b: BitVec<$t, $o> = BitVec::new();
                    for i in 0..len { b.push((i * 7 + i / 3) % 3 != 0); }
                    rt(&format!("BitVec<{}> len {}", $name, len), &b);
                    if len > 5 {
                        // a vector whose live bits do not start at bit 0 of its first element
                        let shifted: BitVec<$t, $o> = b[3..].to_bitvec();
                        rt(&format!("BitVec<{}> from bits[3..] len {}", $name, len - 3), &shifted);
                        let mut drained = b.clone();
                        drained.drain(..2);
                        rt(&format!("BitVec<{}> after drain(..2) len {}", $name, len - 2), &drained);
                    }
                }
            }};
        }
        bv!(u8, Lsb0, "u8,Lsb0"); bv!(u8, Msb0, "u8,Msb0");
        bv!(u16, Lsb0, "u16,Lsb0"); bv!(u16, Msb0, "u16,Msb0");
        bv!(u32, Lsb0, "u32,Lsb0"); bv!(u32, Msb0, "u32,Msb0");
        bv!(u64, Lsb0, "u64,Lsb0"); bv!(u64, Msb0, "u64,Msb0");
        bv!(usize, Lsb0, "usize,Lsb0"); bv!(usize, Msb0, "usize,Msb0");
    }
    // derive fixtures (skipped fields hold their Default so that equality is meaningful)
    {
        use derive_fix::*;
        nested("derive Named", &Named { a: 1 << 28, b: -(1 << 40), c: true }, &Named { a: 0, b: 0, c: false });
        nested("derive Tuple", &Tuple(255, u64::MAX, -300), &Tuple(0, 128, 64));
        nested("derive Unit", &Unit, &Unit);
        nested("derive Generic<Vec<u16>>", &Generic { x: vec![1u16, 300, 70000u32 as u16], y: 16384 }, &Generic { x: vec![], y: 0 });
        nested("derive SkipNamed", &SkipNamed { a: 0, b: 129, c: 0, d: 1 << 35 }, &SkipNamed { a: 0, b: 1, c: 0, d: 2 });
        nested("derive SkipTuple", &SkipTuple(0, 111, 222, 0, -3), &SkipTuple(0, 16384, 1 << 21, 0, 127));
        for s in [Shape::A, Shape::B(1 << 14, -64), Shape::C { x: u64::MAX, y: true }, Shape::D(0, 513), Shape::F { s: 0, t: 200 }] {
            nested("derive Shape", &s, &Shape::B(7, 7));
        }
        nested("derive Either<u32,String>", &Either::<u32, String>::L(1 << 21), &Either::<u32, String>::R("x".into()));
        nested("derive Either<u32,String>", &Either::<u32, String>::N, &Either::<u32, String>::L(0));
        // enums with more than 128 / 256 variants: the variant tag is a usize (LEB128), one byte only below 128
        let wide = Wide::all();
        let big = Big::all();
        for v in &wide { rt("derive Wide (130 variants)", v); }
        for v in &big { rt("derive Big (300 variants)", v); }
        rt("derive Big: all 300 variants back to back", &big);
        rt("derive (Wide, u8, Wide) around the two-byte tag", &(Wide::V128, 7u8, Wide::V129(65535)));
        rt("derive Vec<Big> mixing one- and two-byte tags", &vec![big[130].clone(), big[3].clone(), big[255].clone(), big[0].clone(), big[299].clone(), big[256].clone(), big[127].clone(), big[128].clone()]);
        nested("derive Big", &big[256], &big[127]);
    }
    other_std_types(&mut rng);
    interned_cases();
    report_none(unsafe { COUNT });
}
