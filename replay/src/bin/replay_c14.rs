//! C14 bounded run on the REAL crates: evaluates `Identifiable::STABLE_TYPE_ID` for every type of a generated,
//! constructor-closed universe (several thousand types: all unary constructors over all leaves, nestings to depth 3,
//! every binary constructor in both argument orders, tuples with permuted / single-position-changed elements, arrays of
//! different lengths, derived user types incl. same-named types in different modules and generic instantiations) and
//! checks that no two types share an id; prints a digest of all ids so that two separate processes can be compared.
use std::collections::HashMap;

use qbice_stable_type_id::Identifiable;
use verif_replay::*;

#[allow(dead_code)]
mod fix {
    use qbice_stable_type_id::Identifiable;
    #[derive(Identifiable)]
    #[stable_type_id_crate(qbice_stable_type_id)]
    pub struct Plain;
    #[derive(Identifiable)]
    #[stable_type_id_crate(qbice_stable_type_id)]
    pub struct Wrapper<T>(pub T);
    #[derive(Identifiable)]
    #[stable_type_id_crate(qbice_stable_type_id)]
    pub struct Pair<A, B>(pub A, pub B);
    #[derive(Identifiable)]
    #[stable_type_id_crate(qbice_stable_type_id)]
    pub struct Triple<A, B, C>(pub A, pub B, pub C);
    pub mod a {
        use qbice_stable_type_id::Identifiable;
        #[derive(Identifiable)]
        #[stable_type_id_crate(qbice_stable_type_id)]
        pub struct Same;
    }
    pub mod b {
        use qbice_stable_type_id::Identifiable;
        #[derive(Identifiable)]
        #[stable_type_id_crate(qbice_stable_type_id)]
        pub struct Same;
    }
}

include!(concat!(env!("VERIF_AUX"), "/c14_universe.rs"));

fn main() {
    let u = universe();
    let mut by_id: HashMap<u128, &'static str> = HashMap::new();
    let mut digest: u128 = 0;
    for (name, id) in &u {
        if let Some(other) = by_id.insert(*id, name) {
            report_found("two distinct types share a stable type id", &format!("{other}  vs  {name}"), &format!("{id:#034x} for both"), "distinct ids");
        }
        // order-sensitive digest
        digest = digest.rotate_left(7) ^ id.wrapping_mul(0x9E37_79B9_7F4A_7C15_F39C_C060_5CED_C835);
    }
    // conversions on the real code: StableTypeID <-> u128, Compact128 round trip
    for (_, id) in u.iter().take(500) {
        let c = qbice_stable_hash::Compact128::from(*id);
        if c.to_u128() != *id { report_found("Compact128 round trip", &format!("{id:#x}"), &format!("{:#x}", c.to_u128()), "same"); }
    }
    println!("DIGEST {digest:#034x} types={}", u.len());
    report_none(u.len() as u64);
}
