//! C14 bounded run on the REAL crates: evaluates `Identifiable::STABLE_TYPE_ID` for every type of a generated,
//! constructor-closed universe (several thousand types: all unary constructors over all leaves, nestings to depth 3,
//! every binary constructor in both argument orders, tuples with permuted / single-position-changed elements, arrays of
//! different lengths, derived user types incl. same-named types in different modules and generic instantiations) and
//! checks that no two types share an id; prints a digest of all ids so that two separate processes can be compared.
use std::collections::HashMap;

use qbice_stable_type_id::Identifiable;
use verif_replay::*;

#[allow(dead_code)]
mod fix {
    use qbice_stable_type_id::Identifiable;
    #[derive(Identifiable)]
    #[stable_type_id_crate(qbice_stable_type_id)]
    pub struct Plain;
    #[derive(Identifiable)]
    #[stable_type_id_crate(qbice_stable_type_id)]
    pub struct Wrapper<T>(pub T);
    #[derive(Identifiable)]
    #[stable_type_id_crate(qbice_stable_type_id)]
    pub struct Pair<A, B>(pub A, pub B);
    #[derive(Identifiable)]
    #[stable_type_id_crate(qbice_stable_type_id)]
    pub struct Triple<A, B, C>(pub A, pub B, pub C);
    pub mod a {
        use qbice_stable_type_id::Identifiable;
        #[derive(Identifiable)]
        #[stable_type_id_crate(qbice_stable_type_id)]
        pub struct Same;
        /// a GENERIC type with the same name in two modules (the derive has a separate code path for generics)
        #[derive(Identifiable)]
        #[stable_type_id_crate(qbice_stable_type_id)]
        pub struct SameGen<T>(pub T);
        #[derive(Identifiable)]
        #[stable_type_id_crate(qbice_stable_type_id)]
        pub enum SameEnum<A, B> { L(A), R(B) }
    }
    pub mod b {
        use qbice_stable_type_id::Identifiable;
        #[derive(Identifiable)]
        #[stable_type_id_crate(qbice_stable_type_id)]
        pub struct Same;
        #[derive(Identifiable)]
        #[stable_type_id_crate(qbice_stable_type_id)]
        pub struct SameGen<T>(pub T);
        #[derive(Identifiable)]
        #[stable_type_id_crate(qbice_stable_type_id)]
        pub enum SameEnum<A, B> { L(A), R(B) }
    }
}

include!(concat!(env!("VERIF_AUX"), "/c14_universe.rs"));

fn main() {
    let u = universe();
    let mut by_id: HashMap<u128, &'static str> = HashMap::new();
    let mut digest: u128 = 0;
    for (name, id) in &u {
        if let Some(other) = by_id.insert(*id, name) {
            report_found("two distinct types share a stable type id", &format!("{other}  vs  {name}"), &format!("{id:#034x} for both"), "distinct ids");
        }
        // order-sensitive digest
        digest = digest.rotate_left(7) ^ id.wrapping_mul(0x9E37_79B9_7F4A_7C15_F39C_C060_5CED_C835);
    }
    // conversions on the real code: StableTypeID <-> u128, Compact128 round trip
    for (_, id) in u.iter().take(500) {
        let c = qbice_stable_hash::Compact128::from(*id);
        if c.to_u128() != *id { report_found("Compact128 round trip", &format!("{id:#x}"), &format!("{:#x}", c.to_u128()), "same"); }
    }
    // the string hash itself: names that differ in ONE byte, or by swapping two ADJACENT bytes, at every position of names of
    // every length up to 72 (all alignments w.r.t. the 8-byte blocks and the tail), several byte pairs -- must get distinct ids
    let mut names_checked = 0u64;
    {
        use qbice_stable_type_id::StableTypeID;
        let id_of = |b: &[u8]| -> u128 { let st: &'static str = Box::leak(String::from_utf8(b.to_vec()).unwrap().into_boxed_str()); StableTypeID::from_unique_type_name(st).as_u128() };
        let base: Vec<u8> = (0..72u8).map(|i| b'a' + (i % 23)).collect();
        for len in 1..=72usize {
            let name: Vec<u8> = base[..len].to_vec();
            let id0 = id_of(&name);
            digest = digest.rotate_left(7) ^ id0;
            for pos in 0..len {
                // four hand-picked pairs + every pair that differs in exactly ONE bit (bits 0..6: the names stay ASCII) -- a byte that
                // is merged with a neighbouring byte / the length by OR, AND or XOR loses exactly such differences
                let c = name[pos];
                let mut pairs = vec![(b'A', b'B'), (b'L', b'R'), (b'0', b'@'), (b'1', b'2')];
                for bit in 0..7u8 { pairs.push((c & !(1 << bit), c | (1 << bit))); }
                for (x, y) in pairs {
                    // single-byte change
                    let mut n1 = name.clone(); n1[pos] = x;
                    let mut n2 = name.clone(); n2[pos] = y;
                    let (i1, i2) = (id_of(&n1), id_of(&n2));
                    names_checked += 2;
                    if i1 == i2 { report_found("two distinct type names share a stable type id", &format!("{:?} vs {:?}", String::from_utf8_lossy(&n1), String::from_utf8_lossy(&n2)), &format!("{i1:#034x} for both"), "distinct ids"); }
                    // adjacent swap
                    if pos + 1 < len {
                        let mut s1 = name.clone(); s1[pos] = x; s1[pos + 1] = y;
                        let mut s2 = name.clone(); s2[pos] = y; s2[pos + 1] = x;
                        let (j1, j2) = (id_of(&s1), id_of(&s2));
                        names_checked += 2;
                        if j1 == j2 { report_found("two distinct type names share a stable type id", &format!("{:?} vs {:?}", String::from_utf8_lossy(&s1), String::from_utf8_lossy(&s2)), &format!("{j1:#034x} for both"), "distinct ids"); }
                    }
                }
            }
        }
    }
    println!("DIGEST {digest:#034x} types={} names={names_checked}", u.len());
    report_none(u.len() as u64 + names_checked);
}
