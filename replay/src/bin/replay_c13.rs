//! C13 bounded run on the REAL qbice_stable_hash (seeded SipHash-128):
//!  * history-free: unordered collections (HashMap/HashSet with different hasher states, capacities and insertion orders,
//!    BinaryHeap, DashMap/DashSet), owned vs shared storage, Vec capacity: equal values => equal hash;
//!  * preserved by a serialization round trip;
//!  * discriminating: all pairs of a universe of unequal values of one type => different hashes, incl. the classic framing
//!    traps (vec![vec![1],vec![]] vs vec![vec![],vec![1]], ("ab","c") vs ("a","bc"), Some(0) vs None, nested options ...);
//!  * a DIGEST of all hashes, compared between two separate processes by the check.
use std::collections::{BTreeMap, BTreeSet, BinaryHeap, HashMap, HashSet, LinkedList, VecDeque};
use std::hash::BuildHasherDefault;
use std::sync::Arc;

use qbice_stable_hash::{BuildStableHasher, SeededStableHasherBuilder, Sip128Hasher, StableHash, StableHasher};
use verif_replay::*;

fn h<T: StableHash + ?Sized>(v: &T) -> u128 {
    let b = SeededStableHasherBuilder::<Sip128Hasher>::new(0x5EED);
    let mut s = b.build_stable_hasher();
    v.stable_hash(&mut s);
    s.finish()
}

static mut DIGEST: u128 = 0;
static mut COUNT: u64 = 0;
fn note(x: u128) { unsafe { DIGEST = DIGEST.rotate_left(5) ^ x.wrapping_mul(0x9E37_79B9_7F4A_7C15_F39C_C060_5CED_C835); COUNT += 1; } }

fn same<T: StableHash + ?Sized, U: StableHash + ?Sized>(case: &str, a: &T, b: &U, desc: &str) {
    let (x, y) = (h(a), h(b));
    note(x);
    if x != y { report_found(case, desc, &format!("{x:#x} vs {y:#x}"), "equal hashes for equal values"); }
}

struct DebugDash<K: std::hash::Hash + Eq, V>(dashmap::DashMap<K, V>);
impl<K: std::hash::Hash + Eq + std::fmt::Debug + Ord + Clone, V: std::fmt::Debug + Clone> std::fmt::Debug for DebugDash<K, V> {
    fn fmt(&self, f: &mut std::fmt::Formatter<'_>) -> std::fmt::Result { let mut v: Vec<(K, V)> = self.0.iter().map(|e| (e.key().clone(), e.value().clone())).collect(); v.sort_by(|a, b| a.0.cmp(&b.0)); write!(f, "DashMap{v:?}") }
}
impl<K: std::hash::Hash + Eq + StableHash, V: StableHash> StableHash for DebugDash<K, V> {
    fn stable_hash<H: StableHasher + ?Sized>(&self, state: &mut H) { self.0.stable_hash(state) }
}
struct DebugDashSet(dashmap::DashSet<u8>);
impl std::fmt::Debug for DebugDashSet { fn fmt(&self, f: &mut std::fmt::Formatter<'_>) -> std::fmt::Result { let mut v: Vec<u8> = self.0.iter().map(|e| *e).collect(); v.sort(); write!(f, "DashSet{v:?}") } }
impl StableHash for DebugDashSet { fn stable_hash<H: StableHasher + ?Sized>(&self, state: &mut H) { self.0.stable_hash(state) } }

fn all_distinct<T: StableHash + std::fmt::Debug>(case: &str, vals: &[T]) {
    let mut seen: HashMap<u128, usize> = HashMap::new();
    for (i, v) in vals.iter().enumerate() {
        let x = h(v);
        note(x);
        if let Some(j) = seen.insert(x, i) {
            report_found(case, &format!("{:?}  vs  {:?}", vals[j], v), &format!("{x:#x} for both"), "different hashes for unequal values");
        }
    }
}

// derived impls (the REAL derive macro): variants / fields with byte-identical payloads must still be told apart
#[derive(StableHash, Debug, Clone, PartialEq)]
#[stable_hash_crate(qbice_stable_hash)]
enum DShape { Rect { w: u32, h: u32 }, Ellipse { a: u32, b: u32 }, Pt(u32, u32), Pair(u32, u32), U1, U2, One(u64), Wide { v: u64 } }
#[derive(StableHash, Debug, Clone, PartialEq)]
#[stable_hash_crate(qbice_stable_hash)]
struct DNamed { a: u16, b: u16 }
#[derive(StableHash, Debug, Clone, PartialEq)]
#[stable_hash_crate(qbice_stable_hash)]
struct DTuple(u16, u16);
#[derive(StableHash, Debug, Clone, PartialEq)]
#[stable_hash_crate(qbice_stable_hash)]
enum DGen<T, U> { L(T), R(U), Both { l: T, r: U }, N }

#[derive(StableHash, Debug, Clone, PartialEq)]
#[stable_hash_crate(qbice_stable_hash)]
enum DMixed { Unit, Number(u32), Text(String), Pair { a: u8, b: u8 }, Other }
#[derive(StableHash, Debug, Clone, PartialEq)]
#[stable_hash_crate(qbice_stable_hash)]
enum DBig { V0, V1, V2, V3, V4, V5, V6, V7(u8), V8, V9, V10, V11, V12, V13, V14, V15, V16, V17, V18, V19, V20, V21, V22, V23, V24, V25, V26, V27, V28, V29, V30, V31, V32, V33, V34, V35, V36, V37, V38, V39, V40, V41, V42, V43, V44, V45, V46, V47, V48, V49, V50, V51, V52, V53, V54, V55, V56, V57, V58, V59, V60, V61, V62, V63, V64, V65, V66, V67, V68, V69, V70, V71, V72, V73, V74, V75, V76, V77, V78, V79, V80, V81, V82, V83, V84, V85, V86, V87, V88, V89, V90, V91, V92, V93, V94, V95, V96, V97, V98, V99, V100, V101, V102, V103, V104, V105, V106, V107, V108, V109, V110, V111, V112, V113, V114, V115, V116, V117, V118, V119, V120, V121, V122, V123, V124, V125, V126, V127, V128, V129, V130, V131, V132, V133, V134, V135, V136, V137, V138, V139, V140, V141, V142, V143, V144, V145, V146, V147, V148, V149, V150, V151, V152, V153, V154, V155, V156, V157, V158, V159, V160, V161, V162, V163, V164, V165, V166, V167, V168, V169, V170, V171, V172, V173, V174, V175, V176, V177, V178, V179, V180, V181, V182, V183, V184, V185, V186, V187, V188, V189, V190, V191, V192, V193, V194, V195, V196, V197, V198, V199, V200(u8), V201, V202, V203, V204, V205, V206, V207, V208, V209, V210, V211, V212, V213, V214, V215, V216, V217, V218, V219, V220, V221, V222, V223, V224, V225, V226, V227, V228, V229, V230, V231, V232, V233, V234, V235, V236, V237, V238, V239, V240, V241, V242, V243, V244, V245, V246, V247, V248, V249, V250, V251, V252, V253, V254, V255, V256, V257, V258, V259, V260, V261, V262, V263, V264, V265, V266, V267, V268, V269, V270, V271, V272, V273, V274, V275, V276, V277, V278, V279, V280, V281, V282, V283, V284, V285, V286, V287, V288, V289, V290, V291, V292, V293, V294, V295, V296, V297, V298, V299 { x: u64 } }
fn dbig_all() -> Vec<DBig> { vec![DBig::V0, DBig::V1, DBig::V2, DBig::V3, DBig::V4, DBig::V5, DBig::V6, DBig::V7(0), DBig::V8, DBig::V9, DBig::V10, DBig::V11, DBig::V12, DBig::V13, DBig::V14, DBig::V15, DBig::V16, DBig::V17, DBig::V18, DBig::V19, DBig::V20, DBig::V21, DBig::V22, DBig::V23, DBig::V24, DBig::V25, DBig::V26, DBig::V27, DBig::V28, DBig::V29, DBig::V30, DBig::V31, DBig::V32, DBig::V33, DBig::V34, DBig::V35, DBig::V36, DBig::V37, DBig::V38, DBig::V39, DBig::V40, DBig::V41, DBig::V42, DBig::V43, DBig::V44, DBig::V45, DBig::V46, DBig::V47, DBig::V48, DBig::V49, DBig::V50, DBig::V51, DBig::V52, DBig::V53, DBig::V54, DBig::V55, DBig::V56, DBig::V57, DBig::V58, DBig::V59, DBig::V60, DBig::V61, DBig::V62, DBig::V63, DBig::V64, DBig::V65, DBig::V66, DBig::V67, DBig::V68, DBig::V69, DBig::V70, DBig::V71, DBig::V72, DBig::V73, DBig::V74, DBig::V75, DBig::V76, DBig::V77, DBig::V78, DBig::V79, DBig::V80, DBig::V81, DBig::V82, DBig::V83, DBig::V84, DBig::V85, DBig::V86, DBig::V87, DBig::V88, DBig::V89, DBig::V90, DBig::V91, DBig::V92, DBig::V93, DBig::V94, DBig::V95, DBig::V96, DBig::V97, DBig::V98, DBig::V99, DBig::V100, DBig::V101, DBig::V102, DBig::V103, DBig::V104, DBig::V105, DBig::V106, DBig::V107, DBig::V108, DBig::V109, DBig::V110, DBig::V111, DBig::V112, DBig::V113, DBig::V114, DBig::V115, DBig::V116, DBig::V117, DBig::V118, DBig::V119, DBig::V120, DBig::V121, DBig::V122, DBig::V123, DBig::V124, DBig::V125, DBig::V126, DBig::V127, DBig::V128, DBig::V129, DBig::V130, DBig::V131, DBig::V132, DBig::V133, DBig::V134, DBig::V135, DBig::V136, DBig::V137, DBig::V138, DBig::V139, DBig::V140, DBig::V141, DBig::V142, DBig::V143, DBig::V144, DBig::V145, DBig::V146, DBig::V147, DBig::V148, DBig::V149, DBig::V150, DBig::V151, DBig::V152, DBig::V153, DBig::V154, DBig::V155, DBig::V156, DBig::V157, DBig::V158, DBig::V159, DBig::V160, DBig::V161, DBig::V162, DBig::V163, DBig::V164, DBig::V165, DBig::V166, DBig::V167, DBig::V168, DBig::V169, DBig::V170, DBig::V171, DBig::V172, DBig::V173, DBig::V174, DBig::V175, DBig::V176, DBig::V177, DBig::V178, DBig::V179, DBig::V180, DBig::V181, DBig::V182, DBig::V183, DBig::V184, DBig::V185, DBig::V186, DBig::V187, DBig::V188, DBig::V189, DBig::V190, DBig::V191, DBig::V192, DBig::V193, DBig::V194, DBig::V195, DBig::V196, DBig::V197, DBig::V198, DBig::V199, DBig::V200(0), DBig::V201, DBig::V202, DBig::V203, DBig::V204, DBig::V205, DBig::V206, DBig::V207, DBig::V208, DBig::V209, DBig::V210, DBig::V211, DBig::V212, DBig::V213, DBig::V214, DBig::V215, DBig::V216, DBig::V217, DBig::V218, DBig::V219, DBig::V220, DBig::V221, DBig::V222, DBig::V223, DBig::V224, DBig::V225, DBig::V226, DBig::V227, DBig::V228, DBig::V229, DBig::V230, DBig::V231, DBig::V232, DBig::V233, DBig::V234, DBig::V235, DBig::V236, DBig::V237, DBig::V238, DBig::V239, DBig::V240, DBig::V241, DBig::V242, DBig::V243, DBig::V244, DBig::V245, DBig::V246, DBig::V247, DBig::V248, DBig::V249, DBig::V250, DBig::V251, DBig::V252, DBig::V253, DBig::V254, DBig::V255, DBig::V256, DBig::V257, DBig::V258, DBig::V259, DBig::V260, DBig::V261, DBig::V262, DBig::V263, DBig::V264, DBig::V265, DBig::V266, DBig::V267, DBig::V268, DBig::V269, DBig::V270, DBig::V271, DBig::V272, DBig::V273, DBig::V274, DBig::V275, DBig::V276, DBig::V277, DBig::V278, DBig::V279, DBig::V280, DBig::V281, DBig::V282, DBig::V283, DBig::V284, DBig::V285, DBig::V286, DBig::V287, DBig::V288, DBig::V289, DBig::V290, DBig::V291, DBig::V292, DBig::V293, DBig::V294, DBig::V295, DBig::V296, DBig::V297, DBig::V298, DBig::V299 { x: 1 }] }

/// directed case (finding F5): a RangeInclusive iterated to exhaustion differs (==, is_empty, contains) from the fresh
/// range with the same bounds; std's own Hash feeds the `exhausted` flag, StableHash feeds start and end only
fn range_inclusive_exhausted() {
    let fresh = 3u32..=3;
    let mut used = 3u32..=3;
    let _ = used.next();
    assert!(fresh != used);
    all_distinct("RangeInclusive<u32>: fresh vs iterated to exhaustion (unequal values)", &[fresh, used]);
    let fresh = -2i64..=0;
    let mut used = -2i64..=0;
    while used.next().is_some() {}
    all_distinct("RangeInclusive<i64>: fresh vs drained (unequal values)", &[fresh, used]);
}

fn main() {
    {
        let args: Vec<String> = std::env::args().collect();
        if let Some(i) = args.iter().position(|a| a == "--only") {
            match args.get(i + 1).map(String::as_str) {
                Some("range_inclusive_exhausted") => { range_inclusive_exhausted(); report_none(unsafe { COUNT }); }
                other => panic!("unknown --only case {other:?}"),
            }
        }
    }
    let mut rng = Rng(seed_from_args() ^ 0xC13);
    // ---------- history-free
    for round in 0..200u64 {
        let n = (rng.next() % 40) as usize;
        let items: Vec<(u32, String)> = (0..n).map(|i| ((rng.next() % 1000) as u32 * 7 + i as u32 * 7919, format!("v{}", rng.next() % 50))).collect();
        let mut m1: HashMap<u32, String> = HashMap::new();
        let mut m2: HashMap<u32, String, BuildHasherDefault<std::collections::hash_map::DefaultHasher>> = HashMap::with_capacity_and_hasher(1024, Default::default());
        let mut m3: HashMap<u32, String> = HashMap::with_capacity(3);
        for (k, v) in &items { m1.insert(*k, v.clone()); }
        for (k, v) in items.iter().rev() { m2.insert(*k, v.clone()); }
        let mut sh = items.clone();
        for i in (1..sh.len()).rev() { let j = (rng.next() % (i as u64 + 1)) as usize; sh.swap(i, j); }
        // insert garbage then remove it again (tombstones / growth history)
        for g in 0..(round % 17) { m3.insert(5_000_000 + g as u32, "x".into()); }
        for (k, v) in &sh { m3.insert(*k, v.clone()); }
        for g in 0..(round % 17) { m3.remove(&(5_000_000 + g as u32)); }
        // later duplicates win in all three: rebuild canonical content
        let canon: BTreeMap<u32, String> = items.iter().cloned().collect();
        let fix = |m: &mut dyn FnMut(u32, String)| { for (k, v) in &canon { m(*k, v.clone()); } };
        fix(&mut |k, v| { m1.insert(k, v); }); fix(&mut |k, v| { m2.insert(k, v); }); fix(&mut |k, v| { m3.insert(k, v); });
        same("HashMap: insertion order / capacity / hasher state must not matter", &m1, &m2, &format!("{canon:?}"));
        same("HashMap: insertion order / capacity / hasher state must not matter", &m1, &m3, &format!("{canon:?}"));
        let s1: HashSet<u32> = canon.keys().cloned().collect();
        let mut s2: HashSet<u32> = HashSet::with_capacity(777);
        for k in canon.keys().rev() { s2.insert(*k); }
        same("HashSet: insertion order / capacity must not matter", &s1, &s2, &format!("{:?}", canon.keys()));
        let keys: Vec<u32> = canon.keys().cloned().collect();
        let b1: BinaryHeap<u32> = keys.iter().cloned().collect();
        let mut b2 = BinaryHeap::new();
        for k in keys.iter().rev() { b2.push(*k); }
        same("BinaryHeap: push order must not matter", &b1, &b2, &format!("{keys:?}"));
        let d1: dashmap::DashMap<u32, String> = canon.iter().map(|(k, v)| (*k, v.clone())).collect();
        let d2: dashmap::DashMap<u32, String> = dashmap::DashMap::with_capacity(512);
        for (k, v) in canon.iter().rev() { d2.insert(*k, v.clone()); }
        same("DashMap: insertion order / shard layout must not matter", &d1, &d2, &format!("{canon:?}"));
        // capacity, ownership, sharing
        let v1: Vec<u32> = keys.clone();
        let mut v2: Vec<u32> = Vec::with_capacity(4096); v2.extend_from_slice(&keys);
        same("Vec: capacity must not matter", &v1, &v2, &format!("{keys:?}"));
        same("Vec vs slice vs Box<[T]> vs Arc<[T]>", &v1, &keys[..], &format!("{keys:?}"));
        same("Vec vs Arc<[T]>", &v1, &Arc::<[u32]>::from(keys.clone()), &format!("{keys:?}"));
        {
            // a deque whose live region is physically split (wrapped ring buffer) must hash like the same elements in a Vec
            let mut d: VecDeque<u32> = VecDeque::with_capacity(8);
            for k in &keys { d.push_back(*k); }
            for _ in 0..(round % 5) { if let Some(f) = d.pop_front() { d.push_back(f); } }
            for _ in 0..(round % 3) { if let Some(l) = d.pop_back() { d.push_front(l); } }
            let lin: Vec<u32> = d.iter().cloned().collect();
            same("VecDeque: physical layout of the ring buffer must not matter", &d, &lin, &format!("{lin:?} (as_slices = {:?})", d.as_slices()));
            let d2: VecDeque<u32> = lin.iter().cloned().collect();
            same("VecDeque: two deques with equal content", &d, &d2, &format!("{lin:?}"));
        }
        {
            // optional features: SmallVec (inline vs spilled vs Vec), BitVec (aligned vs offset head, any storage type)
            use smallvec::SmallVec;
            use bitvec::prelude::*;
            let few: Vec<u32> = keys.iter().cloned().take(3).collect();
            let inl: SmallVec<[u32; 8]> = SmallVec::from_vec(few.clone());
            let spl: SmallVec<[u32; 1]> = SmallVec::from_vec(few.clone());
            same("SmallVec inline vs spilled", &inl, &spl, &format!("{few:?}"));
            same("SmallVec vs Vec", &inl, &few, &format!("{few:?}"));
            let bits: Vec<bool> = (0..(round % 70)).map(|i| (i * 7 + i / 3) % 3 != 0).collect();
            let mut b1: BitVec<u8, Lsb0> = BitVec::new();
            for b in &bits { b1.push(*b); }
            let mut pad: BitVec<u8, Lsb0> = bitvec![u8, Lsb0; 1, 0, 1];
            for b in &bits { pad.push(*b); }
            let b2: BitVec<u8, Lsb0> = pad[3..].to_bitvec();
            let mut b3 = pad.clone(); b3.drain(..3);
            same("BitVec: head offset must not matter", &b1, &b2, &format!("{bits:?}"));
            same("BitVec: drained prefix must not matter", &b1, &b3, &format!("{bits:?}"));
            let mut w: BitVec<u64, Msb0> = BitVec::new();
            for b in &bits { w.push(*b); }
            let mut w2: BitVec<u64, Msb0> = BitVec::with_capacity(4096);
            for b in &bits { w2.push(*b); }
            same("BitVec: capacity must not matter", &w, &w2, &format!("{bits:?}"));
        }
        let st = format!("s{round}");
        same("String vs &str vs Box<str> vs Arc<str>", &st, st.as_str(), &st);
        same("String vs Arc<str>", &st, &Arc::<str>::from(st.as_str()), &st);
        same("T vs Box<T> vs &T", &canon, &Box::new(canon.clone()), "btreemap");
        {
            // owned vs borrowed storage: Cow in both states, Rc, &mut -- all must hash like the value itself
            use std::borrow::Cow;
            let owned: Cow<'_, Vec<u32>> = Cow::Owned(keys.clone());
            let borrowed: Cow<'_, Vec<u32>> = Cow::Borrowed(&keys);
            same("Cow::Owned vs Cow::Borrowed", &owned, &borrowed, &format!("{keys:?}"));
            same("Cow::Borrowed vs the value itself", &borrowed, &keys, &format!("{keys:?}"));
            same("Cow::Owned vs the value itself", &owned, &keys, &format!("{keys:?}"));
            let cs_o: Cow<'_, String> = Cow::Owned(st.clone());
            let cs_b: Cow<'_, String> = Cow::Borrowed(&st);
            same("Cow<String> owned vs borrowed", &cs_o, &cs_b, &st);
            same("Cow<String> vs String", &cs_b, &st, &st);
            same("Rc<T> vs T", &std::rc::Rc::new(keys.clone()), &keys, &format!("{keys:?}"));
            let mut km = keys.clone();
            let expect = h(&keys);
            let r: &mut Vec<u32> = &mut km;
            let got = h(&r);
            if got != expect { report_found("&mut T vs T", &format!("{keys:?}"), &format!("{got:#x} vs {expect:#x}"), "equal hashes for equal values"); }
            // a Cow that went through a serialization round trip comes back Owned
            let plugin = qbice_serialize::Plugin::default();
            let bytes = qbice_serialize::postcard::encode(&borrowed, &plugin).unwrap();
            let back: Cow<'_, Vec<u32>> = qbice_serialize::postcard::decode(&bytes, &plugin).unwrap();
            same("hash preserved by a serialization round trip (Cow::Borrowed -> Owned)", &borrowed, &back, &format!("{keys:?}"));
        }
        // ---------- serialization round trip
        let plugin = qbice_serialize::Plugin::default();
        let bytes = qbice_serialize::postcard::encode(&m1, &plugin).unwrap();
        let back: HashMap<u32, String> = qbice_serialize::postcard::decode(&bytes, &plugin).unwrap();
        same("hash preserved by a serialization round trip (HashMap)", &m1, &back, &format!("{canon:?}"));
        let tup = (keys.clone(), Some(st.clone()), round as i64 - 100, [round as u8; 3]);
        let bytes = qbice_serialize::postcard::encode(&tup, &plugin).unwrap();
        let back: (Vec<u32>, Option<String>, i64, [u8; 3]) = qbice_serialize::postcard::decode(&bytes, &plugin).unwrap();
        same("hash preserved by a serialization round trip (tuple)", &tup, &back, "tuple");
    }
    same("f64 NaN payloads", &f64::from_bits(0x7ff8_0000_0000_0001), &f64::from_bits(0xfff8_dead_beef_0000), "two NaNs");
    // ---------- discriminating
    all_distinct("Vec<Vec<u8>> re-bracketing", &[vec![vec![1u8], vec![]], vec![vec![], vec![1u8]], vec![vec![1u8]], vec![vec![], vec![], vec![1u8]], vec![], vec![vec![]], vec![vec![], vec![]], vec![vec![0u8]], vec![vec![0u8, 0]], vec![vec![0u8], vec![0]]]);
    {
        // length-prefix traps around one-byte lengths: if short lengths were ever written in fewer bytes with an escape byte for
        // long ones, a length equal to the escape byte is ambiguous: a = (e bytes, 9 bytes) vs b = (n >= 256 bytes, empty)
        for e in [0xFFusize, 0xFE, 0xFD, 0x80, 0x7F] {
            for n in [256usize, 257, 300, 400] {
                if e < 16 || n <= e + 1 { continue; }
                let len2 = n - e + 8; // length of the second component of a
                if len2 >= e { continue; }
                let mut b1: Vec<u8> = (0..n).map(|i| (i % 251) as u8).collect();
                b1[e - 8] = len2 as u8;
                let b: (Vec<u8>, Vec<u8>) = (b1.clone(), Vec::new());
                let mut a1: Vec<u8> = n.to_le_bytes().to_vec();
                a1.extend_from_slice(&b1[..e - 8]);
                let mut a2: Vec<u8> = b1[e - 8 + 1..].to_vec();
                a2.push(0);
                let a: (Vec<u8>, Vec<u8>) = (a1, a2);
                all_distinct(&format!("(Vec<u8>,Vec<u8>) length {e} vs length {n} (length-prefix ambiguity)"), &[a, b]);
            }
        }
    }
    all_distinct("(String,String) boundary", &[("ab".to_string(), "c".to_string()), ("a".to_string(), "bc".to_string()), ("abc".to_string(), "".to_string()), ("".to_string(), "abc".to_string())]);
    all_distinct("Option nesting", &[None, Some(None), Some(Some(0u8)), Some(Some(1u8))]);
    all_distinct("Option<u8>", &[None, Some(0u8), Some(1u8)]);
    all_distinct("Result<u8,u8>", &[Ok::<u8, u8>(0), Err(0), Ok(1), Err(1)]);
    all_distinct("Vec<Option<u8>>", &[vec![], vec![None], vec![None, None], vec![Some(0u8)], vec![Some(0), None], vec![None, Some(0)]]);
    all_distinct("(u8,u16) vs order", &[(1u16, 2u16), (2, 1), (0x0102, 0), (0, 0x0102), (0x0100, 0x0200)]);
    all_distinct("[u8;N] as Vec", &[vec![0u8; 0], vec![0u8; 1], vec![0u8; 2], vec![0u8; 7], vec![0u8; 8], vec![0u8; 9], vec![1u8; 8]]);
    all_distinct("BTreeMap<u8,Vec<u8>>", &[BTreeMap::from([(1u8, vec![2u8]), (3, vec![])]), BTreeMap::from([(1u8, vec![]), (2, vec![3u8])]), BTreeMap::from([(1u8, vec![2u8, 3])]), BTreeMap::new()]);
    all_distinct("HashSet<u8> (as sorted content)", &[BTreeSet::from([1u8, 2]), BTreeSet::from([1u8]), BTreeSet::from([2u8]), BTreeSet::from([3u8]), BTreeSet::new(), BTreeSet::from([1u8, 2, 3])].iter().map(|s| s.iter().cloned().collect::<HashSet<u8>>()).collect::<Vec<_>>());
    all_distinct("HashMap<u8,u8> swapped key/value", &[HashMap::from([(1u8, 2u8)]), HashMap::from([(2u8, 1u8)]), HashMap::from([(1u8, 1u8), (2, 2)]), HashMap::from([(1u8, 2u8), (2, 1)])]);
    let mut ints: Vec<i64> = vec![0, 1, -1, i64::MAX, i64::MIN, 255, 256, 65535, 65536];
    for k in 0..62 { ints.push(1 << k); ints.push(-(1 << k)); ints.push((1 << k) + 1); }
    ints.sort(); ints.dedup();
    all_distinct("i64 values", &ints);
    all_distinct("LinkedList vs order", &[LinkedList::from_iter([1u8, 2]), LinkedList::from_iter([2u8, 1]), LinkedList::from_iter([1u8]), LinkedList::new()]);
    all_distinct("char / str", &["".to_string(), "\0".to_string(), "a".to_string(), "é".to_string(), "e\u{301}".to_string(), "aa".to_string()]);
    {
        use bitvec::prelude::*;
        let mk = |v: &[u8]| -> BitVec<u8, Lsb0> { v.iter().map(|x| *x != 0).collect() };
        all_distinct("BitVec content / length", &[mk(&[]), mk(&[0]), mk(&[1]), mk(&[0, 0]), mk(&[0, 1]), mk(&[1, 0]), mk(&[0; 8]), mk(&[0; 9]), mk(&[1, 0, 0, 0, 0, 0, 0, 0, 0])]);
        all_distinct("(BitVec,BitVec) boundary", &[(mk(&[1, 0]), mk(&[1])), (mk(&[1]), mk(&[0, 1])), (mk(&[1, 0, 1]), mk(&[])), (mk(&[]), mk(&[1, 0, 1]))]);
    }
    {
        // owned vs borrowed forms of path / OS / C strings; atomics vs the value they hold; wrappers
        use std::ffi::{CStr, CString, OsStr, OsString};
        use std::path::{Path, PathBuf};
        use std::sync::atomic::*;
        for t in ["", "a", "/usr/lib", "héllo/wörld", &"p".repeat(255), &"q".repeat(256)] {
            same("PathBuf vs Path", &PathBuf::from(t), Path::new(t), t);
            same("OsString vs OsStr", &OsString::from(t), OsStr::new(t), t);
            same("Box<Path> vs PathBuf", &PathBuf::from(t).into_boxed_path(), &PathBuf::from(t), t);
            if !t.contains('\0') { let c = CString::new(t).unwrap(); let r: &CStr = c.as_c_str(); same("CString vs CStr", &c, r, t); }
        }
        // neighbouring paths whose COMPONENTS concatenate to the same list but split differently; an empty path at different places
        all_distinct("Vec<PathBuf>: the split between neighbouring paths", &[
            vec![PathBuf::from("a/b"), PathBuf::from("c")], vec![PathBuf::from("a"), PathBuf::from("b/c")], vec![PathBuf::from("a/b/c")], vec![PathBuf::from("a"), PathBuf::from("b"), PathBuf::from("c")],
            vec![PathBuf::from(""), PathBuf::from("a/b/c")], vec![PathBuf::from("a/b/c"), PathBuf::from("")], vec![PathBuf::from("a/b"), PathBuf::from(""), PathBuf::from("c")]]);
        all_distinct("(PathBuf, PathBuf): the split between neighbouring paths", &[(PathBuf::from("x/y"), PathBuf::from("z")), (PathBuf::from("x"), PathBuf::from("y/z")), (PathBuf::from(""), PathBuf::from("x/y/z")), (PathBuf::from("x/y/z"), PathBuf::from(""))]);
        all_distinct("PathBuf values", &[PathBuf::from(""), PathBuf::from("a"), PathBuf::from("a/b"), PathBuf::from("a/b/"), PathBuf::from("/a/b"), PathBuf::from("ab")]);
        all_distinct("(PathBuf,PathBuf) boundary", &[(PathBuf::from("ab"), PathBuf::from("c")), (PathBuf::from("a"), PathBuf::from("bc")), (PathBuf::from("abc"), PathBuf::from("")), (PathBuf::from(""), PathBuf::from("abc"))]);
        all_distinct("(OsString,OsString) boundary", &[(OsString::from("ab"), OsString::from("c")), (OsString::from("a"), OsString::from("bc")), (OsString::from(""), OsString::from("abc"))]);
        all_distinct("(CString,CString) boundary", &[(CString::new("ab").unwrap(), CString::new("c").unwrap()), (CString::new("a").unwrap(), CString::new("bc").unwrap()), (CString::new("").unwrap(), CString::new("abc").unwrap())]);
        for x in [0u64, 1, 255, 256, u64::MAX, 1 << 40] {
            same("AtomicU64 vs u64", &AtomicU64::new(x), &x, &format!("{x}"));
            same("AtomicI32 vs i32", &AtomicI32::new(x as i32), &(x as i32), &format!("{}", x as i32));
            same("AtomicU8 vs u8", &AtomicU8::new(x as u8), &(x as u8), &format!("{}", x as u8));
            same("AtomicBool vs bool", &AtomicBool::new(x & 1 == 1), &(x & 1 == 1), &format!("{}", x & 1 == 1));
            same("AtomicUsize vs usize", &AtomicUsize::new(x as usize), &(x as usize), &format!("{x}"));
            same("AtomicI64 vs i64", &AtomicI64::new(x as i64), &(x as i64), &format!("{}", x as i64));
            same("AtomicU16 vs u16", &AtomicU16::new(x as u16), &(x as u16), &format!("{}", x as u16));
        }
    }
    all_distinct("Range<u8>", &[0u8..0, 0..1, 1..0, 1..1, 0..255, 255..0]);
    all_distinct("RangeInclusive<u8>", &[0u8..=0, 0..=1, 1..=0, 1..=1, 0..=255, 255..=0]);
    all_distinct("RangeFrom / RangeTo as pairs", &[(1u8.., ..2u8), (2u8.., ..1u8), (0u8.., ..0u8), (1u8.., ..1u8)]);
    all_distinct("RangeToInclusive<u16>", &[..=0u16, ..=1, ..=255, ..=256, ..=65535]);
    all_distinct("(Range<u8>,Range<u8>) boundary", &[(0u8..1, 2u8..3), (0u8..2, 1u8..3), (0u8..1, 3u8..2)]);
    all_distinct("NonZeroU32", &[std::num::NonZeroU32::new(1).unwrap(), std::num::NonZeroU32::new(2).unwrap(), std::num::NonZeroU32::new(256).unwrap(), std::num::NonZeroU32::new(1 << 24).unwrap(), std::num::NonZeroU32::MAX]);
    all_distinct("NonZeroI64", &[std::num::NonZeroI64::new(1).unwrap(), std::num::NonZeroI64::new(-1).unwrap(), std::num::NonZeroI64::MIN, std::num::NonZeroI64::MAX, std::num::NonZeroI64::new(1 << 32).unwrap()]);
    all_distinct("[u8;4]", &[[0u8, 0, 0, 0], [1, 0, 0, 0], [0, 1, 0, 0], [0, 0, 1, 0], [0, 0, 0, 1], [1, 1, 0, 0]]);
    all_distinct("[[u8;2];2] vs order", &[[[1u8, 2], [3, 4]], [[1, 2], [4, 3]], [[2, 1], [3, 4]], [[3, 4], [1, 2]]]);
    all_distinct("3-tuples vs order", &[(1u8, 2u16, 3u32), (1, 3, 2), (2, 1, 3), (3, 2, 1), (0, 0x0102, 3), (1, 2, 0x0003_0000)]);
    all_distinct("u128 halves", &[1u128, 1 << 64, (1 << 64) | 1, u128::MAX, u128::MAX - 1, 1 << 127]);
    all_distinct("f32", &[0.0f32, 1.0, -1.0, f32::INFINITY, f32::NEG_INFINITY, f32::MIN_POSITIVE, f32::MAX, f32::MIN]);
    all_distinct("f64", &[0.0f64, 1.0, -1.0, f64::INFINITY, f64::NEG_INFINITY, f64::MIN_POSITIVE, f64::MAX, f64::MIN]);
    all_distinct("char", &['\0', 'a', 'b', '\u{7f}', '\u{80}', '\u{ffff}', '\u{10000}', '\u{10ffff}']);
    all_distinct("BTreeSet<u8>", &[BTreeSet::from([1u8, 2]), BTreeSet::from([1u8]), BTreeSet::from([2u8]), BTreeSet::new(), BTreeSet::from([1u8, 2, 3]), BTreeSet::from([12u8])]);
    all_distinct("VecDeque<u8> content", &[VecDeque::from(vec![1u8, 2]), VecDeque::from(vec![2u8, 1]), VecDeque::from(vec![1u8]), VecDeque::new(), VecDeque::from(vec![1u8, 2, 0])]);
    all_distinct("BinaryHeap<u8> content", &[BinaryHeap::from(vec![1u8, 2]), BinaryHeap::from(vec![1u8]), BinaryHeap::from(vec![2u8]), BinaryHeap::new(), BinaryHeap::from(vec![1u8, 1])].iter().map(|h| { let mut v = h.clone().into_sorted_vec(); v.sort(); (h.clone(), v) }).map(|(h, _)| h.into_sorted_vec()).collect::<Vec<_>>());
    all_distinct("Box<[u8]> / empty slices next to non-empty ones", &[(vec![].into_boxed_slice(), vec![5u8].into_boxed_slice()), (vec![5u8].into_boxed_slice(), vec![].into_boxed_slice()), (vec![].into_boxed_slice(), vec![].into_boxed_slice()), (vec![5u8, 5].into_boxed_slice(), vec![].into_boxed_slice())]);
    all_distinct("derived enum: every variant kind, equal payloads", &[DShape::Rect { w: 3, h: 4 }, DShape::Ellipse { a: 3, b: 4 }, DShape::Pt(3, 4), DShape::Pair(3, 4),
        DShape::Rect { w: 4, h: 3 }, DShape::U1, DShape::U2, DShape::One(3), DShape::Wide { v: 3 }, DShape::Pt(0, 0), DShape::Rect { w: 0, h: 0 }]);
    all_distinct("derived structs: field order", &[DNamed { a: 1, b: 2 }, DNamed { a: 2, b: 1 }, DNamed { a: 0x0201, b: 0 }, DNamed { a: 0, b: 0x0102 }]);
    all_distinct("derived tuple struct", &[DTuple(1, 2), DTuple(2, 1), DTuple(0, 0)]);
    all_distinct("derived generic enum", &[DGen::<u8, u8>::L(1), DGen::R(1), DGen::Both { l: 1, r: 1 }, DGen::N, DGen::Both { l: 0, r: 1 }, DGen::Both { l: 1, r: 0 }]);
    all_distinct("Vec<derived enum>", &[vec![DShape::U1, DShape::U2], vec![DShape::U2, DShape::U1], vec![DShape::U1], vec![DShape::U1, DShape::U1]]);
    // unordered maps: the PAIRING of keys and values matters, not only the two multisets
    all_distinct("DashMap<u8,u8> pairing", &[dashmap::DashMap::<u8, u8>::from_iter([(1, 2)]), dashmap::DashMap::from_iter([(2, 1)]), dashmap::DashMap::from_iter([(1, 1), (2, 2)]), dashmap::DashMap::from_iter([(1, 2), (2, 1)]), dashmap::DashMap::from_iter([(1, 1)]), dashmap::DashMap::new()].iter().map(|m| { let mut v: Vec<(u8, u8)> = m.iter().map(|e| (*e.key(), *e.value())).collect(); v.sort(); (v, h(m)) }).map(|(v, _)| v).collect::<Vec<_>>().iter().map(|v| v.iter().cloned().collect::<dashmap::DashMap<u8, u8>>()).map(DebugDash).collect::<Vec<_>>());
    all_distinct("DashMap<String,String> pairing", &[DebugDash(dashmap::DashMap::from_iter([("a".to_string(), "1".to_string()), ("b".to_string(), "2".to_string())])), DebugDash(dashmap::DashMap::from_iter([("a".to_string(), "2".to_string()), ("b".to_string(), "1".to_string())]))]);
    all_distinct("HashMap<String,String> pairing", &[HashMap::from([("a".to_string(), "1".to_string()), ("b".to_string(), "2".to_string())]), HashMap::from([("a".to_string(), "2".to_string()), ("b".to_string(), "1".to_string())])]);
    all_distinct("BTreeMap<u8,u8> pairing", &[BTreeMap::from([(1u8, 2u8), (2, 1)]), BTreeMap::from([(1u8, 1u8), (2, 2)]), BTreeMap::from([(1u8, 2u8)]), BTreeMap::from([(2u8, 1u8)])]);
    all_distinct("DashSet<u8> content", &[[1u8, 2].into_iter().collect::<dashmap::DashSet<u8>>(), [1u8].into_iter().collect(), [2u8].into_iter().collect(), [3u8].into_iter().collect(), dashmap::DashSet::new()].into_iter().map(DebugDashSet).collect::<Vec<_>>());
    all_distinct("bool tuples", &[(true, false), (false, true), (true, true), (false, false)]);
    all_distinct("Range vs RangeInclusive fields", &[(1u8..2).start as u16 * 256 + 2, 0x0201]);
    all_distinct("Duration", &[std::time::Duration::new(1, 0), std::time::Duration::new(0, 1), std::time::Duration::new(0, 0), std::time::Duration::new(1, 1)]);
    {
        // the whole range of Duration: around 2^32 s, around 2^64 ns (~584 years), up to Duration::MAX; (secs, nanos) swapped
        use std::time::Duration as D;
        let ns64 = (u64::MAX / 1_000_000_000, (u64::MAX % 1_000_000_000) as u32);
        all_distinct("Duration: large values", &[D::new(ns64.0, ns64.1), D::new(ns64.0, ns64.1 + 1), D::new(ns64.0, ns64.1 - 1), D::new(ns64.0 + 1, 0), D::new(ns64.0 * 2, 0),
            D::MAX, D::new(u64::MAX, 0), D::new(u64::MAX, 999_999_998), D::new(u64::MAX - 1, 999_999_999), D::new(1 << 32, 0), D::new((1 << 32) - 1, 999_999_999),
            D::new(999_999_999, 1), D::new(1, 999_999_999), D::new(0, 999_999_999), D::new(999_999_999, 0), D::new(1 << 63, 0), D::new(1 << 63, 1)]);
    }
    {
        // a derived enum with 300 variants, unit and data-carrying ones mixed, equal payloads under different variants
        let mut vals: Vec<DBig> = dbig_all();
        vals.extend([DBig::V7(1), DBig::V7(2), DBig::V200(1), DBig::V200(2), DBig::V299 { x: 0 }, DBig::V299 { x: 7 }]);
        all_distinct("derived enum with 300 variants (unit and data variants mixed)", &vals);
        all_distinct("derived enum, mixed: payload must be hashed", &[DMixed::Unit, DMixed::Number(1), DMixed::Number(2), DMixed::Text("1".into()), DMixed::Pair { a: 1, b: 2 }, DMixed::Pair { a: 2, b: 1 }, DMixed::Other]);
    }
    {
        use derive_fix as _;
    }
    println!("DIGEST {:#034x} hashes={}", unsafe { DIGEST }, unsafe { COUNT });
    report_none(unsafe { COUNT });
}
