//! shared helpers of the replay / witness-search drivers (they run the REAL crates from /repo)
pub fn json_escape(s: &str) -> String {
    let mut o = String::new();
    for c in s.chars() {
        match c {
            '"' => o.push_str("\\\""),
            '\\' => o.push_str("\\\\"),
            '\n' => o.push_str("\\n"),
            c if (c as u32) < 0x20 => o.push_str(&format!("\\u{:04x}", c as u32)),
            c => o.push(c),
        }
    }
    o
}

pub fn report_found(kind: &str, input: &str, observed: &str, expected: &str) -> ! {
    println!(
        "{{\"found\": true, \"case\": \"{}\", \"input\": \"{}\", \"observed\": \"{}\", \"expected\": \"{}\"}}",
        json_escape(kind), json_escape(input), json_escape(observed), json_escape(expected)
    );
    std::process::exit(1)
}

pub fn report_none(searched: u64) -> ! {
    println!("{{\"found\": false, \"searched\": {searched}}}");
    std::process::exit(0)
}

/// xorshift, seeded
pub struct Rng(pub u64);
impl Rng {
    pub fn next(&mut self) -> u64 {
        let mut x = self.0 | 1;
        x ^= x << 13;
        x ^= x >> 7;
        x ^= x << 17;
        self.0 = x;
        x
    }
}

pub fn seed_from_args() -> u64 {
    let a: Vec<String> = std::env::args().collect();
    for i in 0..a.len() {
        if a[i] == "--seed" && i + 1 < a.len() {
            return a[i + 1].parse().unwrap_or(0);
        }
    }
    0
}
pub mod mockdb;
