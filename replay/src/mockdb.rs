//! An in-memory, recording `KvDatabase` used by the witness-search drivers: it implements the REAL
//! storage traits of qbice_storage, applies committed batches atomically to a map, records every
//! physical commit, and lets the driver choose the grouping policy (`should_write_more`) and inject
//! delays into serialization so that serializer threads overtake each other.
use std::{
    collections::BTreeMap,
    sync::{Arc, Mutex, atomic::{AtomicU64, AtomicUsize, Ordering}},
};

use qbice_serialize::{Decode, Encode, Plugin};
use qbice_stable_type_id::Identifiable;
use qbice_storage::kv_database::{
    DiscriminantEncoding, KeyOfSetColumn, KvDatabase, SerializationBuffer, WideColumn, WideColumnValue, WriteBatch,
};

/// one logical store operation; keys are (column type id, encoded key [, encoded discriminant / element])
#[derive(Debug, Clone, PartialEq, Eq, PartialOrd, Ord)]
pub enum Op {
    Put(Vec<u8>, Vec<u8>),
    Del(Vec<u8>),
    Ins(Vec<u8>, Vec<u8>),
    Rem(Vec<u8>, Vec<u8>),
}

#[derive(Default)]
pub struct Shared {
    pub wide: Mutex<BTreeMap<Vec<u8>, Vec<u8>>>,
    pub sets: Mutex<BTreeMap<Vec<u8>, std::collections::BTreeSet<Vec<u8>>>>,
    /// every physical commit in the order it was applied
    pub commits: Mutex<Vec<Vec<Op>>>,
    /// grouping policy: a physical batch wants more while it holds fewer than this many operations (0 = never)
    pub group_ops: AtomicUsize,
    /// pseudo random delay source for serialization buffers
    pub delay_seed: AtomicU64,
    pub delay_mod: AtomicU64,
    pub gets: AtomicUsize,
    pub scans: AtomicUsize,
    /// directed reordering: a `put` of exactly this encoded value waits until `puts_done >= stall_until` (or 1 s)
    pub stall_value: Mutex<Option<Vec<u8>>>,
    pub stall_until: AtomicUsize,
    pub puts_done: AtomicUsize,
    /// directed race: a point read of exactly this encoded key takes its value, then reports `gate_reached` and waits for
    /// `gate_release` (or 3 s) before it returns -- "a cache-miss load that has read the store but not yet installed the value"
    pub read_gate: Mutex<Option<Vec<u8>>>,
    /// the same for a member scan of exactly this encoded set key (the scan takes its result, then waits)
    pub scan_gate: Mutex<Option<Vec<u8>>>,
    /// while set, physical commits wait (up to 5 s): "the background writer has not got to this batch yet"
    pub commit_hold: std::sync::atomic::AtomicBool,
    pub gate_reached: std::sync::atomic::AtomicBool,
    pub gate_release: std::sync::atomic::AtomicBool,
}

#[derive(Clone, Default)]
pub struct MockDb(pub Arc<Shared>);

fn enc<T: Encode>(v: &T) -> Vec<u8> { qbice_serialize::postcard::encode(v, &Plugin::default()).expect("encode") }
fn dec<T: Decode>(b: &[u8]) -> T { qbice_serialize::postcard::decode(b, &Plugin::default()).expect("decode") }

pub fn wide_key<W: WideColumn, C: WideColumnValue<W>>(key: &W::Key) -> Vec<u8> {
    let mut k = enc(&W::STABLE_TYPE_ID.as_u128());
    let kb = enc(key);
    k.extend_from_slice(&(kb.len() as u64).to_le_bytes());
    k.extend_from_slice(&kb);
    let _ = W::discriminant_encoding() == DiscriminantEncoding::Prefixed;
    k.extend_from_slice(&enc(&C::discriminant()));
    k
}
pub fn set_key<C: KeyOfSetColumn>(key: &C::Key) -> Vec<u8> {
    let mut k = enc(&C::STABLE_TYPE_ID.as_u128());
    k.extend_from_slice(&enc(key));
    k
}

pub struct MockSerBuf { pub ops: Vec<Op>, db: MockDb }
pub struct MockBatch { pub ops: Vec<Op>, db: MockDb }

impl MockDb {
    fn maybe_delay(&self) {
        let m = self.0.delay_mod.load(Ordering::Relaxed);
        if m == 0 { return; }
        let mut x = self.0.delay_seed.fetch_add(0x9E3779B97F4A7C15, Ordering::Relaxed) | 1;
        x ^= x << 13; x ^= x >> 7; x ^= x << 17;
        let us = x % m;
        if us > 0 { std::thread::sleep(std::time::Duration::from_micros(us)); }
    }
}

impl SerializationBuffer for MockSerBuf {
    fn put<W: WideColumn, C: WideColumnValue<W>>(&mut self, key: &W::Key, value: &C) {
        self.db.maybe_delay();
        let v = enc(value);
        let stall = self.db.0.stall_value.lock().unwrap().as_ref() == Some(&v);
        if stall {
            let t0 = std::time::Instant::now();
            while self.db.0.puts_done.load(Ordering::SeqCst) < self.db.0.stall_until.load(Ordering::SeqCst)
                && t0.elapsed() < std::time::Duration::from_secs(1) {
                std::thread::sleep(std::time::Duration::from_millis(1));
            }
            // let the overtakers travel to the committer
            std::thread::sleep(std::time::Duration::from_millis(30));
        }
        self.ops.push(Op::Put(wide_key::<W, C>(key), v));
        if !stall { self.db.0.puts_done.fetch_add(1, Ordering::SeqCst); }
    }
    fn delete<W: WideColumn, C: WideColumnValue<W>>(&mut self, key: &W::Key) {
        self.ops.push(Op::Del(wide_key::<W, C>(key)));
    }
    fn insert_member<C: KeyOfSetColumn>(&mut self, key: &C::Key, value: &C::Element) {
        self.db.maybe_delay();
        self.ops.push(Op::Ins(set_key::<C>(key), enc(value)));
    }
    fn delete_member<C: KeyOfSetColumn>(&mut self, key: &C::Key, value: &C::Element) {
        self.ops.push(Op::Rem(set_key::<C>(key), enc(value)));
    }
}

impl WriteBatch for MockBatch {
    type SerializationBuffer = MockSerBuf;
    fn put<W: WideColumn, C: WideColumnValue<W>>(&mut self, key: &W::Key, value: &C) {
        self.ops.push(Op::Put(wide_key::<W, C>(key), enc(value)));
    }
    fn delete<W: WideColumn, C: WideColumnValue<W>>(&mut self, key: &W::Key) {
        self.ops.push(Op::Del(wide_key::<W, C>(key)));
    }
    fn insert_member<C: KeyOfSetColumn>(&mut self, key: &C::Key, value: &C::Element) {
        self.ops.push(Op::Ins(set_key::<C>(key), enc(value)));
    }
    fn delete_member<C: KeyOfSetColumn>(&mut self, key: &C::Key, value: &C::Element) {
        self.ops.push(Op::Rem(set_key::<C>(key), enc(value)));
    }
    fn consume_serialization_buffer(&mut self, mut buffer: MockSerBuf) {
        // a marker separates logical batches inside a physical one (lets the driver see the grouping)
        self.ops.push(Op::Del(b"\0batch-boundary".to_vec()));
        self.ops.append(&mut buffer.ops);
    }
    fn commit(self) {
        {
            let t0 = std::time::Instant::now();
            while self.db.0.commit_hold.load(Ordering::SeqCst) && t0.elapsed() < std::time::Duration::from_secs(5) { std::thread::yield_now(); }
        }
        let mut wide = self.db.0.wide.lock().unwrap();
        let mut sets = self.db.0.sets.lock().unwrap();
        for op in &self.ops {
            match op {
                Op::Put(k, v) => { wide.insert(k.clone(), v.clone()); }
                Op::Del(k) => { wide.remove(k); }
                Op::Ins(k, e) => { sets.entry(k.clone()).or_default().insert(e.clone()); }
                Op::Rem(k, e) => { if let Some(s) = sets.get_mut(k) { s.remove(e); } }
            }
        }
        self.db.0.commits.lock().unwrap().push(self.ops);
    }
    fn should_write_more(&self) -> bool {
        let g = self.db.0.group_ops.load(Ordering::Relaxed);
        g != 0 && self.ops.len() < g
    }
}

impl KvDatabase for MockDb {
    type WriteBatch = MockBatch;
    type SerializationBuffer = MockSerBuf;
    type ScanMemberIterator<C: KeyOfSetColumn> = std::vec::IntoIter<C::Element>;

    fn get_wide_column<W: WideColumn, C: WideColumnValue<W>>(&self, key: &W::Key) -> Option<C> {
        self.0.gets.fetch_add(1, Ordering::Relaxed);
        let wk = wide_key::<W, C>(key);
        let got = self.0.wide.lock().unwrap().get(&wk).map(|b| dec::<C>(b));
        let gated = self.0.read_gate.lock().unwrap().as_ref() == Some(&wk);
        if gated {
            self.0.gate_reached.store(true, Ordering::SeqCst);
            let t0 = std::time::Instant::now();
            while !self.0.gate_release.load(Ordering::SeqCst) && t0.elapsed() < std::time::Duration::from_secs(3) { std::thread::yield_now(); }
        }
        got
    }
    fn scan_members<C: KeyOfSetColumn>(&self, key: &C::Key) -> Self::ScanMemberIterator<C> {
        self.0.scans.fetch_add(1, Ordering::Relaxed);
        let sk = set_key::<C>(key);
        let v: Vec<C::Element> = self.0.sets.lock().unwrap().get(&sk).map(|s| s.iter().map(|b| dec::<C::Element>(b)).collect()).unwrap_or_default();
        let gated = self.0.scan_gate.lock().unwrap().as_ref() == Some(&sk);
        if gated {
            *self.0.scan_gate.lock().unwrap() = None;       // one scan only
            self.0.gate_reached.store(true, Ordering::SeqCst);
            let t0 = std::time::Instant::now();
            while !self.0.gate_release.load(Ordering::SeqCst) && t0.elapsed() < std::time::Duration::from_secs(5) { std::thread::yield_now(); }
        }
        v.into_iter()
    }
    fn write_batch(&self) -> MockBatch { MockBatch { ops: Vec::new(), db: self.clone() } }
    fn serialization_buffer(&self) -> MockSerBuf { MockSerBuf { ops: Vec::new(), db: self.clone() } }
}

pub fn identifiable_marker<T: Identifiable>() -> u128 { T::STABLE_TYPE_ID.as_u128() }
