// Included into crates/storage/src/tiny_lfu/lru.rs by the guarded hook line (cfg(kani) or cfg(qbice_verif)).
// As a child module it can see the private `LruList`, `Node`, `Lru` of the real code. Nothing here is compiled
// in a normal build.

use super::*;

/// observe the REAL list of one region from head to tail, checking the pointer discipline on the way:
/// head.prev == None, next/prev are mutual inverses, the last node is `tails[r]`, length == lens[r].
fn walk<K: Clone>(list: &LruList<K>, r: Region, max: usize) -> Option<Vec<K>> {
    let ri = r as usize;
    let mut out = Vec::new();
    let mut cur = list.heads[ri];
    let mut prev: Option<NonNull<Node<K>>> = None;
    let mut steps = 0;
    while let Some(p) = cur {
        if steps > max { return None; } // cycle
        let node = unsafe { p.as_ref() };
        if node.prev != prev { return None; }
        out.push(node.key.clone());
        prev = cur;
        cur = node.next;
        steps += 1;
    }
    if list.tails[ri] != prev { return None; }
    if list.lens[ri] != out.len() { return None; }
    Some(out)
}

fn region_of(i: u8) -> Region {
    match i % 4 { 0 => Region::Window, 1 => Region::Probation, 2 => Region::Protected, _ => Region::Pinned }
}

// (A Kani harness over LruList -- 5 symbolic operations on 4 nodes with a Vec model -- exhausted memory after 13 minutes;
// the pointer discipline is instead checked by `walk` inside the exhaustive native conformance run below, and that run is
// executed under Miri in the thorough tier to catch use-after-free / double free / leaks in the unsafe code.)

// ------------------------------------------------------------------------------------------------ native conformance run (bounded, exhaustive)
/// Checks the REAL `Lru<u8>` against the abstract contract that the Verus proof of `Policy` assumes
/// (specs/c16_policy.rs): every clause of every method is evaluated after every call, over ALL sequences of
/// `depth` operations on a universe of 3 keys. Returns Err(description of the first violated clause).
#[cfg(qbice_verif)]
pub mod conformance {
    use super::*;

    type Seqs = [Vec<u8>; 4];

    fn observe(l: &Lru<u8>) -> Result<Seqs, String> {
        let mut s: Seqs = [Vec::new(), Vec::new(), Vec::new(), Vec::new()];
        for r in 0..4u8 {
            s[r as usize] = walk(&l.list, region_of(r), 64).ok_or_else(|| format!("pointer discipline broken in region {r}"))?;
        }
        // map agrees with the list
        let n: usize = s.iter().map(|v| v.len()).sum();
        if l.map.len() != n { return Err(format!("map has {} keys, lists hold {n}", l.map.len())); }
        for r in 0..4u8 { for k in &s[r as usize] {
            match l.map.get(k) { Some((_, reg)) if *reg as u8 == r => {}, _ => return Err(format!("key {k} of region {r} not mapped to that region")) }
        } }
        Ok(s)
    }
    fn wf(s: &Seqs) -> bool {
        let mut seen = std::collections::BTreeSet::new();
        for r in s { for k in r { if !seen.insert(*k) { return false; } } }
        true
    }
    fn tracks(s: &Seqs, k: u8) -> bool { s.iter().any(|r| r.contains(&k)) }
    fn push_front(v: &Vec<u8>, k: u8) -> Vec<u8> { let mut o = vec![k]; o.extend_from_slice(v); o }
    fn drop_last(v: &Vec<u8>) -> Vec<u8> { v[..v.len() - 1].to_vec() }
    fn without(v: &Vec<u8>, k: u8) -> Vec<u8> { v.iter().cloned().filter(|x| *x != k).collect() }

    /// one operation: apply to the real Lru, evaluate the contract clauses against before/after observations
    fn step(l: &mut Lru<u8>, op: u8, k: u8, r1: u8, r2: u8, cap: usize) -> Result<bool, String> {
        let old = observe(l)?;
        if !wf(&old) { return Err("wf lost".into()); }
        let (ra, rb) = (region_of(r1), region_of(r2));
        let (ia, ib) = (r1 as usize % 4, r2 as usize % 4);
        macro_rules! clause { ($c:expr, $($m:tt)*) => { if !($c) { return Err(format!($($m)*)); } } }
        match op {
            0 => { // hit
                let r = l.hit(&k, cap);
                let new = observe(l)?;
                clause!(wf(&new), "hit: wf");
                clause!(r == tracks(&old, k), "hit: result == tracked before");
                for q in 0..3u8 { clause!(tracks(&new, q) == tracks(&old, q), "hit: tracked set changed for key {q}"); }
                clause!(new[3] == old[3], "hit: pinned region changed");
                clause!(new[0].len() == old[0].len(), "hit: window length changed");
                clause!(new[1].len() + new[2].len() == old[1].len() + old[2].len(), "hit: probation+protected length changed");
                clause!(!(old[2].len() <= cap) || new[2].len() <= cap, "hit: protected exceeds its capacity");
                clause!(r || new == old, "hit: miss changed the lists");
            }
            1 => { // new_entry (precondition: not tracked)
                if tracks(&old, k) { return Ok(false); }
                l.new_entry(k, ra);
                let new = observe(l)?;
                clause!(wf(&new), "new_entry: wf");
                clause!(new[ia] == push_front(&old[ia], k), "new_entry: region {ia} != push_front");
                for q in 0..4 { if q != ia { clause!(new[q] == old[q], "new_entry: other region {q} changed"); } }
            }
            2 => { // lens + peek
                clause!(l.window_len() == old[0].len() && l.probation_len() == old[1].len() && l.protected_len() == old[2].len() && l.pinned_len() == old[3].len(), "len accessors");
                let p = l.peek_least_recent(ra).copied();
                clause!(p == old[ia].last().copied(), "peek_least_recent != last of region {ia}");
            }
            3 => { // pop_least_recent
                let r = l.pop_least_recent(ra);
                let new = observe(l)?;
                clause!(wf(&new), "pop: wf");
                clause!(r.is_none() == old[ia].is_empty(), "pop: None iff empty");
                if let Some(x) = r { clause!(Some(&x) == old[ia].last() && new[ia] == drop_last(&old[ia]), "pop: not the tail / region != drop_last"); }
                else { clause!(new[ia] == old[ia], "pop: empty region changed"); }
                for q in 0..4 { if q != ia { clause!(new[q] == old[q], "pop: other region {q} changed"); } }
            }
            4 => { // move_least_recent_of_to_new_region (precondition from != to)
                if ia == ib { return Ok(false); }
                l.move_least_recent_of_to_new_region(ra, rb);
                let new = observe(l)?;
                clause!(wf(&new), "move_least_recent: wf");
                if old[ia].is_empty() { clause!(new == old, "move_least_recent: empty source changed something"); }
                else {
                    clause!(new[ia] == drop_last(&old[ia]), "move_least_recent: source != drop_last");
                    clause!(new[ib] == push_front(&old[ib], *old[ia].last().unwrap()), "move_least_recent: target != push_front(tail)");
                }
                for q in 0..4 { if q != ia && q != ib { clause!(new[q] == old[q], "move_least_recent: other region {q} changed"); } }
            }
            5 => { // remove
                let r = l.remove(&k);
                let new = observe(l)?;
                clause!(wf(&new), "remove: wf");
                clause!(r.is_some() == tracks(&old, k), "remove: Some iff tracked");
                clause!(!tracks(&new, k), "remove: still tracked");
                for q in 0..4 { clause!(new[q] == without(&old[q], k), "remove: region {q} != old without key"); }
            }
            6 => { // check_is_in_region
                clause!(l.check_is_in_region(&k, ra) == old[ia].contains(&k), "check_is_in_region");
            }
            7 => { // shuffle_tail_to_head
                l.shuffle_tail_to_head(ra);
                let new = observe(l)?;
                clause!(wf(&new), "shuffle: wf");
                if old[ia].is_empty() { clause!(new[ia] == old[ia], "shuffle: empty region changed"); }
                else { clause!(new[ia] == push_front(&drop_last(&old[ia]), *old[ia].last().unwrap()), "shuffle_tail_to_head: region {ia} != tail moved to head"); }
                for q in 0..4 { if q != ia { clause!(new[q] == old[q], "shuffle: other region {q} changed"); } }
            }
            _ => { // move_key_to_head_of_region (precondition: tracked and not already there)
                if !tracks(&old, k) || old[ia].contains(&k) { return Ok(false); }
                l.move_key_to_head_of_region(&k, ra);
                let new = observe(l)?;
                clause!(wf(&new), "move_key: wf");
                clause!(new[ia] == push_front(&old[ia], k), "move_key: target != push_front");
                for q in 0..4 { if q != ia { clause!(new[q] == without(&old[q], k), "move_key: region {q} != old without key"); } }
            }
        }
        Ok(true)
    }

    /// exhaustive over all sequences of `depth` operations (9 kinds x 3 keys x 4 x 4 regions, capacity in {0,1})
    pub fn run(depth: usize) -> Result<u64, String> {
        let mut count = 0u64;
        let mut ops: Vec<(u8, u8, u8, u8)> = Vec::new();
        for op in 0..9u8 { for k in 0..3u8 { for r1 in 0..4u8 {
            let r2s: &[u8] = if op == 4 { &[0, 1, 2, 3] } else { &[0] };
            for r2 in r2s {
                // prune parameters that an operation ignores
                if matches!(op, 2 | 3 | 7) && k != 0 { continue; }
                if matches!(op, 0 | 5) && r1 != 0 { continue; }
                ops.push((op, k, r1, *r2));
            }
        } } }
        fn rec(prefix: &mut Vec<(u8, u8, u8, u8)>, ops: &[(u8, u8, u8, u8)], depth: usize, count: &mut u64, cap: usize) -> Result<(), String> {
            // replay the prefix on a fresh Lru (keeps the harness simple and allocation-safe)
            let mut l: Lru<u8> = Lru::new();
            for (i, (op, k, r1, r2)) in prefix.iter().enumerate() {
                match step(&mut l, *op, *k, *r1, *r2, cap) {
                    Ok(_) => {}
                    Err(e) => return Err(format!("{e} after ops {:?} (op,key,region,region2; capacity {cap}) at index {i}", prefix)),
                }
            }
            *count += 1;
            if prefix.len() == depth { return Ok(()); }
            for o in ops {
                prefix.push(*o);
                rec(prefix, ops, depth, count, cap)?;
                prefix.pop();
            }
            Ok(())
        }
        for cap in [0usize, 1] {
            let mut prefix = Vec::new();
            rec(&mut prefix, &ops, depth, &mut count, cap)?;
        }
        Ok(count)
    }

    #[cfg(test)]
    #[test]
    fn verif_lru_conformance() {
        let depth: usize = std::env::var("VERIF_LRU_DEPTH").ok().and_then(|s| s.parse().ok()).unwrap_or(3);
        match run(depth) {
            Ok(n) => println!("VERIF-LRU-CONFORMANCE ok sequences={n} depth={depth}"),
            Err(e) => { println!("VERIF-LRU-CONFORMANCE VIOLATION {e}"); panic!("{e}"); }
        }
    }
}
