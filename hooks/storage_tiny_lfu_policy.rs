// Included into crates/storage/src/tiny_lfu/policy.rs by the guarded hook line (cfg(kani) or cfg(qbice_verif)).
// `Policy::new` computes the region capacities with f64 arithmetic (outside Verus); the Policy proof takes the relations
// between them as the representation invariant. This bounded run evaluates the REAL constructor and checks exactly the
// capacity clauses of `Policy::inv()` (specs/c16_policy.rs) plus the slack the bound of the property allows.

use super::*;

#[cfg(test)]
mod conformance {
    use super::*;

    fn check(capacity: usize) -> Result<(), String> {
        let p: Policy<u64> = Policy::new(capacity);
        let (w, pr, mx) = (p.window_capacity, p.protected_capacity, p.max_capacity);
        if w > mx { return Err(format!("capacity {capacity}: window_capacity {w} > max_capacity {mx}")); }
        let main_limit = mx - w;
        if !(pr < main_limit) { return Err(format!("capacity {capacity}: protected_capacity {pr} is not below the main limit {main_limit} (no room for probation)")); }
        if mx < capacity { return Err(format!("capacity {capacity}: max_capacity {mx} is below the configured capacity")); }
        if mx > capacity + 2 { return Err(format!("capacity {capacity}: max_capacity {mx} exceeds the configured capacity by more than the fixed slack 2")); }
        if capacity >= 100 && w * 50 > capacity { return Err(format!("capacity {capacity}: window_capacity {w} is more than 2% of the capacity")); }
        Ok(())
    }

    #[test]
    fn verif_policy_new_capacities() {
        let mut n = 0u64;
        let mut caps: Vec<usize> = (0..=4096).collect();
        for k in 12..=20 { for d in [-1i64, 0, 1, 37] { caps.push(((1i64 << k) + d) as usize); } }
        caps.extend_from_slice(&[5000, 9999, 10_000, 10_001, 99_999, 100_000, 100_001, 123_457]);
        for c in caps {
            match check(c) {
                Ok(()) => n += 1,
                Err(e) => { println!("VERIF-POLICY-NEW VIOLATION {e}"); panic!("{e}"); }
            }
        }
        println!("VERIF-POLICY-NEW ok capacities={n}");
    }
}
