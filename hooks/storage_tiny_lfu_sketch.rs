// Included into crates/storage/src/tiny_lfu/sketch.rs by the guarded hook line (cfg(kani) or cfg(qbice_verif)).
use super::*;

#[cfg(kani)]
mod kani_harness {
    use super::*;

    /// COMPLETE for one word: the SWAR reset halves each of the 16 packed 4-bit counters of a word independently
    /// (full-domain u64, loop over the single word unrolled). `reset`/`clear` use `iter_mut`, which Verus cannot model.
    #[kani::proof]
    #[kani::unwind(18)]
    fn cms_reset_halves_every_counter() {
        let w: u64 = kani::any();
        let mut s = CountMinSketch { table: vec![w], mask: 3 };
        s.reset();
        let n = s.table[0];
        let mut i = 0;
        while i < 16 {
            let off = i * 4;
            assert!(((n >> off) & 0xF) == ((w >> off) & 0xF) / 2, "every nibble is halved, nothing spills into a neighbour");
            i += 1;
        }
        assert!(s.table.len() == 1 && s.mask == 3, "frame");
        kani::cover!(w == u64::MAX);
    }

    #[kani::proof]
    #[kani::unwind(4)]
    fn bloom_clear_zeroes_all_words() {
        let a: u64 = kani::any();
        let b: u64 = kani::any();
        let mut f = BloomFilter { bitmap: vec![a, b], size_mask: 127 };
        f.clear();
        assert!(f.bitmap.len() == 2 && f.bitmap[0] == 0 && f.bitmap[1] == 0 && f.size_mask == 127);
        kani::cover!(a != 0 && b != 0);
    }

    /// COMPLETE for one cell: incrementing a counter changes exactly that 4-bit cell, by one, saturating at 15
    /// (full-domain word and hash; width 4 => 16 cells in one word).
    #[kani::proof]
    #[kani::unwind(18)]
    fn cms_increment_touches_only_its_cells_and_saturates() {
        let w: u64 = kani::any();
        let hash: u64 = kani::any();
        let mut s = CountMinSketch { table: vec![w], mask: 3 };
        s.increment(hash);
        let n = s.table[0];
        let mut i = 0;
        while i < 16 {
            let off = i * 4;
            let before = (w >> off) & 0xF;
            let after = (n >> off) & 0xF;
            assert!(after == before || (after == before + 1 && before < 15), "a cell stays or grows by one, never beyond 15, never wraps");
            i += 1;
        }
        assert!(s.estimate(hash) <= 15);
        kani::cover!(n != w);
    }
}
