#!/bin/sh
# Offline setup: nothing to download. Warm the caches that make the first quick check faster.
set -e
cd "$(dirname "$0")"
mkdir -p out evidence
python3 lib/mkmanifest.py >/dev/null
# warm verus (first start is slow) and the Kani / replay builds; failures here are not fatal
verus --version >/dev/null 2>&1 || true
exit 0
