"""Witness search: when an obligation fails, try to exhibit a failing input on the real code.
Each routine returns {"found": bool, ...}. Best effort; absence of a witness never hides the violation."""
import json
import os
import subprocess

ROOT = os.path.dirname(os.path.dirname(os.path.abspath(__file__)))
REPO = os.environ.get("QBICE_REPO", "/repo")


def run_driver(name, args, timeout=3600, crate="replay", release=True):
    """build + run one bin of a replay crate against the real crates from /repo"""
    import shutil
    cdir = os.path.join(ROOT, crate)
    env = dict(os.environ)
    env["CARGO_NET_OFFLINE"] = "true"
    env["CARGO_TARGET_DIR"] = os.path.join(ROOT, "out", "target-" + crate.replace("_", "-"))
    shutil.copyfile(os.path.join(REPO, "Cargo.lock"), os.path.join(cdir, "Cargo.lock"))
    cmd = ["cargo", "run", "--offline", "--quiet"] + (["--release"] if release else []) + ["--bin", name, "--"] + list(args)
    p = subprocess.run(cmd, cwd=cdir, env=env, stdout=subprocess.PIPE, stderr=subprocess.PIPE, text=True, timeout=timeout)
    return p


def generic(bin_name, crate="replay", release=True):
    def f(prop, violations, tier, seed):
        try:
            p = run_driver(bin_name, ["--search", "--seed", str(seed)], crate=crate, release=release)
        except Exception as e:
            return {"found": False, "error": repr(e)}
        last = None
        for line in p.stdout.split("\n"):
            line = line.strip()
            if line.startswith("{"):
                try:
                    last = json.loads(line)
                except Exception:
                    pass
        if last and last.get("found"):
            last["driver"] = bin_name
            return last
        if p.returncode not in (0, 1) and ("panicked" in p.stderr or "abort" in p.stderr.lower()) and "could not compile" not in p.stderr:
            # the real code brought the driver process down (panic in a worker thread / abort in a destructor)
            hist = [l for l in p.stderr.split("\n") if l.startswith("LAST-HISTORY")]
            return {"found": True, "driver": bin_name, "case": "the real code panicked / aborted the process while replaying a history",
                    "input": hist[-1] if hist else "(see observed)", "observed": "\n".join([l for l in p.stderr.split("\n") if "panicked at" in l or l.strip().startswith(("assertion", "called `", "WriteBuffer", "panic in"))][:6]) or p.stderr[-800:],
                    "expected": "no panic",
                    "driver_exit": p.returncode}
        return {"found": False, "driver": bin_name, "driver_exit": p.returncode, "driver_stderr": p.stderr[-1500:], "searched": (last or {}).get("searched")}
    return f


c12 = generic("replay_c12")
c11 = generic("replay_c11", crate="replay_db", release=False)
c10 = generic("replay_c10")
c09 = generic("replay_c09")
c13 = generic("replay_c13")
c14 = generic("replay_c14")
c16 = generic("replay_c16")
