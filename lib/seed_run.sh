#!/bin/bash
# seed_run.sh <seed id> [tier] : apply a seeded change to /repo, run the property's check, undo, record the outcome
SID=$1; TIER=${2:-quick}
D=/verif/seeded/$SID
PROP=$(python3 -c "import json;print(json.load(open('$D/meta.json'))['property'])")
cd /verif
git -C /repo status --short | grep -v '^??' | grep . && { echo "/repo not clean"; exit 9; }
git -C /repo apply $D/patch.diff || { echo "patch does not apply"; exit 8; }
# the evidence file of the property must keep describing the UNCHANGED tree: save and restore it around the seeded run
cp evidence/$PROP.json /tmp/evidence_$PROP.json.bak 2>/dev/null
./check $PROP --tier $TIER > $D/check_$TIER.out 2>&1; RC=$?
cp evidence/$PROP.json $D/evidence_$TIER.json 2>/dev/null
cp /tmp/evidence_$PROP.json.bak evidence/$PROP.json 2>/dev/null
git -C /repo checkout -- .
python3 - <<PY
import json
m=json.load(open('$D/meta.json'))
out=open('$D/check_$TIER.out').read()
m.setdefault('check_runs',{})['$TIER']={'exit':$RC,'lines':[l for l in out.split('\n') if l.startswith(('VIOLATION','UNDECIDED','KNOWN','C'))][:8]}
m['check_result']='detected' if $RC==1 else ('undecided' if $RC==2 else 'missed')
json.dump(m,open('$D/meta.json','w'),indent=1)
print('$SID',m['check_result'],$RC)
PY
