#!/usr/bin/env python3
"""seed_add.py <id> <property> <patch.diff> <demo.rs> <notes.md> <confirm.log> : register a confirmed seeded change under seeded/<id>/"""
import json, os, shutil, sys
ROOT = os.path.dirname(os.path.dirname(os.path.abspath(__file__)))
sid, prop, patch, demo, notes, log = sys.argv[1:7]
d = os.path.join(ROOT, "seeded", sid)
os.makedirs(d, exist_ok=True)
shutil.copyfile(patch, os.path.join(d, "patch.diff"))
shutil.copyfile(demo, os.path.join(d, "demo.rs"))
shutil.copyfile(notes, os.path.join(d, "notes.md"))
conf = open(log).read() if os.path.exists(log) else ""
meta = {
    "id": sid, "property": prop,
    "origin": "independent sub-agent given only the property text and a scratch worktree",
    "needs_to_manifest": "see notes.md (section 'Condition needed to manifest')",
    "confirmed_by_me": {
        "how": "scratch worktree: demo without change (pass), git apply patch, demo with change (fail), full nextest suite with change (pass)",
        "log_tail": [l for l in conf.split("\n") if l.startswith("==") or "Summary" in l],
    },
    "check_result": None,
}
json.dump(meta, open(os.path.join(d, "meta.json"), "w"), indent=1)
print("registered", d)
