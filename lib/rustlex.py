"""Minimal Rust lexer + item locator used by the mechanical extractor.

Only what the extractor needs: a token stream that is exact about comments,
string / raw-string / byte-string / char literals and lifetimes, so that
brace matching and keyword search never look inside literals or comments.
Every token carries its byte offsets in the source, and text is always copied
from the source by offset (never re-printed from tokens).
"""
import re

IDENT_RE = re.compile(r"[A-Za-z_][A-Za-z0-9_]*")
NUM_RE = re.compile(r"[0-9][A-Za-z0-9_]*(\.[0-9][A-Za-z0-9_]*)?")


class Tok:
    __slots__ = ("kind", "text", "start", "end")

    def __init__(self, kind, text, start, end):
        self.kind = kind      # 'ws','comment','doc','str','char','life','ident','num','punct'
        self.text = text
        self.start = start
        self.end = end

    def __repr__(self):
        return f"Tok({self.kind},{self.text!r},{self.start})"


class LexError(Exception):
    pass


def lex(src):
    toks = []
    i = 0
    n = len(src)
    while i < n:
        c = src[i]
        if c.isspace():
            j = i + 1
            while j < n and src[j].isspace():
                j += 1
            toks.append(Tok("ws", src[i:j], i, j))
            i = j
            continue
        if src.startswith("//", i):
            j = src.find("\n", i)
            if j < 0:
                j = n
            text = src[i:j]
            kind = "doc" if (text.startswith("///") and not text.startswith("////")) or text.startswith("//!") else "comment"
            toks.append(Tok(kind, text, i, j))
            i = j
            continue
        if src.startswith("/*", i):
            depth = 1
            j = i + 2
            while j < n and depth > 0:
                if src.startswith("/*", j):
                    depth += 1
                    j += 2
                elif src.startswith("*/", j):
                    depth -= 1
                    j += 2
                else:
                    j += 1
            toks.append(Tok("comment", src[i:j], i, j))
            i = j
            continue
        # raw strings / byte strings
        m = re.match(r'(b|c)?r(#*)"', src[i:i + 40])
        if m:
            hashes = m.group(2)
            close = '"' + hashes
            j = src.find(close, i + m.end())
            if j < 0:
                raise LexError("unterminated raw string")
            j += len(close)
            toks.append(Tok("str", src[i:j], i, j))
            i = j
            continue
        if c == '"' or (c in "bc" and i + 1 < n and src[i + 1] == '"'):
            j = i + (1 if c == '"' else 2)
            while j < n:
                if src[j] == "\\":
                    j += 2
                elif src[j] == '"':
                    j += 1
                    break
                else:
                    j += 1
            toks.append(Tok("str", src[i:j], i, j))
            i = j
            continue
        if c == "'" or (c == "b" and i + 1 < n and src[i + 1] == "'"):
            k = i + (1 if c == "'" else 2)
            # char literal or lifetime
            if k < n and src[k] == "\\":
                j = k + 2
                while j < n and src[j] != "'":
                    j += 1
                j += 1
                toks.append(Tok("char", src[i:j], i, j))
                i = j
                continue
            if k + 1 < n and src[k + 1] == "'" and src[k] != "'":
                j = k + 2
                toks.append(Tok("char", src[i:j], i, j))
                i = j
                continue
            if c == "'":
                m = IDENT_RE.match(src, k)
                if m:
                    toks.append(Tok("life", src[i:m.end()], i, m.end()))
                    i = m.end()
                    continue
            # non-ascii char literal e.g. 'é'
            j = src.find("'", k)
            if j < 0:
                raise LexError("bad quote")
            j += 1
            toks.append(Tok("char", src[i:j], i, j))
            i = j
            continue
        m = IDENT_RE.match(src, i)
        if m:
            # raw identifiers r#foo
            toks.append(Tok("ident", m.group(0), i, m.end()))
            i = m.end()
            continue
        m = NUM_RE.match(src, i)
        if m:
            toks.append(Tok("num", m.group(0), i, m.end()))
            i = m.end()
            continue
        toks.append(Tok("punct", c, i, i + 1))
        i += 1
    return toks


def code_tokens(toks):
    """tokens without trivia"""
    return [t for t in toks if t.kind not in ("ws", "comment", "doc")]


OPEN = {"(": ")", "[": "]", "{": "}"}
CLOSE = {")": "(", "]": "[", "}": "{"}


def match_close(ct, i):
    """ct: code tokens; i index of an opening bracket; returns index of its closer"""
    depth = 0
    for j in range(i, len(ct)):
        t = ct[j]
        if t.kind == "punct":
            if t.text in OPEN:
                depth += 1
            elif t.text in CLOSE:
                depth -= 1
                if depth == 0:
                    return j
    raise LexError("unbalanced bracket at %d" % ct[i].start)


class Item:
    """An item: attrs (list of (start,end)), header token range, body range."""

    def __init__(self):
        self.attr_spans = []     # list of (start,end) byte spans of #[..] attributes
        self.start = None        # byte start of item proper (after attributes)
        self.end = None          # byte end (after closing brace or ';')
        self.hdr = []            # code tokens of the header (up to but excluding '{' or ';')
        self.body_open = None    # index into ct of '{' (None if ';'-terminated)
        self.body_close = None
        self.kind = None
        self.name = None
        self.ct_lo = None        # ct index of first header token
        self.ct_hi = None        # ct index of last token of item


def scan_items(ct, lo, hi):
    """Scan code tokens ct[lo:hi] (the inside of a file / impl / trait body) for items."""
    items = []
    i = lo
    while i < hi:
        it = Item()
        # attributes
        while i < hi and ct[i].text == "#":
            j = i + 1
            if ct[j].text == "!":
                j += 1
            if ct[j].text != "[":
                break
            k = match_close(ct, j)
            it.attr_spans.append((ct[i].start, ct[k].end))
            i = k + 1
        if i >= hi:
            break
        it.ct_lo = i
        it.start = ct[i].start
        j = i
        depth = 0
        # header runs to first '{' or ';' at bracket depth 0 ; for macro invocations name!(..); or name!{..}
        while j < hi:
            t = ct[j]
            if t.kind == "punct":
                if t.text in "([":
                    depth += 1
                elif t.text in ")]":
                    depth -= 1
                elif depth == 0 and t.text == "{":
                    break
                elif depth == 0 and t.text == ";":
                    break
            j += 1
        if j >= hi:
            raise LexError("item without end at %d" % ct[i].start)
        it.hdr = ct[i:j]
        texts = [t.text for t in it.hdr]
        if ct[j].text == "{":
            it.body_open = j
            it.body_close = match_close(ct, j)
            endtok = it.body_close
            # struct S {..} has no trailing ';'. `macro_rules! x {..}` neither.
        else:
            endtok = j
        it.ct_hi = endtok
        it.end = ct[endtok].end
        # classify
        kind = None
        name = None
        if "macro_rules" in texts[:1]:
            kind = "macro_def"
            name = texts[2] if len(texts) > 2 else None
        elif len(texts) >= 2 and texts[1] == "!" and it.hdr[0].kind == "ident":
            kind = "macro_call"
            name = texts[0]
        else:
            for idx, tx in enumerate(texts):
                if it.hdr[idx].kind != "ident":
                    continue
                if tx in ("fn", "struct", "enum", "trait", "mod", "const", "static", "type", "use", "union"):
                    if tx == "const" and idx + 1 < len(texts) and texts[idx + 1] in ("fn", "unsafe", "async", "extern"):
                        continue
                    kind = tx
                    name = texts[idx + 1] if idx + 1 < len(texts) else None
                    break
                if tx == "impl":
                    kind = "impl"
                    break
        it.kind = kind
        it.name = name
        items.append(it)
        i = endtok + 1
    return items


def norm(s):
    """whitespace-insensitive normal form of a header string"""
    toks = code_tokens(lex(s))
    return " ".join(t.text for t in toks)


def header_text(it):
    return " ".join(t.text for t in it.hdr)
