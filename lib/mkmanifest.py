#!/usr/bin/env python3
"""Writes MANIFEST.json from lib/props.py + the static tables below (kept in one place so it stays valid)."""
import json
import os
import sys

ROOT = os.path.dirname(os.path.dirname(os.path.abspath(__file__)))
sys.path.insert(0, os.path.join(ROOT, "lib"))
from props import PROPS  # noqa: E402
from manifest_text import CHECK_TEXT, NOT_APPLICABLE, PENDING  # noqa: E402

checks = []
for pid in sorted(PROPS):
    t = CHECK_TEXT[pid]
    checks.append({
        "property_id": pid,
        "quick_cmd": f"./check {pid} --tier quick",
        "thorough_cmd": f"./check {pid} --tier thorough",
        "evidence_file": f"/verif/evidence/{pid}.json",
        "replay_cmd_template": f"./check {pid} --replay {{path}}",
        "engine": "contracts",
        "level_claimed": {"category": "proof", "text": t["text"], "design_ref": t["design_ref"]},
        "level_note": t["note"],
        "technique": t["technique"],
    })
na = [{"property_id": k, "reason": v} for k, v in sorted(NOT_APPLICABLE.items())]
na += [{"property_id": k, "reason": v} for k, v in sorted(PENDING.items()) if k not in PROPS]
m = {
    "version": 1,
    "setup_cmd": "./setup.sh",
    "hooks": {
        "guard": "--cfg qbice_verif (and cfg(kani), set by cargo kani itself)",
        "enable": "checks set RUSTFLAGS='--cfg qbice_verif' and QBICE_VERIF_DIR=/verif when building /repo crates for Kani / replay drivers; Verus units need no hook (textual extraction)",
        "baseline_off_cmd": "cd /repo && cargo nextest run --workspace --no-fail-fast --offline || cargo test --workspace --no-fail-fast --offline",
        "source_commits": ["d4b0884 verif hooks: guarded include lines for the tiny_lfu lru/sketch harnesses; declare the cfgs", "9e48edb verif hook: guarded include line for the Policy::new capacity conformance test (cfg(kani) / cfg(qbice_verif))"],
        "add_only": True,
    },
    "engines": [{"name": "contracts", "path": "/verif/check", "serves_properties": sorted(PROPS),
                 "kind_free_text": "mechanical extraction of the real functions + hand-written contracts -> Verus (Z3); Kani/CBMC harnesses on the real crates; witness-search drivers on the real crates"}],
    "checks": checks,
    "not_applicable": na,
    "notes": "Contract-based deductive verification of the real code; see DESIGN.md. Exit 0 = all obligations discharged (or only listed known findings), 1 = VIOLATION, 2 = UNDECIDED (lost anchor / unsupported construct / rlimit; never an alarm).",
}
with open(os.path.join(ROOT, "MANIFEST.json"), "w") as f:
    json.dump(m, f, indent=1)
print("MANIFEST.json written:", [c["property_id"] for c in checks], "N/A:", [x["property_id"] for x in na])
