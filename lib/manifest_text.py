CHECK_TEXT = {
    "C12": {
        "text": ("Proof. (1) Every varint/zigzag/fixed-width leaf codec of the real PostcardEncoder/PostcardDecoder round-trips on its FULL input "
                 "domain, with exact consumption and back-to-back self-delimitation (Kani/CBMC, loops unrolled to operand width with unwinding "
                 "assertions: complete, not bounded). (2) The real generic Encode/Decode impl bodies (Option, Result, tuples 1-12, Vec, slices, "
                 "Box/Rc/Arc, boxed/shared slices, arrays(encode), ranges, Bound, NonZero*, Duration, Cell, Wrapping, Reverse, PhantomData, unit, primitives, strings, VecDeque; "
                 "HashMap/HashSet against relational contracts since their image follows the iteration order) "
                 "are extracted mechanically on every run and verified by Verus against trait-level contracts (encode appends exactly the image; "
                 "decode of image+tail returns a value with the same image and leaves exactly tail; every image is prefix-free), for ALL type "
                 "instantiations and nesting depths by modularity. (3) PostcardEncoder<W>/PostcardDecoder<R> themselves are verified by Verus against those "
                 "trait contracts: the four LEB128 encoders and readers with inductive loop invariants, zigzag by bit-vector reasoning, every emit_*/read_* "
                 "(any value, any tail) -- so (1) and (2) are linked by proof, not by assumption. (4) derive output on fixture types (expanded by the real "
                 "proc-macro every run) and the framing of interned handles (WiredInterned, session step of Encode for Interned<T>). "
                 "Tests can only sample values; this quantifies over all of them."),
        "design_ref": "DESIGN.md section 5 (C12)",
        "note": ("Trusted: Verus/Z3, Kani/CBMC; io::Write modelled as an appending writer, io::Read as a reliable in-memory reader; "
                 "std models listed in evidence.trusted_base; Plugin opaque, Session a typed-slot stand-in. NOT under contract (stated in evidence, covered by the "
                 "bounded run only): Path/OsStr, LinkedList/BTree*/Dash* collections, atomics, [T;N]::decode, SmallVec, BitVec, "
                 "the Decode impls of Interned<..> (shared interner state)."),
        "technique": "contract-based deductive verification: Verus (Z3) on mechanically extracted real impls + Kani function-level full-domain harnesses",
    },
}

CHECK_TEXT["C11"] = {
    "text": ("Proof of the byte-level key scheme both backends rest on, on the real function bodies (extracted every run): "
             "prefix_upper_bound returns ub(prefix) and the scan window [prefix, ub) contains EXACTLY the byte strings that start with prefix, for all "
             "prefixes incl. empty / 0xFF-heavy (unbounded induction); transform_key == tk; encode_value_length_prefixed appends le64(len)++bytes; "
             "encode_wide_column_key lays out discriminant/key as Prefixed/Suffixed (fjall: with non-empty padding). Spec-level consequences proved "
             "from those contracts: extractor(lp(k)++e)=lp(k); lp(k1) prefix of lp(k2)++e => k1=k2 (no leakage between prefix-related / empty keys); "
             "lp(k) always has an upper bound; member split; (discriminant,key) -> bytes injective; padding creates no collision. "
             "Write paths: every method of `impl WriteBatch` / `impl SerializationBuffer` of both backends issues (records) exactly one backend operation on the "
             "column of its column type with the key bytes the scheme prescribes; consume_serialization_buffer replays the recorded operations in order, so "
             "the direct and the recorded path agree. Tests sample a handful of keys; this holds for every key."),
    "design_ref": "DESIGN.md section 5 (C11)",
    "note": ("The backends (RocksDB, Fjall: ordering, atomic batches, bounds, persistence) are TRUSTED, as are the R10-R12 wrappers and interface stand-ins "
             "listed in evidence (the backend batch is a ghost log of operations); column-family management, commit, the readers and reopen are not under contract "
             "(the real-backend bounded run covers them). The claim is the encoding layer and the write paths."),
    "technique": "contract-based deductive verification: Verus (Z3) on mechanically extracted real functions, inductive lemmas for the scan window",
}

CHECK_TEXT["C10"] = {
    "text": ("Proof of the sequential kernel that enforces the order, on the real function bodies (extracted every run): "
             "Ord for WriteTask is a min-heap by epoch; process_pending_commits keeps the committer's representation invariant (the open physical "
             "batch holds exactly the logical batches upto..expected in epoch order), pops exactly the epochs [expected, expected') each once in ascending "
             "order, makes maximal progress (whatever stays queued is strictly younger), and every group it closes is committed as one batch; "
             "CurrentBatch::flush commits the open group exactly once also while shutting down; commit_worker (all arrival orders, unbounded) ends with an "
             "empty hold-back queue (its real assert! is a discharged obligation), a final flush, and all epochs 0..total committed group by group in "
             "creation order; submit_write_batch hands every batch to the pipeline; serialize_worker only forwards well-formed tasks. "
             "What one batch carries: TypedWideColumnWrites::insert / TypedKeyOfSetWrites::insert are last-writer-wins steps on exactly one slot and compose "
             "(lemmas) to the net effect of the staged operations in issue order; WriteEntry::write_to_db of both typed maps emits exactly one operation per staged "
             "slot, and -- through a trait contract on the type-erased `dyn WriteEntry` -- WideColumnWrites / KeyOfSetWrites / WriteBatch::write_to_db let every entry of a batch "
             "emit exactly once. The backend ends (commit / consume_serialization_buffer of RocksDB and Fjall) are re-verified here. "
             "Tests run a handful of schedules; this covers every arrival order and every grouping decision of the store."),
    "design_ref": "DESIGN.md section 5 (C10)",
    "note": ("Threads are not modelled: the history preconditions of commit_worker (each epoch delivered at most once; all delivered by channel close) are "
             "explicit assumptions; shutdown/join order, atomics and the producers are trusted. Storage traits, crossbeam, BinaryHeap, the HashMap Entry API (rule R15) are interface/std models "
             "listed in evidence.trusted_base."),
    "technique": "contract-based deductive verification: Verus (Z3), inductive loop invariants over an abstract heap view, ghost history variables",
}

CHECK_TEXT["C16"] = {
    "text": ("Proof of the admission policy on the real function bodies of policy.rs (extracted every run) against an abstract contract of Lru: "
             "on_write / unpin / attempt_to_trim_overflowing_pinned / on_read_hit / on_removed keep the representation invariant, "
             "forget a key ONLY after the owner confirmed its removal (remove(k) returned true) or on an explicit Removed message, park a key in the pinned "
             "region only when the owner refused, keep window+probation+protected <= max_capacity after every operation (unbounded induction, all access "
             "sequences), and never panic (every unwrap() is a discharged obligation -- this is how finding F3 was found and fixed). "
             "The dispatcher above it (tiny_lfu.rs process_write / process_message) delivers every message to its handler with its own key whatever the "
             "concurrently mutated storage map answers; the closure it hands the policy (remove_closure) answers true only for an entry it removed under the entry lock while the owner "
             "reported it un-pinned. sketch.rs: every index in bounds, no overflow, 4-bit counters never carry, clear() zeroes every word and reset() halves every counter "
             "without touching its neighbour (Verus + Kani on a full-domain word). "
             "The Lru contract itself is checked on the real raw-pointer Lru by a bounded exhaustive conformance run (labelled bounded)."),
    "design_ref": "DESIGN.md section 5 (C16), section 7 (F3)",
    "note": ("ASSUMED: the abstract Lru contract (bounded-checked only), the remove closure's meaning, key Clone, 64-bit usize. NOT decided: concurrent buffers between "
             "storage map and policy, DedicatedThread mode, scc::HashMap itself (stand-in with event predicates), the lock-table clause (bounded run only). See evidence.trusted_base."),
    "technique": "contract-based deductive verification: Verus (Z3) with an assumed data-structure contract, Kani on bit tricks, bounded conformance run of the assumed contract",
}

CHECK_TEXT["C14"] = {
    "text": ("Plumbing proof only. Verus, on the real text (extracted every run): the id functions (from_unique_type_name, combine, sipround, read_u64_le) are total "
             "for every name and operand and have no external/unsafe ingredient, so the same type and key give the same id in every process; "
             "StableTypeID<->u128, u128<->Compact128 and the QueryID accessors are lossless, so two queries share a slot only if both 128-bit components "
             "coincide. DISTINCTNESS of ids for distinct types is a collision property that no sound contract can state; it is decided only on a bounded, "
             "generated universe of 6865 types (every leaf type with an Identifiable impl) and a crafted family of type names, evaluated on the real crate in two "
             "separate processes (labelled bounded). read_u64_le is proved to return exactly the little-endian value of its block (no byte of a name is dropped or "
             "overlaid before mixing). Because a query id is the stable hash of the query key and a store slot is addressed by type id, the check also re-establishes "
             "C13's framing of the key stream (incl. write_usize/isize full width: Verus + Kani) and the column addressing of both backends' write paths (C11 units), "
             "and runs the real-backend drivers (store slots of crafted ids; both write paths)."),
    "design_ref": "DESIGN.md section 5 (C14)",
    "note": ("The claim is deliberately narrow: totality/purity/losslessness are proved; distinctness is bounded-checked, not proved. The Identifiable impl table, "
             "derive macro and column-family naming (format!) are not under contract (bounded runs only)."),
    "technique": "contract-based deductive verification (Verus, bit-vector lemmas) for totality and lossless conversions; bounded evaluation of a generated type universe for distinctness",
}

CHECK_TEXT["C13"] = {
    "text": ("Proof of framing for the ordered impls, on the real function bodies (extracted every run): stable_hash appends exactly bytes(v) to the hasher; "
             "bytes(v) is a function of the value's view only (so capacity, ownership, sharing cannot matter) with an 8-byte length prefix for sequences and strings, "
             "the discriminant first for Option/Result/derived enums, fields in declaration order; and bytes is prefix-free (hence injective) for every constructor and "
             "every instantiation, by modularity (Verus). Integer / bool / char / float images incl. NaN normalisation are established on the full domain (Kani). "
             "Derive output is verified on fixtures expanded by the real proc-macro. Unordered collections, cross-process stability and round-trip preservation are "
             "covered by a bounded run only."),
    "design_ref": "DESIGN.md section 5 (C13)",
    "note": ("ASSUMED: SipHash is a function of its byte stream, no 128-bit collisions, Discriminant layout, to_le_bytes injective (Kani checks the exact bytes). "
             "NOT under contract: the unordered collections (dyn sub_hash), BTree*/VecDeque/LinkedList, Cow, paths, atomics -- bounded run only."),
    "technique": "contract-based deductive verification: Verus (Z3) on mechanically extracted impls + Kani full-domain harnesses; bounded run for unordered collections",
}

CHECK_TEXT["C09"] = {
    "text": ("Proof of the replay kernel of the key-to-set cache only, on the real function bodies (extracted every run): the staging log's order keeps the "
             "oldest operation on top; apply_message_to_heap keeps every appended operation and a flush removes EXACTLY the operations of flushed epochs "
             "(multiset equality with the filter epoch > e: no unflushed operation is ever dropped); replay computes, for every element, what its LAST "
             "operation in issue order says; lemma: overlaying that snapshot on any base set equals applying all operations in issue order (idempotent over an "
             "already flushed prefix). These contracts did not hold on the original tree (finding F2, fixed). Entry state machine of the wide-column caches: the "
             "closures WideColumnCache::insert / ::remove run on the locked entry carry closure contracts (value written / absence remembered, pin count +1 iff the "
             "batch updated the key, an entry with pins > 0 is never dropped); the eviction question is_pinned of both caches answers pinned exactly while the pin / dirty "
             "counter is non-zero, whatever the entry holds (a pending remove stays pinned). Re-established here because read-your-writes rests on them: the commit kernel "
             "(notification only after commit), what a committed batch leaves in the store (the net effect of its staged operations: c10_coalesce) and the cache policy with its atomic remove closure (a pinned entry is never evicted). Single-flight fills, flush races "
             "and the set cache's entry handling are exercised only by a bounded run on the real code."),
    "design_ref": "DESIGN.md section 5 (C09), section 7 (F2)",
    "note": ("Partial claim. Read-your-writes of the three cached maps as a whole is a concurrent property and is NOT proved; the bounded run samples histories "
             "with an uncontrolled background writer."),
    "technique": "contract-based deductive verification (Verus, multiset / fold specifications) of the staging-log kernel; bounded differential run for the rest",
}

NOT_APPLICABLE = {
    "C01": "whole-history property of an async, concurrent engine; no sequential function's contract implies it and neither Verus nor Kani ingests async/tokio/scc code (DESIGN 1, 5)",
    "C02": "quantifies over schedules / single-flight / termination: concurrency and liveness are outside both verifiers (Kani has no threads; Verus would need the code rewritten onto its permission types)",
    "C03": "history property (cause of every executor invocation) over the same async engine code as C01; over-execution is invisible to any single-call postcondition",
    "C04": "ordering between an atomic epoch bump and a tokio RwLock across tasks: interleavings, not a function contract",
    "C05": "quantifies over suspension points of futures and Drop during unwinding; no contract language available here expresses 'dropped at this await'",
    "C06": "termination / deadlock-freedom of a search over a table mutated concurrently by other tasks",
    "C07": "end-to-end restart property over engine + caches + write-behind + backend; its sequential ingredients are proved under C10/C11/C12",
    "C08": "crash points x physical batching x real backends; batch atomicity is a trusted backend contract, ordering is C10",
    "C15": "canonicity under interleavings of RwLock shards and Weak::upgrade; vstd has no Arc/Weak liveness model and Kani cannot compile the code (parking_lot ICE)",
}

# claimed in DESIGN.md but the check is not built yet (kept out of `checks` until it runs green)
PENDING = {
}
