"""Unit generator: turns a spec template (specs/*.rs with //@ directives) plus the
current /repo working tree into one single-file Verus unit.

Directive grammar (one directive per line, payload = the following plain lines
up to the next //@ line):

  //@ fn <file> :: <fn name>                 free function
  //@ impl <file> :: <impl header>           an impl block (header matched modulo whitespace)
  //@ trait <file> :: <trait header>         a trait declaration
  //@ macro <file> :: <name!(args)>          a macro_rules! invocation, expanded textually, must yield one impl
  //@ struct <file> :: <name>                struct / enum / const / type item copied verbatim (fields made pub)
  //@ const <file> :: <name>
  inside impl/trait/macro blocks:
  //@ header+ <text>                         text appended to the supertrait list / where clause of the header
  //@ header-sub <old> => <new>              textual substitution inside the header (recorded as rewrite HDR)
  //@ extra                                  payload = additional (spec/proof) members
  //@ member <fn name>                       select a member fn (anything not selected is dropped and logged)
  inside fn / member:
  //@ attr                                   payload placed in front of the fn
  //@ sig                                    payload spliced after the signature (requires/ensures/decreases)
  //@ head                                   payload spliced at the opening brace of the body
  //@ loop <k> inv                           payload spliced between header and body of loop ordinal k
  //@ loop <k> head | loop <k> tail          payload at the start / end of the body of loop ordinal k
  //@ loop <k> after                         payload right after the closing brace of loop ordinal k
  //@ loop <k> iter <name>                   rule R8: `for P in E` -> `for P in <name>: E`
  //@ body external                          body replaced by unimplemented!() + #[verifier::external_body] (trusted, logged)
  //@ end                                    closes fn / impl / trait / macro block

Everything else in the template is copied through unchanged (spec vocabulary,
lemmas, external specifications, canaries).
"""
import hashlib
import os
import re
import sys

sys.path.insert(0, os.path.dirname(__file__))
from rustlex import lex, code_tokens, scan_items, match_close, norm, header_text, LexError  # noqa: E402


class LostAnchor(Exception):
    pass


GEN_AUX = os.environ.get("VERIF_GEN_AUX", "/verif/out/aux")


STRIP_ATTRS = re.compile(r"^#\s*\[\s*(inline|allow|must_use|instrument|expect|doc|derive|cfg_attr|track_caller|cold|serialize|serialize_crate|stable_hash|stable_hash_crate)\b")


class Source:
    cache = {}

    def __init__(self, repo, rel):
        self.rel = rel
        # `@name` = a file produced by a pre-step of the check (e.g. macro expansion), under GEN_AUX
        self.path = os.path.join(GEN_AUX, rel[1:]) if rel.startswith("@") else os.path.join(repo, rel)
        with open(self.path, encoding="utf-8") as f:
            self.src = f.read()
        self.toks = lex(self.src)
        self.ct = code_tokens(self.toks)
        self.items = scan_items(self.ct, 0, len(self.ct))

    @classmethod
    def get(cls, repo, rel):
        key = (repo, rel)
        if key not in cls.cache:
            cls.cache[key] = cls(repo, rel)
        return cls.cache[key]

    def line_of(self, off):
        return self.src.count("\n", 0, off) + 1


def sha(s):
    return hashlib.sha256(s.encode()).hexdigest()[:16]


# ---------------------------------------------------------------- rewrites

ACTIVE_RULES = set()

R10_RE = re.compile(
    r"let\s+mut\s+encoder\s*=\s*PostcardEncoder::new\((?P<arg>[^;]*?)\);\s*"
    r"encoder\s*\.encode\((?P<key>[^,;]*?),\s*&self\.plugin\)\s*\.expect\((?P<msg>\"[^\"]*\")\);")


def apply_r10(text, log, ctx):
    """R10: the two-statement idiom `let mut encoder = PostcardEncoder::new(BUF); encoder.encode(KEY, &self.plugin).expect(MSG);`
    becomes one call of the opaque, contracted `verif_postcard_encode(KEY, BUF, &self.plugin);` (C12's Encode contract)."""
    def rep(m):
        arg = m.group("arg").strip()
        arg2 = re.sub(r"^&\s*mut\s*\*\s*", "", arg)
        new = f"verif_postcard_encode({m.group('key').strip()}, {arg2}, &self.plugin);"
        log.append({"rule": "R10", "in": ctx, "before": re.sub(r"\s+", " ", m.group(0)), "after": new})
        return new
    return R10_RE.sub(rep, text)


R17_RE = re.compile(
    r"let\s+mut\s+decoder\s*=\s*PostcardDecoder::new\(\s*std::io::Cursor::new\(\s*(?P<src>[^;]*?)\s*,?\s*\)\s*,?\s*\);\s*"
    r"let\s+(?P<var>[A-Za-z_][A-Za-z_0-9]*)\s*=\s*decoder\s*\.decode::<(?P<ty>[^>;]+)>\((?P<plugin>[^;()]*?)\)\s*\.expect\((?P<msg>\"[^\"]*\")\);")


R17B_RE = re.compile(
    r"let\s+mut\s+decoder\s*=\s*PostcardDecoder::new\(\s*std::io::Cursor::new\(\s*(?P<src>[^;]*?)\s*,?\s*\)\s*,?\s*\);\s*"
    r"Some\(\s*decoder\s*\.decode::<(?P<ty>[^>;]+)>\((?P<plugin>[^;()]*?)\)\s*\.expect\((?P<msg>\"[^\"]*\")\)\s*,?\s*\)")


def apply_r17(text, log, ctx):
    """R17: the idiom `let mut decoder = PostcardDecoder::new(std::io::Cursor::new(SRC)); let V = decoder.decode::<T>(PLUGIN).expect(MSG);`
    becomes `let V = verif_postcard_decode::<T, _>(SRC, PLUGIN);` -- an opaque call carrying C12's Decode contract on a complete
    image (Cursor over an in-memory buffer; `expect` = decoding of a stored image succeeds)."""
    def rep(m):
        new = f"let {m.group('var')} = verif_postcard_decode::<{m.group('ty').strip()}, _>({m.group('src').strip()}, {m.group('plugin').strip()});"
        log.append({"rule": "R17", "in": ctx, "before": re.sub(r"\s+", " ", m.group(0)), "after": new})
        return new
    text = R17_RE.sub(rep, text)

    def rep2(m):
        new = f"Some(verif_postcard_decode::<{m.group('ty').strip()}, _>({m.group('src').strip()}, {m.group('plugin').strip()}))"
        log.append({"rule": "R17", "in": ctx, "before": re.sub(r"\s+", " ", m.group(0)), "after": new})
        return new
    return R17B_RE.sub(rep2, text)


R11A_RE = re.compile(r"\b(u16|u32|u64|u128|usize|i16|i32|i64|i128|isize)::from_le_bytes\(")
R11B_RE = re.compile(r"\.to_le_bytes\(\)")
R12_RE = re.compile(r"(?P<buf>\b[A-Za-z_][A-Za-z_0-9]*)\s*\[(?P<a>[^\]\[]*?)\.\.(?P<b>[^\]\[]*?)\]\s*\.copy_from_slice\((?P<src>[^;]*)\);")


def apply_r11_r12(text, log, ctx):
    """R11: `uN::from_le_bytes(X)` -> `verif_uN_from_le_bytes(X)`, `E.to_le_bytes()` -> `E.verif_to_le_bytes()`
    (the std signatures carry an unevaluated const generic that assume_specification cannot name);
    R12: `BUF[A..B].copy_from_slice(SRC);` -> `verif_copy_into(BUF, A, B, SRC);` (IndexMut<Range> on Vec has no vstd spec).
    Both targets are opaque wrappers with the std function's contract (trusted)."""
    def r11a(m):
        log.append({"rule": "R11", "in": ctx, "before": m.group(0), "after": f"verif_{m.group(1)}_from_le_bytes("})
        return f"verif_{m.group(1)}_from_le_bytes("
    text = R11A_RE.sub(r11a, text)

    def r11b(m):
        log.append({"rule": "R11", "in": ctx, "before": ".to_le_bytes()", "after": ".verif_to_le_bytes()"})
        return ".verif_to_le_bytes()"
    text = R11B_RE.sub(r11b, text)

    def r12(m):
        new = f"verif_copy_into({m.group('buf')}, {m.group('a').strip()}, {m.group('b').strip()}, {m.group('src').strip()});"
        log.append({"rule": "R12", "in": ctx, "before": re.sub(r"\s+", " ", m.group(0)), "after": new})
        return new
    text = R12_RE.sub(r12, text)
    return text


R15A_RE = re.compile(r"(?P<recv>\b[A-Za-z_][A-Za-z_0-9]*(?:\s*\.\s*[A-Za-z_][A-Za-z_0-9]*)*)\s*\.\s*entry\(")
R15B_RE = re.compile(r"\bstd::collections::hash_map::Entry::")


def apply_r15(text, log, ctx):
    """R15: `RECV.entry(K)` -> `verif_entry(&mut RECV, K)` and `std::collections::hash_map::Entry::X` -> `Entry::X`:
    std's Entry API has no vstd specification and its types are opaque; the unit supplies a model of it
    (Entry/OccupiedEntry/VacantEntry holding the reborrowed map, with prophecy contracts; trusted std model)."""
    def a(m):
        recv = re.sub(r"\s+", "", m.group("recv"))
        new = f"verif_entry(&mut {recv}, "
        log.append({"rule": "R15", "in": ctx, "before": re.sub(r"\s+", " ", m.group(0)), "after": new})
        return new
    text = R15A_RE.sub(a, text)

    def b(m):
        log.append({"rule": "R15", "in": ctx, "before": m.group(0), "after": "Entry::"})
        return "Entry::"
    return R15B_RE.sub(b, text)


R18_RE = re.compile(r"#\[cfg\(feature\s*=\s*\"(?P<feat>[A-Za-z0-9_]+)\"\)\]\s*")


def apply_r18(text, log, ctx):
    """R18: a STATEMENT gated by `#[cfg(feature = "...")]` is removed: the unit verifies the default configuration, in which
    the (optional, off-by-default) feature is off and rustc drops that statement too.  Only statements (up to the `;` that ends
    them at bracket depth 0) are handled; gated items / fields are left alone (they fail loudly if they matter)."""
    out = []
    pos = 0
    while True:
        m = R18_RE.search(text, pos)
        if not m:
            out.append(text[pos:])
            break
        # scan forward to the end of the statement
        i = m.end()
        depth = 0
        n = len(text)
        end = None
        while i < n:
            c = text[i]
            if c in "([{":
                depth += 1
            elif c in ")]}":
                if depth == 0:
                    break
                depth -= 1
            elif c == ";" and depth == 0:
                end = i + 1
                break
            i += 1
        if end is None:
            out.append(text[pos:m.end()])
            pos = m.end()
            continue
        out.append(text[pos:m.start()])
        log.append({"rule": "R18", "in": ctx, "before": re.sub(r"\s+", " ", text[m.start():end])[:160], "after": "(removed: feature `%s` is off in the verified configuration)" % m.group("feat")})
        pos = end
    return "".join(out)


def apply_rewrites(text, log, ctx):
    """The declared mechanical rewrites R1,R2/R3,R6,R9 on a piece of extracted source text.
    Works on the token stream of `text`; returns new text."""
    if "R10" in ACTIVE_RULES:
        text = apply_r10(text, log, ctx)
    if "R11" in ACTIVE_RULES:
        text = apply_r11_r12(text, log, ctx)
    if "R15" in ACTIVE_RULES:
        text = apply_r15(text, log, ctx)
    if "R17" in ACTIVE_RULES:
        text = apply_r17(text, log, ctx)
    if "R18" in ACTIVE_RULES:
        text = apply_r18(text, log, ctx)
    if "R13" in ACTIVE_RULES:
        # R13: alpha-rename the method type parameter the derive macros use (__E/__D) to the name the trait
        # declaration uses (E/D): Verus mis-translates inherited ensures when the names differ (internal error)
        n1 = len(re.findall(r"\b__E\b", text)) + len(re.findall(r"\b__D\b", text))
        if n1:
            text = re.sub(r"\b__E\b", "E", text)
            text = re.sub(r"\b__D\b", "D", text)
            log.append({"rule": "R13", "in": ctx, "before": "__E / __D", "after": "E / D (%d occurrences)" % n1})
    # R20: `std::mem::size_of::<uN / iN>()` (also core::mem / mem::) -> the literal the language fixes for that type. Verus cannot
    # evaluate size_of in a const item; the byte size of a fixed-width integer is not configuration dependent.
    def _r20(m):
        bits = int(m.group(2))
        log.append({"rule": "R20", "in": ctx, "before": m.group(0), "after": f"{bits // 8}usize"})
        return f"{bits // 8}usize"
    text = re.sub(r"\b(?:(?:std|core)::)?mem::size_of::<\s*([ui])(8|16|32|64|128)\s*>\(\)", _r20, text)
    toks = lex(text)
    ct = code_tokens(toks)
    edits = []  # (start,end,replacement,rule)
    i = 0
    n = len(ct)
    while i < n:
        t = ct[i]
        # R1 attributes inside bodies / on members
        if t.text == "#" and i + 1 < n and ct[i + 1].text == "[":
            k = match_close(ct, i + 1)
            atext = text[t.start:ct[k].end]
            if STRIP_ATTRS.match(atext):
                edits.append((t.start, ct[k].end, "", "R1"))
            i = k + 1
            continue
        # R2/R3  io::Error::new(..)  (optionally prefixed by ::std:: / std::)
        if t.text == "io" and i + 7 < n and [x.text for x in ct[i + 1:i + 8]] == [":", ":", "Error", ":", ":", "new", "("]:
            k = match_close(ct, i + 7)
            s = t.start
            # swallow a leading `std::` / `::std::`
            j = i
            if j >= 3 and [x.text for x in ct[j - 3:j]] == ["std", ":", ":"]:
                j -= 3
                if j >= 2 and [x.text for x in ct[j - 2:j]] == [":", ":"]:
                    j -= 2
                s = ct[j].start
            edits.append((s, ct[k].end, "verif_io_error()", "R2"))
            i = k + 1
            continue
        # R6 visibility
        if t.text == "pub" and i + 1 < n and ct[i + 1].text == "(":
            k = match_close(ct, i + 1)
            edits.append((t.start, ct[k].end, "pub", "R6"))
            i = k + 1
            continue
        # R9 closure parameter `_`
        if t.text == "|" and i + 2 < n and ct[i + 1].text == "_" and ct[i + 2].text == "|":
            edits.append((ct[i + 1].start, ct[i + 1].end, "_e", "R9"))
            i += 3
            continue
        i += 1
    # doc comments (R1)
    for tk in toks:
        if tk.kind == "doc":
            edits.append((tk.start, tk.end, "", "R1"))
    edits.sort()
    out = []
    pos = 0
    for s, e, r, rule in edits:
        if s < pos:
            continue
        out.append(text[pos:s])
        out.append(r)
        if rule != "R1":
            log.append({"rule": rule, "in": ctx, "before": text[s:e][:200], "after": r})
        else:
            log.append({"rule": rule, "in": ctx, "before": text[s:e][:80], "after": ""})
        pos = e
    out.append(text[pos:])
    return "".join(out)


# ---------------------------------------------------------------- fn splicing

def find_loops(ct, lo, hi):
    """loops (pre-order) inside ct[lo:hi]; returns list of (kw_index, body_open_index, body_close_index)"""
    loops = []
    i = lo
    while i < hi:
        t = ct[i]
        if t.kind == "ident" and t.text in ("loop", "while", "for"):
            if t.text == "for" and i + 1 < hi and ct[i + 1].text == "<":
                i += 1
                continue
            # find body '{' at depth 0
            depth = 0
            j = i + 1
            while j < hi:
                x = ct[j]
                if x.kind == "punct":
                    if x.text in "([":
                        depth += 1
                    elif x.text in ")]":
                        depth -= 1
                    elif x.text == "{" and depth == 0:
                        break
                j += 1
            if j >= hi:
                raise LostAnchor("loop without body")
            k = match_close(ct, j)
            loops.append((i, j, k))
        i += 1
    return loops


def splice_fn(text, spl, name, log):
    """text: source text of one fn item (signature + body or ';').
    spl: dict with keys sig, head, attr, loops{k:{inv,head,tail,iter}}, external.
    Returns annotated text."""
    if spl.get("strlen"):
        # R14: `<ident>.len()` where <ident> is a `&str` parameter -> `verif_str_len(<ident>)` (vstd gives str::len no usable spec)
        idn = spl["strlen"]
        new_text, n14 = re.subn(r"\b%s\.len\(\)" % re.escape(idn), "verif_str_len(%s)" % idn, text)
        if n14:
            log.append({"rule": "R14", "in": name, "before": f"{idn}.len()", "after": f"verif_str_len({idn})"})
            text = new_text
    for a, b in spl.get("subs", []):
        if a not in text:
            raise LostAnchor(f"fn {name}: text-sub: `{a}` not found")
        text = text.replace(a, b)
        log.append({"rule": "SUB", "in": name, "before": a, "after": b})
    toks = lex(text)
    ct = code_tokens(toks)
    # signature end: first '{' or ';' at depth 0
    depth = 0
    j = 0
    while j < len(ct):
        x = ct[j]
        if x.kind == "punct":
            if x.text in "([":
                depth += 1
            elif x.text in ")]":
                depth -= 1
            elif depth == 0 and x.text in "{;":
                break
        j += 1
    if j >= len(ct):
        raise LostAnchor(f"fn {name}: no body or ';'")
    inserts = []  # (offset, text)
    sig = spl.get("sig", "")
    # name the return value if the contract wants one:  -> T   =>  -> (r: T)
    retname = spl.get("ret")
    if retname:
        # find '->' at depth 0 in signature
        d = 0
        arrow = None
        for q in range(0, j):
            x = ct[q]
            if x.kind == "punct" and x.text in "([":
                d += 1
            if x.kind == "punct" and x.text in ")]":
                d -= 1
            if x.text == "-" and q + 1 < j and ct[q + 1].text == ">" and d == 0 and arrow is None:
                arrow = q
        if arrow is None:
            raise LostAnchor(f"fn {name}: no return type to name")
        # return type ends at 'where' (depth 0) or at j
        rt_lo = ct[arrow + 2].start
        rt_hi = ct[j - 1].end
        d = 0
        for q in range(arrow + 2, j):
            x = ct[q]
            if x.kind == "punct" and x.text in "([":
                d += 1
            if x.kind == "punct" and x.text in ")]":
                d -= 1
            if x.kind == "ident" and x.text == "where" and d == 0:
                rt_hi = ct[q - 1].end
                break
        inserts.append((rt_lo, f"({retname}: "))
        inserts.append((rt_hi, ")"))
    if sig.strip():
        inserts.append((ct[j - 1].end, "\n" + sig.rstrip() + "\n"))
    if ct[j].text == "{":
        body_open = j
        body_close = match_close(ct, j)
        if spl.get("external"):
            # body dropped: trusted
            log.append({"rule": "EXTERNAL_BODY", "in": name, "before": sha(text[ct[body_open].start:ct[body_close].end]), "after": "unimplemented!()"})
            pre = text[:ct[body_open].start]
            out = apply_inserts(pre, [x for x in inserts if x[0] <= len(pre)])
            return (spl.get("attr", "") + "#[verifier::external_body]\n" + out + "{ unimplemented!() }")
        head = spl.get("head", "")
        if head.strip():
            inserts.append((ct[body_open].end, "\n" + head.rstrip() + "\n"))
        loops = find_loops(ct, body_open + 1, body_close)
        for k, lsp in spl.get("loops", {}).items():
            if k >= len(loops):
                raise LostAnchor(f"fn {name}: loop ordinal {k} not found ({len(loops)} loops)")
            kw, lo, lc = loops[k]
            if lsp.get("inv", "").strip():
                inserts.append((ct[lo - 1].end, "\n" + lsp["inv"].rstrip() + "\n"))
            if lsp.get("head", "").strip():
                inserts.append((ct[lo].end, "\n" + lsp["head"].rstrip() + "\n"))
            if lsp.get("tail", "").strip():
                inserts.append((ct[lc].start, "\n" + lsp["tail"].rstrip() + "\n"))
            if lsp.get("after", "").strip():
                inserts.append((ct[lc].end, "\n" + lsp["after"].rstrip() + "\n"))
            if lsp.get("iter"):
                if ct[kw].text != "for":
                    raise LostAnchor(f"fn {name}: loop {k} is not a for loop")
                # find `in` at depth 0 between kw and lo
                d = 0
                pos_in = None
                for q in range(kw + 1, lo):
                    x = ct[q]
                    if x.kind == "punct" and x.text in "([":
                        d += 1
                    if x.kind == "punct" and x.text in ")]":
                        d -= 1
                    if x.kind == "ident" and x.text == "in" and d == 0:
                        pos_in = q
                        break
                if pos_in is None:
                    raise LostAnchor(f"fn {name}: for-loop {k} without `in`")
                inserts.append((ct[pos_in].end, f" {lsp['iter']}:"))
                log.append({"rule": "R8", "in": name, "before": "for P in E", "after": f"for P in {lsp['iter']}: E"})
                if lsp.get("itercall"):
                    # R16: E is `&C` / a `&C`-typed expression for a std collection C: `<&C as IntoIterator>::into_iter`
                    # is `C::iter` (std); vstd models `iter()` but not the reference's IntoIterator impl
                    first = ct[pos_in + 1]
                    if first.kind == "punct" and first.text == "&":
                        # `&mut C`: <&mut C as IntoIterator>::into_iter is C::iter_mut
                        nxt = ct[pos_in + 2]
                        if nxt.kind == "ident" and nxt.text == "mut":
                            # `for P in &mut PLACE` -> `for P in PLACE.iter_mut()` (method-call auto-ref takes the same `&mut PLACE`)
                            inserts.append((first.start, "", 1, ct[pos_in + 3].start - first.start))
                            inserts.append((ct[lo - 1].end, ".iter_mut()", 0))
                        else:
                            inserts.append((first.start, "("))
                            inserts.append((ct[lo - 1].end, ").iter()", 0))
                    else:
                        inserts.append((ct[lo - 1].end, ".iter()", 0))
                    log.append({"rule": "R16", "in": name, "before": "for P in E   (E: &Collection / &mut Collection)", "after": "for P in E.iter() / PLACE.iter_mut()"})
        ntail = spl.get("tail", "")
        if ntail.strip():
            raise LostAnchor("tail splice unsupported")
    else:
        if spl.get("head") or spl.get("loops"):
            raise LostAnchor(f"fn {name}: body splices on a bodiless fn")
    return spl.get("attr", "") + apply_inserts(text, inserts)


def apply_inserts(text, inserts):
    inserts = sorted(inserts, key=lambda x: (x[0], x[2] if len(x) > 2 else 1))
    out = []
    pos = 0
    for ins in inserts:
        off, s = ins[0], ins[1]
        out.append(text[pos:off])
        out.append(s)
        pos = off
        if len(ins) > 3:
            pos = off + ins[3]      # replace: skip ins[3] characters of the source text
    out.append(text[pos:])
    return "".join(out)


# ---------------------------------------------------------------- macro expansion

def expand_macro(src_obj, call_text):
    """Expand a macro_rules! invocation textually. Supports the shapes used in the
    repository: a single rule whose matcher is a comma separated list of
    `$name:frag` and/or one repetition `$($name:frag),+`."""
    m = re.match(r"\s*([A-Za-z_0-9]+)\s*!\s*[\(\{](.*)[\)\}]\s*;?\s*$", call_text, re.S)
    if not m:
        raise LostAnchor("bad macro call " + call_text)
    mname, argtext = m.group(1), m.group(2)
    mdef = None
    for it in src_obj.items:
        if it.kind == "macro_def" and it.name == mname:
            mdef = it
    if mdef is None:
        raise LostAnchor("macro_rules! %s not found" % mname)
    ct = src_obj.ct
    # body: { (matcher) => { transcriber } ; (matcher) => { transcriber } ; ... }
    rules = []
    i = mdef.body_open + 1
    while i < mdef.body_close:
        if ct[i].text != "(":
            raise LostAnchor("macro matcher shape")
        mc = match_close(ct, i)
        matcher = src_obj.src[ct[i].end:ct[mc].start]
        j = mc + 1
        if not (ct[j].text == "=" and ct[j + 1].text == ">"):
            raise LostAnchor("macro => shape")
        to = j + 2
        tc = match_close(ct, to)
        body = src_obj.src[ct[to].end:ct[tc].start]
        rules.append((matcher, body))
        i = tc + 1
        if i < mdef.body_close and ct[i].text == ";":
            i += 1
    argtext_s = argtext.strip()
    for matcher, body in rules:
        matcher_n = re.sub(r"\s+", "", matcher)
        if matcher_n == "":
            if argtext_s == "":
                return body
            continue
        if argtext_s == "":
            continue
        rep = re.fullmatch(r"\$\(\$([a-z_]+):(ident|ty)\)(,?)([+*])", matcher_n)
        if rep:
            sep = rep.group(3)
            if sep == ",":
                args = [a.strip() for a in split_top(argtext, ",") if a.strip()]
            else:
                args = argtext.split()
            return expand_body(body, {}, rep.group(1), args)
        # `$($a:ty => $b:expr),* $(,)?`  (pairs)
        rep2 = re.fullmatch(r"\$\(\$([a-z_]+):(ident|ty)=>\$([a-z_]+):(ident|ty|expr)\),[+*](\$\(,\)\?)?", matcher_n)
        if rep2:
            pairs = [a.strip() for a in split_top(argtext, ",") if a.strip()]
            parts = []
            inner = re.search(r"\$\((.*)\)[*+]", body, re.S)
            if not inner:
                raise LostAnchor("macro pair body")
            for pr in pairs:
                l, _, r = pr.partition("=>")
                parts.append(expand_body(inner.group(1), {rep2.group(1): l.strip(), rep2.group(3): r.strip()}, None, []))
            return body[:inner.start()] + "".join(parts) + body[inner.end():]
        names = re.findall(r"\$([a-z_]+):(?:ident|ty|expr)", matcher_n)
        args = [a.strip() for a in split_top(argtext, ",") if a.strip()]
        if len(names) == len(args):
            return expand_body(body, dict(zip(names, args)), None, [])
    raise LostAnchor("no macro rule matches `%s`" % call_text.strip()[:80])


def split_top(s, sep):
    out = []
    depth = 0
    cur = []
    for ch in s:
        if ch in "([{<":
            depth += 1
        elif ch in ")]}>":
            depth -= 1
        if ch == sep and depth == 0:
            out.append("".join(cur))
            cur = []
        else:
            cur.append(ch)
    out.append("".join(cur))
    return out


def expand_body(body, binds, repname, replist):
    out = []
    i = 0
    n = len(body)
    while i < n:
        if body.startswith("$(", i):
            # repetition group
            depth = 0
            j = i + 1
            while j < n:
                if body[j] == "(":
                    depth += 1
                elif body[j] == ")":
                    depth -= 1
                    if depth == 0:
                        break
                j += 1
            inner = body[i + 2:j]
            k = j + 1
            sep = ""
            if body[k] in "+*":
                k += 1
            else:
                sep = body[k]
                k += 1
                if body[k] not in "+*":
                    raise LostAnchor("macro repetition")
                k += 1
            parts = []
            for a in replist:
                parts.append(expand_body(inner, dict(binds, **{repname: a}), None, []))
            out.append((sep + " ").join(parts) if sep else "".join(parts))
            i = k
            continue
        m = re.match(r"\$([a-z_]+)", body[i:])
        if m and m.group(1) in binds:
            out.append(binds[m.group(1)])
            i += m.end()
            continue
        out.append(body[i])
        i += 1
    return "".join(out)


# ---------------------------------------------------------------- template processing

class Unit:
    def __init__(self, repo, template_path):
        self.repo = repo
        self.template_path = template_path
        self.functions = []   # evidence: functions under contract
        self.rewrites = []
        self.dropped = []
        self.line_map = []    # (first_line, last_line, label) in generated file
        self.out_lines = []
        self.rules = set()    # optional rewrite rules switched on by `//@ rule <name>`

    def emit(self, text, label=None):
        lines = text.split("\n")
        first = len(self.out_lines) + 1
        self.out_lines.extend(lines)
        if label:
            self.line_map.append((first, len(self.out_lines), label))

    def generate(self):
        with open(self.template_path) as f:
            tl = f.read().split("\n")
        # `//@ include <file>` : textual inclusion of a shared specification file (relative to specs/)
        exp = []
        for line in tl:
            st = line.strip()
            if st.startswith("//@ include "):
                inc = os.path.join(os.path.dirname(self.template_path), st[len("//@ include "):].strip())
                with open(inc) as f2:
                    exp.extend(f2.read().split("\n"))
            elif st.startswith("//@ rule "):
                self.rules.add(st[len("//@ rule "):].strip())
            else:
                exp.append(line)
        tl = exp
        global ACTIVE_RULES
        ACTIVE_RULES = set(self.rules)
        i = 0
        n = len(tl)
        while i < n:
            line = tl[i]
            s = line.strip()
            if s.startswith("//@ "):
                i = self.directive(tl, i)
            else:
                self.out_lines.append(line)
                i += 1
        self.auto_consts()
        return "\n".join(self.out_lines)

    def auto_consts(self):
        """R19: a top-level `const NAME: T = ..;` item of a source file from which text was extracted is copied into the unit
        when the extracted text mentions NAME and the unit does not define it (a refactoring that names a magic number must
        not make the unit uncompilable, and the value of the constant is part of the code that runs)."""
        text = "\n".join(self.out_lines)
        rels = []
        for f in self.functions:
            if f["file"] not in rels and not f["file"].startswith("@"):
                rels.append(f["file"])
        add = []
        for rel in rels:
            src = Source.get(self.repo, rel)
            for it in src.items:
                if it.kind != "const":
                    continue
                nm = it.name
                if not re.search(r"\b" + re.escape(nm) + r"\b", text):
                    continue
                if re.search(r"\b(const|static)\s+" + re.escape(nm) + r"\b", text):
                    continue
                ctext = apply_rewrites(src.src[it.start:it.end], self.rewrites, f"{rel}::const {nm}")
                add.append((rel, nm, it, ctext, src))
        if not add:
            return
        # insert right after the first `verus! {` line
        at = None
        for k, l in enumerate(self.out_lines):
            if l.strip().startswith("verus!"):
                at = k + 1
                break
        if at is None:
            return
        block = []
        for rel, nm, it, ctext, src in add:
            block.append(f"// R19: constant copied from {rel} (mentioned by extracted text)")
            block.extend(ctext.split("\n"))
            self.rewrites.append({"rule": "R19", "in": f"{rel}::const {nm}", "before": "(not requested by the template)", "after": "const item copied verbatim: " + " ".join(ctext.split())[:120]})
            self.functions.append({"item": f"const {nm}", "file": rel, "lines": [src.line_of(it.start), src.line_of(it.end)], "sha_source": sha(ctext)})
        self.out_lines[at:at] = block
        sh = len(block)
        self.line_map = [(a + sh if a > at else a, b + sh if b > at else b, lab) for (a, b, lab) in self.line_map]

    # -- parsing helpers
    def payload(self, tl, i):
        """lines after tl[i] until next //@ ; returns (text, next_index)"""
        j = i + 1
        buf = []
        while j < len(tl) and not tl[j].strip().startswith("//@"):
            buf.append(tl[j])
            j += 1
        return "\n".join(buf), j

    def parse_fn_block(self, tl, i, stop_words):
        """parse fn-level sub-directives starting at tl[i]; stops at a line whose directive word is in stop_words.
        returns (spl, index_of_stop_line)"""
        spl = {"loops": {}}
        while i < len(tl):
            s = tl[i].strip()
            if not s.startswith("//@"):
                i += 1
                continue
            words = s[3:].split()
            w = words[0] if words else ""
            if w in stop_words:
                return spl, i
            if w in ("sig", "head", "attr"):
                p, j = self.payload(tl, i)
                spl[w] = spl.get(w, "") + p + "\n"
                i = j
            elif w == "ret":
                spl["ret"] = words[1]
                i += 1
            elif w == "strlen":
                spl["strlen"] = words[1]
                i += 1
            elif w == "text-sub":
                # `//@ text-sub OLD => NEW`: substitution in the extracted text of this fn (rewrite SUB; used to resolve an
                # associated type the verifier cannot express, e.g. a generic associated type, to the type the impl binds it to)
                a, b = s[3:].strip()[len("text-sub"):].split(" => ", 1)   # the FIRST ` => ` separates old from new
                # `\n` in either side stands for a line break (anchors that span lines)
                spl.setdefault("subs", []).append((a.strip().replace("\\n", "\n"), b.strip().replace("\\n", "\n")))
                i += 1
            elif w == "body" and words[1] == "external":
                spl["external"] = True
                i += 1
            elif w == "loop":
                k = int(words[1])
                what = words[2]
                d = spl["loops"].setdefault(k, {})
                if what == "iter":
                    d["iter"] = words[3]
                    i += 1
                elif what == "itercall":
                    # rule R16: `for P in E` -> `for P in E.iter()` / `for P in (&E).iter()`-free form: the iterated
                    # expression is a REFERENCE to a std collection, whose IntoIterator impl is `self.iter()`
                    d["itercall"] = True
                    i += 1
                else:
                    p, j = self.payload(tl, i)
                    d[what] = d.get(what, "") + p + "\n"
                    i = j
            else:
                raise LostAnchor(f"{self.template_path}:{i+1}: unknown directive {s}")
        raise LostAnchor("unterminated directive block")

    def directive(self, tl, i):
        s = tl[i].strip()[3:].strip()
        kind, _, rest = s.partition(" ")
        if kind in ("fn", "impl", "trait", "macro", "struct", "const", "enum", "type"):
            rel, _, target = rest.partition("::")
            rel = rel.strip()
            target = target.strip()
            src = Source.get(self.repo, rel)
        else:
            raise LostAnchor(f"{self.template_path}:{i+1}: unknown directive {s}")
        if kind == "fn":
            spl, j = self.parse_fn_block(tl, i + 1, ("end",))
            it = self.find(src.items, "fn", target, src)
            text = src.src[it.start:it.end]
            self.emit_fn(src, it, text, spl, target)
            return j + 1
        if kind in ("struct", "const", "enum", "type"):
            p, j = self.payload(tl, i)
            it = self.find(src.items, kind, target, src)
            text = src.src[it.start:it.end]
            new = apply_rewrites(text, self.rewrites, f"{rel}::{target}")
            if kind == "struct":
                new = make_fields_pub(new)
            if kind in ("struct", "enum") and not new.lstrip().startswith("pub"):
                new = "pub " + new.lstrip()
                self.rewrites.append({"rule": "R6", "in": f"{rel}::{target}", "before": f"{kind} {target}", "after": f"pub {kind} {target}"})
            self.record(src, it, f"{kind} {target}", text, new)
            self.emit(p.rstrip() + "\n" + new if p.strip() else new, f"{rel}::{kind} {target}")
            if j < len(tl) and tl[j].strip() == "//@ end":
                j += 1
            return j
        # containers
        if kind == "macro":
            if "::" in target and "!(" not in target.split("::")[0]:
                # form: name! :: impl header   -> search all invocations of the macro
                mname, _, hdr = target.partition("::")
                mname = mname.strip().rstrip("!").strip()
                want = norm(hdr.strip())
                cont = None
                for it in src.items:
                    if it.kind == "macro_call" and it.name == mname:
                        call = src.src[it.start:it.end]
                        exp = expand_macro(src, call)
                        msrc = MacroSource(exp, rel, call, src)
                        for cand in msrc.items:
                            if cand.kind == "impl" and header_text(cand) == want:
                                cont = cand
                                csrc = msrc
                                chosen = exp
                if cont is None:
                    raise LostAnchor(f"{rel}: no invocation of {mname}! expands to `{hdr.strip()}`")
                self.rewrites.append({"rule": "MACRO", "in": f"{rel}::{target}", "before": target, "after": "textual macro_rules! expansion, sha " + sha(chosen)})
            else:
                exp = expand_macro(src, target)
                msrc = MacroSource(exp, rel, target, src)
                items = msrc.items
                if len(items) != 1 or items[0].kind != "impl":
                    raise LostAnchor(f"macro {target}: expansion is not a single impl")
                cont = items[0]
                csrc = msrc
                self.rewrites.append({"rule": "MACRO", "in": f"{rel}::{target}", "before": target, "after": "textual macro_rules! expansion, sha " + sha(exp)})
        else:
            csrc = src
            cont = None
            want = norm(target)
            cands = [it for it in src.items if it.kind == kind and header_text(it) == want]
            if not cands:
                raise LostAnchor(f"{rel}: {kind} `{target}` not found")
            cont = cands[-1]
            if len(cands) > 1:
                # several blocks with the same header (e.g. two `impl<Db> WriteBatch<Db>`): take the one that holds the first
                # member the directive block asks for
                first = None
                for q in range(i + 1, len(tl)):
                    st = tl[q].strip()
                    if st.startswith("//@ member "):
                        first = st.split()[2]
                        break
                    if st.startswith("//@ end"):
                        break
                if first is not None:
                    for c in cands:
                        names = [m.name for m in scan_items(src.ct, c.body_open + 1, c.body_close) if m.kind == "fn"]
                        if first in names:
                            cont = c
                            break
        return self.container(tl, i + 1, csrc, cont, kind, rel, target)

    def find(self, items, kind, name, src):
        for it in items:
            if it.kind == kind and it.name == name:
                return it
        raise LostAnchor(f"{src.rel}: {kind} {name} not found")

    def record(self, src, it, label, text, new):
        self.functions.append({
            "item": label,
            "file": src.rel,
            "lines": [src.line_of(it.start), src.line_of(it.end)],
            "sha_source": sha(text),
        })

    def emit_fn(self, src, it, text, spl, label, indent=""):
        ctx = f"{src.rel}::{label}"
        new = apply_rewrites(text, self.rewrites, ctx)
        ann = splice_fn(new, spl, label, self.rewrites)
        self.record(src, it, f"fn {label}", text, new)
        if spl.get("external"):
            self.dropped.append(f"{ctx}: body not verified (external_body, contract trusted)")
        self.emit(ann, ctx)

    def container(self, tl, i, src, cont, kind, rel, target):
        ct = src.ct
        header = src.src[cont.hdr[0].start:cont.hdr[-1].end]
        header = apply_rewrites(header, self.rewrites, f"{rel}::{target}")
        members = scan_items(ct, cont.body_open + 1, cont.body_close)
        selected = set()
        attr = ""
        pieces = []
        label = f"{rel}::{target}"
        while True:
            if i >= len(tl):
                raise LostAnchor("unterminated container block")
            s = tl[i].strip()
            if not s.startswith("//@"):
                i += 1
                continue
            words = s[3:].split()
            w = words[0]
            if w == "end":
                i += 1
                break
            if w == "header+":
                header = header + " " + s[3:].strip()[len("header+"):].strip()
                i += 1
            elif w == "header-sub":
                # `//@ header-sub OLD => NEW`: textual substitution in the impl/trait header (e.g. to check an impl against
                # a differently named contract trait); recorded as rewrite HDR
                a, b = s[3:].strip()[len("header-sub"):].split("=>")
                a, b = a.strip(), b.strip()
                if a not in header:
                    raise LostAnchor(f"{label}: header-sub: `{a}` not in header `{header}`")
                self.rewrites.append({"rule": "HDR", "in": label, "before": header, "after": header.replace(a, b)})
                header = header.replace(a, b)
                i += 1
            elif w == "attr":
                p, i = self.payload(tl, i)
                attr += p + "\n"
            elif w == "extra":
                p, i = self.payload(tl, i)
                pieces.append(("extra", p, None))
            elif w == "assoc":
                # `//@ assoc <name>`: an associated type / const of the container, copied verbatim
                name = words[1]
                it = None
                for m in members:
                    if m.kind in ("type", "const") and m.name == name:
                        it = m
                if it is None:
                    raise LostAnchor(f"{label}: associated item {name} not found")
                selected.add(name)
                text = src.src[it.start:it.end]
                pieces.append(("extra", apply_rewrites(text, self.rewrites, f"{label}::{name}"), None))
                i += 1
            elif w == "member":
                name = words[1]
                spl, i = self.parse_fn_block(tl, i + 1, ("member", "extra", "end", "header+", "header-sub", "assoc"))
                it = None
                for m in members:
                    if m.kind == "fn" and m.name == name:
                        it = m
                if it is None:
                    raise LostAnchor(f"{label}: member fn {name} not found")
                selected.add(name)
                text = src.src[it.start:it.end]
                ctx = f"{label}::{name}"
                new = apply_rewrites(text, self.rewrites, ctx)
                ann = splice_fn(new, spl, name, self.rewrites)
                self.functions.append({
                    "item": f"{target} :: fn {name}",
                    "file": rel,
                    "lines": src.lines(it),
                    "sha_source": sha(text),
                })
                if spl.get("external"):
                    self.dropped.append(f"{ctx}: body not verified (external_body, contract trusted)")
                pieces.append(("fn", ann, ctx))
            else:
                raise LostAnchor(f"{self.template_path}:{i+1}: unknown directive {s}")
        for m in members:
            if m.kind == "fn" and m.name not in selected:
                self.dropped.append(f"{label}::{m.name}: member not extracted (not under contract)")
            elif m.kind != "fn" and m.name not in selected:
                self.dropped.append(f"{label}: member {m.kind} {m.name} not extracted")
        self.emit(attr.rstrip() + ("\n" if attr.strip() else "") + header + " {")
        for k, p, ctx in pieces:
            self.emit(p, ctx)
        self.emit("}")
        return i


class MacroSource:
    """A macro expansion presented like a Source."""

    def __init__(self, text, rel, target, parent):
        self.rel = rel
        self.src = text
        self.toks = lex(text)
        self.ct = code_tokens(self.toks)
        self.items = scan_items(self.ct, 0, len(self.ct))
        self.parent = parent
        self.target = target
        # line numbers: of the invocation in the parent
        self._line = None
        want = norm(target.rstrip(";"))
        for it in parent.items:
            if it.kind == "macro_call" and norm(parent.src[it.start:it.end].rstrip(";")) == want:
                self._line = [parent.line_of(it.start), parent.line_of(it.end)]
        if self._line is None:
            raise LostAnchor(f"{rel}: macro invocation `{target}` not found")

    def lines(self, it):
        return self._line

    def line_of(self, off):
        return self._line[0]


def _lines(self, it):
    return [self.line_of(it.start), self.line_of(it.end)]


Source.lines = _lines


def make_fields_pub(text):
    """struct fields -> pub (R6, single-file unit). Only named-field structs."""
    toks = lex(text)
    ct = code_tokens(toks)
    # tuple struct:  struct X<..>(T, U);  ->  struct X<..>(pub T, pub U);
    for i, t in enumerate(ct):
        if t.text == "{":
            break
        if t.text == "(" and i > 0:
            c = match_close(ct, i)
            ins = []
            depth = 0
            expect = True
            j = i + 1
            while j < c:
                x = ct[j]
                if x.text == "#" and ct[j + 1].text == "[":
                    j = match_close(ct, j + 1) + 1
                    continue
                if x.kind == "punct" and x.text in "([{<":
                    depth += 1
                elif x.kind == "punct" and x.text in ")]}>":
                    depth -= 1
                if depth == 0 and expect and not (x.kind == "punct" and x.text == ","):
                    if x.text != "pub":
                        ins.append((x.start, "pub "))
                    expect = False
                if depth == 0 and x.text == ",":
                    expect = True
                j += 1
            return apply_inserts(text, ins)
    # find body
    for i, t in enumerate(ct):
        if t.text == "{":
            o = i
            break
    else:
        return text
    c = match_close(ct, o)
    inserts = []
    depth = 0
    expect_field = True
    i = o + 1
    while i < c:
        t = ct[i]
        if t.kind == "punct" and t.text in "([{<":
            depth += 1
        elif t.kind == "punct" and t.text in ")]}>":
            depth -= 1
        if depth == 0 and expect_field and t.kind == "ident":
            if t.text != "pub":
                inserts.append((t.start, "pub "))
            expect_field = False
        if depth == 0 and t.text == ",":
            expect_field = True
        if t.text == "#" and ct[i + 1].text == "[":
            i = match_close(ct, i + 1) + 1
            continue
        i += 1
    return apply_inserts(text, inserts)


def generate(repo, template, out_path):
    u = Unit(repo, template)
    text = u.generate()
    os.makedirs(os.path.dirname(out_path), exist_ok=True)
    with open(out_path, "w") as f:
        f.write(text)
    return u


if __name__ == "__main__":
    u = generate(sys.argv[1], sys.argv[2], sys.argv[3])
    print(len(u.functions), "items;", len(u.rewrites), "rewrites;", len(u.dropped), "dropped")
