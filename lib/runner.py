"""Runs the units of one property, classifies the outcome, writes evidence.

Exit codes: 0 all obligations discharged (or only known findings)
            1 violation (a named obligation failed)        -> VIOLATION line
            2 undecided (lost anchor, unsupported construct, rlimit, tool failure) -> no VIOLATION line
"""
import json
import os
import re
import shutil
import subprocess
import sys
import time

HERE = os.path.dirname(os.path.abspath(__file__))
ROOT = os.path.dirname(HERE)
sys.path.insert(0, HERE)
import gen  # noqa: E402

REPO = os.environ.get("QBICE_REPO", "/repo")
OUT = os.path.join(ROOT, "out")

OBLIGATION_MSGS = (
    "postcondition not satisfied",
    "precondition not satisfied",
    "invariant not satisfied",
    "assertion failed",
    "possible arithmetic underflow/overflow",
    "possible division by zero",
    "index out of bounds",
    "possible bit shift underflow/overflow",
    "decreases not satisfied",
    "could not prove termination",
    "unreachable",
    "loop invariant",
    "recommendation not met",
    "possible out of bounds",
    "cannot prove",
    "failed to",
    "may be out of range",
    "bit-vector",
    "assert_by",
    "broadcast",
)
UNDECIDED_MSGS = ("rlimit", "Resource limit", "timed out", "time limit", "unsupported", "not supported",
                  "internal error", "panicked", "ICE")

ASSUMPTION_PATTERNS = [
    (r"\bassume\s*\(", "assume("),
    (r"\badmit\s*\(", "admit("),
    (r"external_body", "external_body"),
    (r"assume_specification", "assume_specification"),
    (r"external_type_specification", "external_type_specification"),
    (r"verifier::external\b", "verifier::external"),
    (r"kani::assume", "kani::assume"),
    (r"kani::stub", "kani::stub"),
]


class Undecided(Exception):
    pass


def scan_assumptions(text, where):
    """mechanical scan for every construct that is an assumption, with the item it is attached to"""
    found = []
    lines = text.split("\n")
    for i, line in enumerate(lines):
        code = line.split("//")[0]
        for pat, name in ASSUMPTION_PATTERNS:
            if re.search(pat, code):
                # describe by the next non-attribute line
                j = i
                desc = line.strip()
                if name in ("external_body", "external_type_specification", "verifier::external"):
                    j = i + 1
                    while j < len(lines) and (lines[j].strip().startswith("#[") or not lines[j].strip()):
                        j += 1
                    if j < len(lines):
                        desc = lines[j].strip()
                found.append(f"{where}: {name}: {desc[:160]}")
    # de-duplicate keeping order
    seen = set()
    out = []
    for f in found:
        if f not in seen:
            seen.add(f)
            out.append(f)
    return out


class VerusResult:
    def __init__(self, unit):
        self.unit = unit
        self.functions = []      # (name, mode, success, ms)
        self.errors = []         # dicts: msg, line, label, text
        self.canaries_ok = []
        self.canaries_bad = []
        self.smt_ms = 0
        self.total_ms = 0
        self.stderr = ""
        self.cmd = ""
        self.gen = None


def repo_edition():
    """the Rust edition the code under check is compiled with (workspace Cargo.toml): the extracted text is verified under the
    same edition (temporaries, captures and keywords differ between editions)"""
    try:
        m = re.search(r'^\s*edition\s*=\s*"(\d{4})"', open(os.path.join(REPO, "Cargo.toml")).read(), re.M)
        return m.group(1) if m else "2021"
    except Exception:
        return "2021"


def run_verus_unit(prop, unit_name, tier, _lost=None, _text=None):
    tmpl = os.path.join(ROOT, "specs", unit_name + ".rs")
    outdir = os.path.join(OUT, prop)
    os.makedirs(outdir, exist_ok=True)
    unit_path = os.path.join(outdir, unit_name + "_unit.rs")
    gen.Source.cache.clear()
    try:
        u = gen.generate(REPO, tmpl, unit_path)
    except (gen.LostAnchor, gen.LexError) as e:
        raise Undecided(f"{unit_name}: extraction failed (lost anchor / unsupported shape): {e}")
    if _text is not None:
        # second pass without the vacuity guards that did not compile (line count preserved)
        with open(unit_path, "w") as f:
            f.write(_text)
        u.out_lines = _text.split("\n")
    rlimit = "20" if tier == "quick" else "80"
    cmd = ["verus", "--edition", repo_edition(), unit_path, "--output-json", "--time", "--rlimit", rlimit, "--multiple-errors", "4",
           "--num-threads", "14", "--triggers-mode", "silent"]
    t0 = time.time()
    p = subprocess.run(cmd, stdout=subprocess.PIPE, stderr=subprocess.PIPE, text=True, cwd=outdir)
    res = VerusResult(unit_name)
    res.gen = u
    res.cmd = " ".join(cmd)
    res.stderr = p.stderr
    res.wall = time.time() - t0
    with open(os.path.join(outdir, unit_name + ".verus.stderr"), "w") as f:
        f.write(p.stderr)
    try:
        js = json.loads(p.stdout[p.stdout.index("{"):])
    except Exception:
        raise Undecided(f"{unit_name}: verus produced no JSON (tool failure):\n{p.stderr[-2000:]}")
    vr = js.get("verification-results", {})
    tm = js.get("times-ms", {})
    res.total_ms = tm.get("total", 0)
    smt = tm.get("smt", {})
    res.smt_ms = smt.get("smt-run", 0)
    for mod in smt.get("smt-run-module-times", []):
        for fb in mod.get("function-breakdown", []):
            res.functions.append((fb["function"], fb.get("mode:", fb.get("mode", "?")), bool(fb["success"]), fb.get("time", 0)))
    # diagnostics
    res.errors = parse_errors(p.stderr, u, unit_path)
    res.canaries_lost = list(_lost or [])
    if (vr.get("encountered-vir-error") or (vr.get("encountered-error") and not res.functions)) and not _lost:
        # a vacuity guard (a hand-written `fn canary_*` that CALLS a function under contract) no longer type-checks, e.g. because
        # the function got another parameter: the guard is lost (reported as undecided), but that must not hide the real
        # obligations -- drop exactly the guards the compiler rejected and verify the rest
        bad = set()
        only_canaries = bool(res.errors)
        for e in res.errors:
            fn, _impl = enclosing(u.out_lines, e["line"]) if e.get("line") else (None, None)
            if fn and fn.startswith("canary_"):
                bad.add(fn)
            else:
                only_canaries = False
        if only_canaries and bad:
            text = open(unit_path).read().split("\n")
            out, i = [], 0
            while i < len(text):
                m = FN_RE.match(text[i])
                if m and m.group(1) in bad and not text[i].startswith(" "):
                    j = i
                    while j < len(text) and text[j].rstrip() != "}":
                        j += 1
                    # keep the line count (the line map labels the functions that follow)
                    out.append(f"// vacuity guard {m.group(1)} removed: it no longer type-checks against the extracted code")
                    out.extend(["//"] * (j - i))
                    i = j + 1
                    continue
                out.append(text[i])
                i += 1
            return run_verus_unit(prop, unit_name, tier, _lost=sorted(bad), _text="\n".join(out))
    if vr.get("encountered-vir-error") or (vr.get("encountered-error") and not res.functions):
        raise Undecided(f"{unit_name}: verus rejected the unit before verification (unsupported construct / type error):\n"
                        + "\n".join(e["msg"] + " @" + str(e["line"]) for e in res.errors[:6]) + "\n" + p.stderr[-1500:])
    if not res.functions:
        raise Undecided(f"{unit_name}: zero obligations generated (vacuity guard)")
    return res, vr


def shared_prefix_names(prop, unit_name):
    """names of the function-VCs that come from the LEADING `//@ include` files of a unit (the vocabulary shared between
    the units of one property).  Computed by verifying the unit truncated after its leading includes; used only to avoid
    counting one function twice in the evidence.  Returns (set of names without crate prefix, [include files])."""
    tmpl = os.path.join(ROOT, "specs", unit_name + ".rs")
    lines = open(tmpl).read().split("\n")
    out, incs, seen_verus = [], [], False
    for ln in lines:
        st = ln.strip()
        if not seen_verus:
            out.append(ln)
            if st.startswith("verus!"):
                seen_verus = True
            continue
        if st.startswith("//@ include "):
            inc = st[len("//@ include "):].strip()
            incs.append(inc)
            out.append("//@ include " + os.path.join(ROOT, "specs", inc))
            continue
        if st == "" or st.startswith("//") and not st.startswith("//@") or st.startswith("global "):
            out.append(ln)
            continue
        break
    if not incs:
        return set(), []
    while out and not out[-1].strip().startswith("//@ include "):
        out.pop()   # comments that belonged to the first item after the includes
    out += ["} // verus!", "fn main() {}", ""]
    outdir = os.path.join(OUT, prop)
    tp = os.path.join(outdir, unit_name + "_prefix.tpl.rs")
    up = os.path.join(outdir, unit_name + "_prefix_unit.rs")
    with open(tp, "w") as f:
        f.write("\n".join(out))
    gen.Source.cache.clear()
    try:
        gen.generate(REPO, tp, up)
    except Exception:
        return set(), incs
    p = subprocess.run(["verus", "--edition", repo_edition(), up, "--output-json", "--time", "--triggers-mode", "silent", "--num-threads", "14"],
                       stdout=subprocess.PIPE, stderr=subprocess.PIPE, text=True, cwd=outdir)
    try:
        js = json.loads(p.stdout[p.stdout.index("{"):])
    except Exception:
        return set(), incs
    names = set()
    for mod in js.get("times-ms", {}).get("smt", {}).get("smt-run-module-times", []):
        for fb in mod.get("function-breakdown", []):
            names.add(fb["function"].split("::", 1)[-1])
    return names, incs


ERR_RE = re.compile(r"^(error|warning|note)(\[[A-Z0-9]+\])?: (.*)$")
LOC_RE = re.compile(r"^\s*--> (.*?):(\d+):(\d+)")


def parse_errors(stderr, u, unit_path):
    errs = []
    lines = stderr.split("\n")
    i = 0
    while i < len(lines):
        m = ERR_RE.match(lines[i])
        if m and m.group(1) == "error":
            msg = m.group(3)
            line = None
            blk = [lines[i]]
            j = i + 1
            while j < len(lines) and not ERR_RE.match(lines[j]):
                blk.append(lines[j])
                lm = LOC_RE.match(lines[j])
                if lm and line is None:
                    line = int(lm.group(2))
                j += 1
            if msg.startswith("aborting due to"):
                i = j
                continue
            # secondary location: "at this exit" / "at the end of the function body" lines carry the fn
            sec = []
            for b in blk:
                mm = re.match(r"^\s*(\d+)\s*\|", b)
                if mm:
                    sec.append(int(mm.group(1)))
            label = label_of(u, line)
            label2 = None
            for s in sec:
                l2 = label_of(u, s)
                if l2 and l2 != label:
                    label2 = l2
            unit_lines = u.out_lines
            where_line = max(sec) if sec else line
            fn, impl = enclosing(unit_lines, where_line) if where_line else (None, None)
            errs.append({"msg": msg, "line": line, "label": label, "at": label2, "fn": fn, "impl": impl,
                         "text": "\n".join(blk)[:3000]})
            i = j
        else:
            i += 1
    return errs


FN_RE = re.compile(r"^\s*(?:pub(?:\([a-z]+\))?\s+)?(?:(?:proof|exec|spec|broadcast|open|closed|const|uninterp|unsafe)\s+)*fn\s+([A-Za-z_0-9]+)")
IMPL_RE = re.compile(r"^\s*(impl\b.*?)\s*\{?\s*$")


def enclosing(unit_lines, line):
    """(fn name, impl header) enclosing a 1-based line of the generated unit"""
    fn = None
    impl = None
    i = min(line, len(unit_lines)) - 1
    while i >= 0:
        t = unit_lines[i]
        if fn is None:
            m = FN_RE.match(t)
            if m:
                fn = m.group(1)
        if t.startswith("impl") or t.startswith("pub trait") or t.startswith("trait"):
            impl = t.strip().rstrip("{").strip()
            break
        if fn is not None and (t.startswith("}") or t.startswith("pub ") or t.startswith("fn ") or t.startswith("proof ")):
            # top-level function: no impl
            if FN_RE.match(t) and not t.startswith(" "):
                break
        i -= 1
    return fn, impl


def label_of(u, line):
    if line is None:
        return None
    best = None
    for a, b, lab in u.line_map:
        if a <= line <= b:
            if best is None or (b - a) < (best[1] - best[0]):
                best = (a, b, lab)
    return best[2] if best else None


def classify(res, vr):
    """returns (failed_obligations, undecided_reasons). Canaries are expected to fail."""
    failed = []
    undecided = []
    canary_fail = set()
    fn_failed = [f for f in res.functions if not f[2]]
    for name, mode, ok, ms in res.functions:
        short = name.split("::")[-1]
        if short.startswith("canary_"):
            if ok:
                res.canaries_bad.append(name)
            else:
                res.canaries_ok.append(name)
                canary_fail.add(name)
    real_failed_fns = [f for f in fn_failed if f[0] not in canary_fail]
    # map errors to obligations; drop the ones that sit inside canaries
    for e in res.errors:
        txt = e["text"]
        if any(k in e["msg"] for k in ("rlimit", "Resource limit", "timed out")):
            undecided.append(f"{res.unit}: {e['msg']}")
            continue
        if (e.get("fn") or "").startswith("canary_"):
            continue
        failed.append(e)
    if res.canaries_bad:
        undecided.append(f"{res.unit}: vacuity guard: canary passed: {res.canaries_bad}")
    if getattr(res, "canaries_lost", None):
        undecided.append(f"{res.unit}: vacuity guard lost: {res.canaries_lost} no longer type-check against the extracted code (changed signature?); the remaining obligations were still checked")
    # consistency: a failed function with no parsed error still is a failed obligation
    if real_failed_fns and not failed and not undecided:
        for f in real_failed_fns:
            failed.append({"msg": "function failed verification", "line": None, "label": f[0], "at": None, "text": res.stderr[-3000:]})
    # filter canary errors that slipped: if the number of failed non-canary functions is zero, nothing failed
    if not real_failed_fns:
        failed = []
    return failed, undecided


def obligation_name(unit, e):
    kind = e["msg"].split(":")[0].strip().replace(" ", "_")
    where = e.get("fn") or "?"
    if e.get("impl"):
        where = re.sub(r"\s+", " ", e["impl"]) + " :: " + where
    src = e.get("at") or e.get("label")
    return f"{unit}/{where}/{kind}" + (f" [{src}]" if src else "")


# ------------------------------------------------------------------ pre-steps
def expand_fixture(crate, outname):
    """expand a fixture crate with the REAL proc-macro crates from /repo; writes out/aux/<outname>"""
    cdir = os.path.join(ROOT, "fixtures", crate)
    shutil.copyfile(os.path.join(REPO, "Cargo.lock"), os.path.join(cdir, "Cargo.lock"))
    env = dict(os.environ)
    env["CARGO_NET_OFFLINE"] = "true"
    env["CARGO_TARGET_DIR"] = os.path.join(OUT, "target-expand")
    aux = os.path.join(OUT, "aux")
    os.makedirs(aux, exist_ok=True)
    cmd = ["cargo", "+nightly", "rustc", "--offline", "--lib", "--", "-Zunpretty=expanded"]
    p = subprocess.run(cmd, cwd=cdir, env=env, stdout=subprocess.PIPE, stderr=subprocess.PIPE, text=True, timeout=1800)
    if p.returncode != 0 or "impl" not in p.stdout:
        raise Undecided(f"fixture expansion of {crate} failed (the derive crate does not build or rejects the fixture):\n" + p.stderr[-1500:])
    with open(os.path.join(aux, outname), "w") as f:
        f.write(p.stdout)
    return "cd fixtures/%s && %s > out/aux/%s" % (crate, " ".join(cmd), outname)


# ------------------------------------------------------------------ Kani

class KaniResult:
    def __init__(self):
        self.harnesses = {}   # name -> dict(status, checks, failed, cover_ok, cover_total, time, failed_checks)
        self.cmd = ""
        self.wall = 0.0
        self.log = ""


def run_kani(prop, crate, harnesses, tier, extra_args=(), jobs=12, timeout=3000, repo_crate=None):
    if repo_crate:
        # harness sources live in /verif/hooks and enter the REAL crate through its guarded hook line
        cdir = os.path.join(REPO, "crates", repo_crate)
        crate = "repo_" + repo_crate
    else:
        cdir = os.path.join(ROOT, "kani", crate)
        shutil.copyfile(os.path.join(REPO, "Cargo.lock"), os.path.join(cdir, "Cargo.lock"))
    env = dict(os.environ)
    env["CARGO_NET_OFFLINE"] = "true"
    env["CARGO_TARGET_DIR"] = os.path.join(OUT, "target-kani" + ("-" + repo_crate if repo_crate else ""))
    env["QBICE_VERIF_DIR"] = ROOT
    cmd = ["cargo", "kani", "-Z", "stubbing", "-Z", "function-contracts", "--output-format", "terse", "-j", str(jobs)]
    cmd += list(extra_args)
    for h in harnesses:
        cmd += ["--harness", h]
    t0 = time.time()
    try:
        p = subprocess.run(cmd, cwd=cdir, env=env, stdout=subprocess.PIPE, stderr=subprocess.STDOUT, text=True, timeout=timeout)
        out = p.stdout
    except subprocess.TimeoutExpired as e:
        out = (e.stdout or b"").decode() if isinstance(e.stdout, bytes) else (e.stdout or "")
        out += "\nTIMEOUT"
    kr = KaniResult()
    kr.cmd = "cd %s && QBICE_VERIF_DIR=/verif CARGO_NET_OFFLINE=true %s" % (cdir, " ".join(cmd))
    kr.wall = time.time() - t0
    kr.log = out
    os.makedirs(os.path.join(OUT, prop), exist_ok=True)
    with open(os.path.join(OUT, prop, f"kani_{crate}.log"), "w") as f:
        f.write(out)
    # parse: sequential output ("Checking harness X..." then a result block) and the -j format
    # ("Thread N: Checking harness X..." ... "Thread N: " + result block)
    cur = {None: None}
    blocks = {}
    active = None
    for line in out.split("\n"):
        m = re.match(r"^(?:Thread (\d+): )?Checking harness (\S+?)\.\.\.", line)
        if m:
            th = m.group(1)
            cur[th] = m.group(2)
            blocks.setdefault(m.group(2), [])
            active = m.group(2)
            continue
        m = re.match(r"^Thread (\d+): (.*)$", line)
        if m:
            active = cur.get(m.group(1))
            if active:
                blocks[active].append(m.group(2))
            continue
        if active:
            blocks[active].append(line)
    for name, lines in blocks.items():
        b = "\n".join(lines)
        short = name.split("::")[-1]
        d = {"status": "UNKNOWN", "checks": 0, "failed": 0, "cover_ok": 0, "cover_total": 0, "time": 0.0, "failed_checks": [], "stubs": []}
        m = re.search(r"\*\* (\d+) of (\d+) failed", b)
        if m:
            d["failed"] = int(m.group(1))
            d["checks"] = int(m.group(2))
        m = re.search(r"\*\* (\d+) of (\d+) cover properties satisfied", b)
        if m:
            d["cover_ok"] = int(m.group(1))
            d["cover_total"] = int(m.group(2))
        m = re.search(r"VERIFICATION:- (\w+)", b)
        if m:
            d["status"] = m.group(1)
        m = re.search(r"Verification Time: ([0-9.]+)s", b)
        if m:
            d["time"] = float(m.group(1))
        d["stubs"] = re.findall(r"- Stub: (.*)", b)
        d["failed_checks"] = re.findall(r"^Failed Checks: (.*)$", b, re.M)
        d["block"] = b[:6000]
        kr.harnesses[short] = d
    return kr


def kani_playback(grp, harness, timeout=1800):
    """re-run one failed harness with concrete playback: Kani prints a unit test with the concrete counterexample values
    (the harness executes the real code, so this IS the failing input on the real code)"""
    if grp.get("repo_crate"):
        cdir = os.path.join(REPO, "crates", grp["repo_crate"])
        tdir = os.path.join(OUT, "target-kani-" + grp["repo_crate"])
    else:
        cdir = os.path.join(ROOT, "kani", grp["crate"])
        tdir = os.path.join(OUT, "target-kani")
    env = dict(os.environ)
    env.update({"CARGO_NET_OFFLINE": "true", "CARGO_TARGET_DIR": tdir, "QBICE_VERIF_DIR": ROOT})
    cmd = ["cargo", "kani", "-Z", "stubbing", "-Z", "function-contracts", "-Z", "concrete-playback", "--concrete-playback=print",
           "--harness", harness]
    try:
        p = subprocess.run(cmd, cwd=cdir, env=env, stdout=subprocess.PIPE, stderr=subprocess.STDOUT, text=True, timeout=timeout)
    except Exception as e:
        return None
    out = p.stdout
    i = out.find("Concrete playback unit test")
    if i < 0:
        return None
    return out[i:i + 4000]


# ------------------------------------------------------------------ native bounded runs on the real crate (through the hook)
class NativeResult:
    def __init__(self):
        self.ok = False
        self.violation = None
        self.cases = 0
        self.cmd = ""
        self.wall = 0.0
        self.undecided = None


def run_native(prop, step, tier):
    """step: dict(name, repo_crate, test, env, miri(bool), ok_re, bad_re). Runs `cargo test` of one hook test in the real crate
    with --cfg qbice_verif (optionally under Miri)."""
    cdir = os.path.join(REPO, "crates", step["repo_crate"])
    env = dict(os.environ)
    env["CARGO_NET_OFFLINE"] = "true"
    env["QBICE_VERIF_DIR"] = ROOT
    env["RUSTFLAGS"] = (env.get("RUSTFLAGS", "") + " --cfg qbice_verif").strip()
    for k, v in step.get("env", {}).items():
        env[k] = str(v)
    if step.get("miri"):
        env["CARGO_TARGET_DIR"] = os.path.join(OUT, "target-miri")
        env["MIRIFLAGS"] = "-Zmiri-disable-isolation"
        cmd = ["cargo", "+nightly", "miri", "test", "--offline", "-p", step["package"], "--lib", step["test"], "--", "--nocapture"]
    else:
        env["CARGO_TARGET_DIR"] = os.path.join(OUT, "target-hook")
        cmd = ["cargo", "test", "--offline", "-p", step["package"], "--lib", step["test"], "--", "--nocapture"]
    t0 = time.time()
    nr = NativeResult()
    nr.cmd = "cd %s && RUSTFLAGS='--cfg qbice_verif' QBICE_VERIF_DIR=/verif %s %s" % (cdir, " ".join(f"{k}={v}" for k, v in step.get("env", {}).items()), " ".join(cmd))
    try:
        p = subprocess.run(cmd, cwd=cdir, env=env, stdout=subprocess.PIPE, stderr=subprocess.STDOUT, text=True, timeout=step.get("timeout", 3000))
        out = p.stdout
    except subprocess.TimeoutExpired:
        nr.undecided = f"{step['name']}: timeout"
        return nr
    nr.wall = time.time() - t0
    os.makedirs(os.path.join(OUT, prop), exist_ok=True)
    with open(os.path.join(OUT, prop, f"native_{step['name']}.log"), "w") as f:
        f.write(out)
    m = re.search(step["ok_re"], out)
    b = re.search(step["bad_re"], out)
    if b:
        nr.violation = b.group(0)[:1500]
    elif "Undefined Behavior" in out or "error: memory leaked" in out:
        i = out.find("Undefined Behavior") if "Undefined Behavior" in out else out.find("memory leaked")
        nr.violation = "Miri: " + out[max(0, i - 200):i + 1200]
    elif m and p.returncode == 0:
        nr.ok = True
        try:
            nr.cases = int(m.group(1))
        except Exception:
            nr.cases = 1
    else:
        # the test ran and the REAL code panicked under it (overflow check, unwrap, assert inside the crate): that is a failed
        # clause ("no panic"), not a tool problem -- provided the panic site is in the repository's code, not in the hook
        pm = re.search(r"panicked at ([^\n:]+):(\d+):\d+:\n([^\n]*)", out)
        if pm and "could not compile" not in out and "/hooks/" not in pm.group(1) and "test result: FAILED" in out:
            nr.violation = f"the real code panicked during the conformance run: {pm.group(1)}:{pm.group(2)}: {pm.group(3)}"[:1500]
        else:
            nr.undecided = f"{step['name']}: no result line (build failure or tool limit):\n" + out[-1500:]
    return nr


def run_driver_step(prop, step, tier, seed):
    """a bounded run through one of the replay drivers (real crates, native execution). step: dict(name, bin, crate, pre, twice)"""
    import witness
    nr = NativeResult()
    t0 = time.time()
    env_extra = {"VERIF_AUX": os.path.join(OUT, "aux")}
    os.makedirs(env_extra["VERIF_AUX"], exist_ok=True)
    if step.get("pre"):
        pp = subprocess.run(step["pre"], cwd=ROOT, shell=True, stdout=subprocess.PIPE, stderr=subprocess.STDOUT, text=True)
        if pp.returncode != 0:
            nr.undecided = f"{step['name']}: pre-step failed: {pp.stdout[-500:]}"
            return nr
    os.environ.update(env_extra)
    runs = 2 if step.get("twice") else 1
    # thorough tier: the same driver under several seeds (every seed draws different random histories / values)
    seeds = [seed] if tier == "quick" else [seed + 7919 * i for i in range(int(step.get("thorough_seeds", 8)))]
    total_cases = 0
    for sd in seeds:
        digests = []
        last = None
        for i in range(runs):
            try:
                p = witness.run_driver(step["bin"], ["--search", "--seed", str(sd)] + list(step.get("args", [])), crate=step.get("crate", "replay"),
                                       release=step.get("release", True), timeout=step.get("timeout", 3600))
            except Exception as e:
                nr.undecided = f"{step['name']}: driver could not be run: {e!r}"
                return nr
            for line in p.stdout.split("\n"):
                line = line.strip()
                if line.startswith("DIGEST"):
                    digests.append(line)
                if line.startswith("{"):
                    try:
                        last = json.loads(line)
                    except Exception:
                        pass
            if last is None:
                # the driver died without a verdict. A panic raised INSIDE the code under check (location under /repo/) is a
                # contract violation of its own (the drivers only feed well-formed inputs: nothing may panic); anything else
                # (build failure, a bug of the driver) is undecided
                m = re.search(r"panicked at (/repo/[^\s:]+:\d+):\d+:\n(.*)", p.stderr)
                if m:
                    hist = [l for l in p.stderr.split("\n") if l.startswith("LAST-HISTORY")]
                    last = {"found": True, "case": "the code under check panicked while the driver was replaying a history",
                            "input": (hist[-1] if hist else "see driver " + step["bin"]) + f" (seed {sd})",
                            "observed": f"panic at {m.group(1)}: {m.group(2)[:300]}", "expected": "no panic"}
                else:
                    nr.undecided = f"{step['name']}: driver produced no result (build failure?):\n" + p.stderr[-1500:]
                    return nr
            if last.get("found"):
                nr.violation = json.dumps(last)[:1500]
                nr.witness = last
                break
        if nr.violation:
            break
        if runs == 2 and (len(digests) != 2 or digests[0] != digests[1]):
            nr.violation = "ids differ between two processes: " + repr(digests)
            break
        total_cases += int(last.get("searched", 0))
    nr.wall = time.time() - t0
    nr.cmd = "cd %s && cargo run --release --bin %s -- --search --seed %s%s" % (step.get("crate", "replay"), step["bin"], ",".join(str(x) for x in seeds), " (each run twice, digests compared)" if runs == 2 else "")
    if not nr.violation:
        nr.ok = True
        nr.cases = total_cases
    return nr


# ------------------------------------------------------------------ known findings

def load_known(prop):
    path = os.path.join(ROOT, "known_findings.jsonl")
    out = []
    if os.path.exists(path):
        for line in open(path):
            line = line.strip()
            if not line or line.startswith("#"):
                continue
            try:
                d = json.loads(line)
            except Exception:
                continue
            if d.get("property") == prop and d.get("status") == "known":
                out.append(d)
    return out
