#!/usr/bin/env python3
"""Generates out/aux/c14_universe.rs: a constructor-closed universe of Rust types (several thousand) whose
`Identifiable::STABLE_TYPE_ID` the driver replay_c14 evaluates on the REAL crate and checks for pairwise distinctness."""
import itertools, os, sys
out = sys.argv[1]
leaves = ["u8", "u16", "u32", "u64", "u128", "usize", "i8", "i16", "i32", "i64", "i128", "isize", "bool", "char", "f32", "f64",
          "()", "String", "std::time::Duration", "std::path::PathBuf", "std::cmp::Ordering", "std::ops::RangeFull",
          "std::num::NonZeroU8", "std::num::NonZeroU32", "std::num::NonZeroI64", "std::sync::atomic::AtomicU32", "std::sync::atomic::AtomicBool",
          "std::ffi::OsString", "std::ffi::CString", "std::net::IpAddr", "std::net::Ipv4Addr", "std::any::TypeId",
          "fix::Plain", "fix::a::Same", "fix::b::Same", "fix::Wrapper<u8>", "fix::Wrapper<u16>", "fix::Pair<u8, u16>", "fix::Pair<u16, u8>",
          "fix::a::SameGen<u8>", "fix::b::SameGen<u8>", "fix::a::SameGen<String>", "fix::b::SameGen<String>", "fix::a::SameEnum<u8, u16>", "fix::b::SameEnum<u8, u16>",
          "fix::a::SameEnum<u16, u8>", "fix::a::SameGen<fix::b::SameGen<u8>>", "fix::b::SameGen<fix::a::SameGen<u8>>",
          "fix::Pair<u8, u8>", "fix::Wrapper<fix::Wrapper<u8>>", "fix::Triple<u8, u16, u32>", "fix::Triple<u32, u16, u8>", "fix::Triple<u8, u32, u16>"]
unsized = ["str", "[u8]", "[u16]", "std::path::Path", "std::ffi::OsStr", "std::ffi::CStr"]
unary_sized = ["Vec<{}>", "Option<{}>", "Box<{}>", "std::sync::Arc<{}>", "std::rc::Rc<{}>", "std::sync::Weak<{}>", "std::rc::Weak<{}>",
         "std::cell::RefCell<{}>", "std::cell::Cell<{}>", "std::cell::UnsafeCell<{}>", "std::cell::OnceCell<{}>", "std::sync::Mutex<{}>",
         "std::sync::RwLock<{}>", "std::sync::OnceLock<{}>", "std::marker::PhantomData<{}>", "std::mem::ManuallyDrop<{}>",
         "std::mem::MaybeUninit<{}>", "std::ptr::NonNull<{}>", "&'static {}", "&'static mut {}", "*const {}", "*mut {}", "[{}; 0]", "[{}; 1]", "[{}; 2]",
         "[{}; 3]", "[{}; 32]", "std::num::Wrapping<{}>", "std::num::Saturating<{}>", "std::ops::Range<{}>", "std::ops::RangeFrom<{}>",
         "std::ops::RangeInclusive<{}>", "std::ops::RangeTo<{}>", "std::ops::RangeToInclusive<{}>", "std::ops::Bound<{}>",
         "std::collections::BTreeSet<{}>", "std::collections::VecDeque<{}>", "std::collections::LinkedList<{}>", "std::collections::BinaryHeap<{}>",
         "({},)", "std::sync::atomic::AtomicPtr<{}>", "std::pin::Pin<Box<{}>>", "std::borrow::Cow<'static, {}>"]
# every constructor whose Identifiable impl takes `T: ?Sized`, over every unsized leaf
unary_unsized_ok = ["Box<{}>", "std::sync::Arc<{}>", "std::rc::Rc<{}>", "&'static {}", "*const {}", "std::ptr::NonNull<{}>", "std::marker::PhantomData<{}>", "std::cell::RefCell<{}>",
                    "std::sync::Weak<{}>", "std::rc::Weak<{}>", "std::cell::Cell<{}>", "std::cell::UnsafeCell<{}>", "std::sync::Mutex<{}>", "std::sync::RwLock<{}>",
                    "std::mem::ManuallyDrop<{}>", "&'static mut {}", "*mut {}"]
binary = ["Result<{}, {}>", "({}, {})", "std::collections::BTreeMap<{}, {}>", "std::collections::HashMap<{}, {}, std::hash::RandomState>",
          "std::collections::HashSet<{}, std::hash::BuildHasherDefault<{}>>",
          # the SAME map / set type under another hasher type: every generic argument must reach the id, also the last one
          "std::collections::HashMap<{}, {}, std::hash::BuildHasherDefault<std::hash::DefaultHasher>>"]
types = []
seen = set()
def add(t):
    if t not in seen:
        seen.add(t); types.append(t)
# every remaining leaf type that has an Identifiable impl: as itself and under a few constructors (a copy-paste slip in one
# of the rarely used leaves must not go unnoticed)
extra_leaves = ["std::num::NonZeroU16", "std::num::NonZeroU64", "std::num::NonZeroU128", "std::num::NonZeroUsize", "std::num::NonZeroI8",
    "std::num::NonZeroI16", "std::num::NonZeroI32", "std::num::NonZeroI128", "std::num::NonZeroIsize",
    "std::sync::atomic::AtomicU8", "std::sync::atomic::AtomicU16", "std::sync::atomic::AtomicU64", "std::sync::atomic::AtomicUsize",
    "std::sync::atomic::AtomicI8", "std::sync::atomic::AtomicI16", "std::sync::atomic::AtomicI32", "std::sync::atomic::AtomicI64",
    "std::sync::atomic::AtomicIsize", "std::time::Instant", "std::time::SystemTime", "std::sync::atomic::Ordering", "std::convert::Infallible",
    "std::hash::RandomState", "std::hash::DefaultHasher", "std::marker::PhantomPinned", "std::io::Error", "std::io::ErrorKind", "std::fmt::Error",
    "std::alloc::Layout", "std::alloc::LayoutError", "std::net::Ipv6Addr", "std::net::SocketAddr", "std::net::SocketAddrV4", "std::net::SocketAddrV6",
    "smallvec::SmallVec<[u8; 4]>", "smallvec::SmallVec<[u8; 8]>", "smallvec::SmallVec<[u16; 4]>",
    "bitvec::vec::BitVec<u8, bitvec::order::Lsb0>", "bitvec::vec::BitVec<u8, bitvec::order::Msb0>", "bitvec::vec::BitVec<u16, bitvec::order::Lsb0>",
    "bitvec::vec::BitVec<usize, bitvec::order::Lsb0>", "bitvec::order::Lsb0", "bitvec::order::Msb0"]
for l in leaves + unsized: add(l)
for l in extra_leaves:
    add(l)
    for u in ["Vec<{}>", "Option<{}>", "Box<{}>", "[{}; 2]", "({},)"]:
        add(u.format(l))
for u in unary_sized:
    if "Cow" in u:
        # a borrowed form next to its owned form (Cow<str> / Cow<String>, ...): the id must come from T, not from T::Owned
        for l in ["String", "u8", "Vec<u8>", "Vec<u16>", "str", "[u8]", "[u16]", "std::path::Path", "std::path::PathBuf", "std::ffi::OsStr", "std::ffi::OsString",
                  "std::ffi::CStr", "std::ffi::CString", "[String]", "Vec<String>"]:
            add(u.format(l))
            add("Vec<" + u.format(l) + ">")
        continue
    for l in leaves: add(u.format(l))
for u in unary_unsized_ok:
    for l in unsized: add(u.format(l))
small = ["u8", "u16", "i8", "bool", "String", "()", "fix::Plain", "fix::Wrapper<u8>"]
depth2 = []
for u in unary_sized:
    if "Cow" in u or "AtomicPtr" in u: continue
    for l in small:
        depth2.append(u.format(l))
# depth 3: unary over depth 2 (subset)
core_unary = ["Vec<{}>", "Option<{}>", "Box<{}>", "std::sync::Arc<{}>", "[{}; 2]", "({},)", "std::ops::Range<{}>", "std::cell::RefCell<{}>", "&'static {}", "std::collections::BTreeSet<{}>"]
for u in core_unary:
    for d in depth2: add(u.format(d))
# binary over leaves (both orders) and nestings
bl = ["u8", "u16", "u32", "i8", "bool", "String", "()", "Vec<u8>", "Option<u8>", "fix::Plain", "fix::Pair<u8, u16>"]
for b in binary:
    for x, y in itertools.product(bl, bl):
        add(b.format(x, y))
# tuples of arity 3, 4 and 16 with permutations of a few element types
el = ["u8", "u16", "bool", "String"]
for tup in itertools.product(el, repeat=3): add("(" + ", ".join(tup) + ")")
for tup in itertools.product(el[:3], repeat=4): add("(" + ", ".join(tup) + ")")
base16 = ["u8"] * 16
add("(" + ", ".join(base16) + ")")
for i in range(16):
    t = list(base16); t[i] = "u16"; add("(" + ", ".join(t) + ")")
for l in ["u8", "String", "Vec<u8>"]:
    add("std::collections::HashSet<%s, std::hash::RandomState>" % l)
    add("std::collections::HashSet<%s, std::hash::BuildHasherDefault<std::hash::DefaultHasher>>" % l)
    add("Vec<std::collections::HashMap<%s, u8, std::hash::RandomState>>" % l)
    add("Vec<std::collections::HashMap<%s, u8, std::hash::BuildHasherDefault<std::hash::DefaultHasher>>>" % l)
# nesting vs flat
for x in ["((u8, u16), u32)", "(u8, (u16, u32))", "(u8, u16, u32)", "[(u8, u8); 2]", "([u8; 2], [u8; 2])", "[[u8; 2]; 3]", "[[u8; 3]; 2]",
          "Vec<Option<Vec<u8>>>", "Option<Vec<Option<u8>>>", "Result<Result<u8, u16>, u32>", "Result<u8, Result<u16, u32>>"]:
    add(x)
with open(out, "w") as f:
    f.write("// generated by lib/gen_c14_universe.py: %d types\n" % len(types))
    f.write("pub fn universe() -> Vec<(&'static str, u128)> {\n    let mut v: Vec<(&'static str, u128)> = Vec::with_capacity(%d);\n" % len(types))
    for t in types:
        f.write('    v.push(("%s", <%s as Identifiable>::STABLE_TYPE_ID.as_u128()));\n' % (t.replace('"', '\\"'), t))
    f.write("    v\n}\n")
print(len(types))
