"""Per-property configuration: which units, which harnesses, which assumptions."""
import os
import sys

sys.path.insert(0, os.path.dirname(os.path.abspath(__file__)))
import witness  # noqa: E402

W = ["u8", "i8", "u16", "i16", "u32", "i32", "u64", "i64", "usize", "isize", "bool", "char"]
C12_FAST = [f"rt_{w}" for w in W] + [f"pair_{w}" for w in W] + ["rt_f32", "rt_f64", "rt_u128", "rt_i128"]
C12_WIDE = ["pair_u128", "pair_i128"]

PROPS = {
    "C09": {
        # c10_writebehind: read-your-writes rests on "an entry is un-pinned / a staging log is trimmed only AFTER the batch that wrote
        # it is committed" -- that order is the commit kernel's invariant (the open physical batch holds exactly the logical
        # batches whose notification is still pending), so the kernel is re-verified here
        # c16_policy: "... no matter what has been evicted" rests on the cache never evicting an entry whose owner reports it pinned
        # (pin count > 0 = an unflushed write): the policy, its dispatcher and the atomic remove closure are re-verified here
        # c10_coalesce: what a committed batch leaves in the store (= what a read falls back to once the staging log is trimmed and
        # the cache entry evicted) is the NET effect of the operations staged into it, last writer per slot
        "verus": ["c09_staging", "c09_pins", "c10_writebehind", "c10_coalesce", "c16_policy"],
        "kani": [],
        "native": [
            {"name": "cached_maps_read_your_writes", "bin": "replay_c09", "crate": "replay", "thorough_seeds": 96, "tiers": ("quick", "thorough"),
             "bound": "directed staging histories (W1, W2, older-committed variants), directed cold-spill reads (1023..2100 durable members, with and without staged operations; many staged removes and few staged inserts: finding F6), a cache-miss load ordered against a remove through a read gate of the mock store (both wide-column maps), a write issued while a reader is inside the key's staging log (gated element Clone), a commit + flush landing inside a too-large set's store scan (scan gate + commit hold) + 26 seeded random histories of get/insert/remove over the three cached maps with batches submitted at random points, cache capacities 1/2/4/64, sets across the 1024 spill threshold; every read compared with a reference map (real code, native execution, background writer not controlled)"},
        ],
        "witness": witness.c09,
        "assumptions": [
            "ONLY the overlay arithmetic of the key-to-set cache is under contract: Ord for VersionedOperation, ConcurrentLog::apply_message_to_heap, ConcurrentLog::replay (+ spec-level lemma: overlay == fold of all operations in issue order, on any base set)",
            "c09_pins, eviction question: `PinnedLifecycleListener::is_pinned` (wide-column caches) answers pinned exactly when the pin count is positive -- whatever the entry holds, a value or remembered absence -- and `PinnedLogLifecycleListener::is_pinned` (staging logs of the key-to-set cache) exactly when the dirty counter is non-zero; atomics are read as plain cells (the policy asks under the entry lock: c16_policy remove_closure)",
            "c09_pins: the per-entry state machine of the wide-column caches -- the closures `WideColumnCache::insert` and `::remove` run on the locked entry are under CLOSURE contracts (spliced in textually: text-sub): afterwards the entry holds the written value resp. remembered absence, the pin count went up by exactly one iff the batch updated the key, an entry with pins > 0 is never dropped (it is what hides the stale store value), the replaced value is returned. Model: tiny_lfu::Entry handles HOLD the locked slot (prophecy contracts, as the HashMap entry model); AtomicI32 under the lock is a plain cell; TinyLFU::entry itself (concurrent map) only promises to call the closure on a well-formed handle; ASSUMPTION: fewer than 2^31 - 1 unflushed batches per key",
            "NOT decided: WideColumnCache / CacheSingleMap / CacheDynamicMap read-your-writes (pin counts x TinyLFU eviction x single-flight fills x after-commit thread: a concurrent argument spanning four components), races between reads and flushes, get_snapshot's glue (RwLock, deferred SegQueue, collect + sort_by_key), fetch_entry / MergeIterator (generic iterators): these are covered only by the bounded run",
            "std models: BinaryHeap (abstract-order view; peek/pop yield a greatest element w.r.t. Ord), HashSet view under obeys_key_model, derived ordering of Epoch, element Clone/Hash/Eq sanity (axiom_element_type)",
            "FxBuildHasher is an interface stand-in; ConcurrentLog is a struct stand-in (the functions under contract are associated functions that do not touch self)",
        ],
    },
    "C13": {
        "expand": [("hash_fix", "hash_expanded.rs")],
        "verus": ["c13_framing", "c13_derive"],
        "kani": [
            {"crate": "c13", "kind": "complete", "harnesses": ['f32_nan_normalised_else_bit_exact', 'f64_nan_normalised_else_bit_exact', 'bool_char_images', 'discriminant_bytes_identify_the_variant', 'le_u8', 'le_i8', 'le_u16', 'le_i16', 'le_u32', 'le_i32', 'le_u64', 'le_i64', 'le_u128', 'le_i128', 'le_usize', 'le_isize'], "tiers": ("quick", "thorough"), "jobs": 12,
             "bound": "none: full-domain symbolic inputs, loop bounded by the byte width"},
        ],
        "native": [
            {"name": "history_free_and_discriminating", "bin": "replay_c13", "crate": "replay", "twice": True, "thorough_seeds": 128, "tiers": ("quick", "thorough"),
             "bound": "200 seeded rounds of unordered collections built by different insertion orders / capacities / hasher states, ownership variants, serialization round trips; pairwise distinctness on fixed universes of framing-trap values; identical digest in two separate processes (seeded SipHash-128)"},
            {"name": "range_inclusive_exhausted_flag", "bin": "replay_c13", "crate": "replay", "tiers": ("quick", "thorough"), "args": ["--only", "range_inclusive_exhausted"], "thorough_seeds": 1,
             "bound": "2 directed pairs: a fresh RangeInclusive<u32|i64> vs the same range iterated to exhaustion (unequal values) must hash differently (known finding F5)"},
        ],
        "witness": witness.c13,
        "assumptions": [
            "SipHash-1-3/128 (external crate siphasher) is a function of (seed, byte stream); equal fingerprints mean equal values only up to a 128-bit collision (assumed, not decidable)",
            "proved (Verus, all values, all instantiations): every ordered StableHash impl under contract appends exactly bytes(v) to the hasher, where bytes is a function of the value's VIEW (Vec: the element sequence, not capacity; Box/Rc/Arc/&: the pointee), and bytes is prefix-free, hence injective, per constructor",
            "LeImage (to_le_bytes is fixed-width and injective) is an axiom for the Verus unit; the exact little-endian bytes are established on the real code by the Kani harnesses le_*",
            "Discriminant<T>: the impl is unsafe raw-byte code (external_body): assumed to feed a fixed number of bytes that are equal exactly for the same variant (same compiler); axioms axiom_disc_*",
            "str/String: bytes = utf8(view); str::len has no vstd spec (rule R14); a VALUE of a string type holds at most isize::MAX bytes (axiom per value, not for arbitrary character sequences); 64-bit usize",
            "NOT under contract (rule R7: `sub_hash` takes dyn closures): HashMap/HashSet/BinaryHeap/DashMap/DashSet/ReadOnlyView -- covered only by the bounded run; also BTreeMap/BTreeSet/LinkedList (no vstd iterator models; VecDeque IS under contract through rule R16: its byte stream is a function of the element sequence, not of where the ring buffer wraps), RangeInclusive (finding F5), (Cow IS under contract: its stream is the stream of the value it dereferences to, whichever variant it is; std model: Deref for Cow; OsStr / OsString / Path / PathBuf / CStr / CString ARE under contract: each is framed like a byte slice -- length prefix + the platform byte representation, an uninterpreted function of the value), atomics, FlexStr, SmallVec, BitVec, the SipHasher impl and SeededStableHasherBuilder",
            "write_f32/f64 (NaN normalisation) are not in the Verus unit (no float support): established full-domain by Kani",
        ],
    },
    "C14": {
        # c13_framing + the Kani LE harnesses: a query id is the stable hash of the query key, so "distinct keys get distinct query ids"
        # rests on the key's byte stream being injective (C13) -- re-established here;
        # c11_rocksdb / c11_fjall: "no two different queries share a slot in the store" rests on every store operation addressing the
        # column (type id, kind) of its column type -- the operations layer of both backends is re-verified here
        "verus": ["c14_ids", "c13_framing", "c11_rocksdb", "c11_fjall"],
        "kani": [
            {"crate": "c13", "kind": "complete", "harnesses": ['le_u8', 'le_i8', 'le_u16', 'le_i16', 'le_u32', 'le_i32', 'le_u64', 'le_i64', 'le_u128', 'le_i128', 'le_usize', 'le_isize', 'bool_char_images'], "tiers": ("quick", "thorough"), "jobs": 12,
             "bound": "none: full-domain symbolic inputs, loop bounded by the byte width"},
        ],
        "native": [
            {"name": "type_universe_distinct_and_stable", "bin": "replay_c14", "crate": "replay", "twice": True,
             "pre": "python3 lib/gen_c14_universe.py out/aux/c14_universe.rs", "tiers": ("quick", "thorough"),
             "bound": "6865 types of a generated constructor-closed universe (EVERY leaf type that has an Identifiable impl incl. the smallvec/bitvec features, all unary constructors over the main leaves, every `?Sized`-accepting constructor over every unsized leaf, Cow over borrowed AND owned forms, nestings to depth 3, binary constructors in both argument orders, maps and sets under two hasher types, permuted tuples, array lengths, derived user types): ids evaluated on the real crate, pairwise distinct, identical in two separate processes; plus a crafted family of type NAMES fed to from_unique_type_name: names of every length 1..72 changed in one byte (hand-picked pairs and every single-bit pair) or by swapping adjacent bytes at every position must get distinct ids"},
            {"name": "store_addressing_through_both_write_paths", "bin": "replay_c11", "crate": "replay_db", "release": False, "tiers": ("quick", "thorough"), "thorough_seeds": 2,
             "bound": "the C11 real-backend run (direct and serialization-buffer write paths, first touch of a column after a reopen, several operations on one slot in one buffer, empty encodings): every operation must land in the column of its own column type"},
            {"name": "store_slots_by_type_id", "bin": "replay_c14_store", "crate": "replay_db", "release": False, "tiers": ("quick", "thorough"), "thorough_seeds": 1,
             "bound": "the REAL RocksDB and Fjall backends: 24 column types with crafted stable type ids whose renderings are easy to confuse (leading-zero halves, digits moving between the 64-bit halves, swapped / zero halves, prefixes of one another), both column kinds: each column holds its own index, read back in the same session and after a reopen (column-family / keyspace names are derived from the id by format!: not under contract)"},
            {"name": "query_key_hash_is_history_free", "bin": "replay_c13", "crate": "replay", "twice": True, "tiers": ("quick", "thorough"), "thorough_seeds": 16,
             "bound": "the C13 bounded run (the hash half of a QueryID is the stable hash of the query key): unordered collections built by different insertion orders / capacities / hasher states hash equally, identical digests in two separate processes, distinct values of the framing-trap universes hash differently"},
        ],
        "witness": witness.c14,
        "assumptions": [
            "NOT decided deductively: 'distinct types receive distinct ids' is a collision property of a 256->128 bit mixer (combine) and of a string hash (from_unique_type_name); no sound contract states it (pigeonhole). It is checked only on the bounded universe above (labelled bounded, not counted as proved)",
            "proved (Verus, all inputs): read_u64_le returns exactly the little-endian value of its 8-byte block (arithmetic definition; distinct blocks give distinct words: lemma_le_word_injective); from_unique_type_name / combine / sipround / read_u64_le are total -- no out-of-bounds index, no overflow, no shift >= 64 -- and use no external or unsafe ingredient, hence are pure functions of their arguments; StableTypeID <-> u128, u128 <-> Compact128, QueryID accessors are lossless",
            "64-bit usize; strings are at most isize::MAX bytes (Rust invariant)",
            "not under contract: the Identifiable impl table itself (hundreds of const items), identifiable_derive, cf_name_from_id / keyspace_name_from_id (format!), Query::STABLE_TYPE_ID plumbing in the engine, QueryID::new (associated const: only its composition is a lemma)",
        ],
    },
    "C16": {
        # "for any access pattern ... stays bounded / stays readable": a panic or wrapped index inside the policy is a
        # violation of the property itself (finding F3 was one), so overflow/shift/division side obligations count
        "side_is_property": True,
        "verus": ["c16_policy", "c16_sketch", "c16_entry"],
        "kani": [
            {"repo_crate": "storage", "kind": "complete", "hook_files": ["storage_tiny_lfu_sketch.rs"],
             "harnesses": ["cms_reset_halves_every_counter", "bloom_clear_zeroes_all_words", "cms_increment_touches_only_its_cells_and_saturates"],
             "tiers": ("quick", "thorough"), "jobs": 3,
             "bound": "one 64-bit word (16 cells), full-domain word and hash: complete for a word; loops over the table are not unrolled beyond it"},
        ],
        "native": [
            {"name": "lru_conformance", "repo_crate": "storage", "package": "qbice_storage", "test": "verif_lru_conformance", "env": {"VERIF_LRU_DEPTH": 3},
             "ok_re": r"VERIF-LRU-CONFORMANCE ok sequences=(\d+)", "bad_re": r"VERIF-LRU-CONFORMANCE VIOLATION.*", "tiers": ("quick", "thorough"),
             "bound": "ALL sequences of <= 3 Lru operations (9 kinds) over 3 keys x 4 regions x capacity {0,1}: every clause of the abstract Lru contract assumed by the Policy proof, evaluated on the real Lru after every call (pointer discipline included)"},
            {"name": "policy_new_capacities", "repo_crate": "storage", "package": "qbice_storage", "test": "verif_policy_new_capacities", "env": {},
             "ok_re": r"VERIF-POLICY-NEW ok capacities=(\d+)", "bad_re": r"VERIF-POLICY-NEW VIOLATION.*", "tiers": ("quick", "thorough"),
             "bound": "the REAL Policy::new (f64 arithmetic, outside Verus) for capacities 0..=4096, around every power of two up to 2^20 and a few larger ones: the capacity clauses of the Policy invariant the proof assumes (window <= max, protected below the main limit) and max_capacity within [capacity, capacity + 2]"},
            {"name": "cache_histories", "bin": "replay_c16", "crate": "replay", "tiers": ("quick", "thorough"),
             "bound": "the real public TinyLFU, single-threaded client, both unpin strategies (in Poll mode the owner releases a pin silently for odd keys -- only the maintenance pass can find out), Piggyback maintenance plus directed histories with maintenance on the cache's own DedicatedThread (parked pins released later, per strategy; several batches of writes arriving while a pass is still dropping slow values; bound awaited for up to 3 s): 60 seeded random histories of 1500 operations at capacities 1..8, 12 seeded random phase histories at capacities 96/160 (above the maintenance slack, so the bound is not vacuous), directed histories (empty probation at unpin, re-pin before a stale unpin, long-lived pin, popular newcomers against pinned victims, parked entries replaced within one maintenance batch at capacities 100/200); after every phase: pinned entries readable with their latest value, removed entries gone, residents <= capacity + pinned + 74"},
            {"name": "lock_table_same_lock", "bin": "replay_c16_locks", "crate": "replay", "tiers": ("quick", "thorough"),
             "bound": "the REAL query_lock_manager.rs (compiled into the driver with include!; QueryID replaced by a local key type): 16 seeded histories of 1600 steps at table capacities 1/2/8/32: tasks take lock instances of a rolling window of ~400 queries (locked or not yet locked), release them, lock later; 50..450 other queries at a time push the table over capacity; whenever a task holds an instance of q every get_lock_instance(q) must return the same lock object, and once nothing is held the table holds at most capacity + 74 locks (single-threaded)"},
            {"name": "lru_conformance_depth4", "repo_crate": "storage", "package": "qbice_storage", "test": "verif_lru_conformance", "env": {"VERIF_LRU_DEPTH": 4},
             "ok_re": r"VERIF-LRU-CONFORMANCE ok sequences=(\d+)", "bad_re": r"VERIF-LRU-CONFORMANCE VIOLATION.*", "tiers": ("thorough",), "timeout": 3600,
             "bound": "ALL sequences of <= 4 Lru operations (218,629,862 sequences; about 6 minutes): every clause of the abstract Lru contract on the real Lru"},
            {"name": "lru_conformance_miri", "repo_crate": "storage", "package": "qbice_storage", "test": "verif_lru_conformance", "env": {"VERIF_LRU_DEPTH": 2}, "miri": True,
             "ok_re": r"VERIF-LRU-CONFORMANCE ok sequences=(\d+)", "bad_re": r"VERIF-LRU-CONFORMANCE VIOLATION.*", "tiers": ("thorough",), "timeout": 7000,
             "bound": "same run at depth 2 under Miri: use-after-free / double free / invalid pointer use / leaks in the unsafe list code"},
        ],
        "witness": witness.c16,
        "assumptions": [
            "c16_entry: the entry handles the storage map hands out -- `VacantEntry::insert` and `OccupiedEntry::remove` of tiny_lfu.rs are proved to queue the message about a key (Insert / Removed) BEFORE they give up the key's entry lock; the scc handle stand-in carries that protocol as the precondition of insert_entry / remove (so the policy sees the messages about one key in the order of the operations on it); struct stand-ins (field subsets) for the two handles",
            "the abstract contract of `Lru` (specs/c16_policy.rs) is ASSUMED by the Verus proof of Policy; the real Lru (raw pointers + HashMap) is checked against every clause only by the bounded exhaustive conformance run (depth 3; Miri at depth 2 in the thorough tier)",
            "remove: impl Fn(&K)->bool is carried as an abstract closure by the Policy proof; the closure production code passes in -- TinyLFUInner::remove_closure -- IS under contract (its body gets a closure contract through a textual signature splice; rule R18 drops the statement gated by the off-by-default feature `tracing_resource`): it answers true only when the map had no entry or the LOCKED entry held a value the listener called unpinned and exactly that entry was removed under the same lock, false only when the locked value was called pinned; an entry may be removed only after the listener's 'not pinned' for the value the handle holds (protocol precondition of the scc entry stand-in). scc::HashMap itself (entry_sync gives an exclusive handle) is an interface stand-in with event predicates",
            "K::clone returns an equal key (axiom_key_clone)",
            "Sketch and the hasher are opaque for the Policy proof (any frequency estimate is safe); sketch.rs itself is verified for index/overflow safety under `global size_of usize == 8`",
            "BloomFilter::clear and CountMinSketch::reset (`for word in &mut ..`: rule R16, &mut form, vstd IterMut model) are under contract with functional postconditions: every word zero / every word halved nibble-wise (lemma_halved_nibbles, bit-vector); Kani re-establishes the word arithmetic on the compiled code",
            "Policy::new (f64 arithmetic) is not under contract: the invariant's capacity relations are a precondition of the proof, checked on the real constructor by the bounded run policy_new_capacities (hook)",
            "dispatcher (tiny_lfu.rs process_write / process_message): proved that every message is delivered to its handler with its own key whatever the storage map answers (struct stand-in TinyLFUInner: storage is opaque with arbitrary query results; owner_answers is the DEFINED relation proved of remove_closure); process_policy_message (the whole maintenance pass: pop loop, drained read hits, Poll-mode trim) keeps the policy invariant and parks only keys the owner refused to give up, for any contents of the (opaque, concurrently filled) buffers -- its termination is not verified (other threads keep pushing); try_maintenance and the buffers themselves are not under contract; ReadBuffer::drain is a stand-in returning a Vec instead of `impl Iterator`",
            "progress clause (stays bounded, Poll strategy): attempt_to_trim_overflowing_pinned stops only at an empty parked region or at an entry whose owner refused in this very call (`trimmed`), and process_policy_message establishes `pinned_trimmed` at the end of every pass in Poll mode -- released entries in front of the first still-pinned one are gone after each pass (released entries behind it wait for a later pass: that is the code's own policy, not proved to be bounded in time)",
            "the maintenance pass as a whole forgets only keys the owner gave up UNDER THE ENTRY LOCK (owner_answers, proved of remove_closure) or removed itself (Removed message): an eviction path that checks the pin and removes in two steps (read_sync + remove_sync stand-ins establish no such event) fails this clause",
            "concurrency is NOT decided: write_buffer/read_buffer lag between storage map and policy, DedicatedThread mode; the lock-table sentence of the property (query_lock_manager.rs: is_pinned = Arc::strong_count > 1) is covered only by the bounded lock-table run",
        ],
    },
    "C10": {
        # c11_rocksdb / c11_fjall: the kernel ASSUMES `KvWriteBatch::commit` hands everything consumed to the store; that the two
        # shipped backends' `commit` (and `consume_serialization_buffer`) do is an obligation of those units, re-established here
        "verus": ["c10_writebehind", "c10_coalesce", "c11_rocksdb", "c11_fjall"],
        "kani": [],
        "native": [
            {"name": "store_equals_batches_in_creation_order", "bin": "replay_c10", "crate": "replay", "thorough_seeds": 64, "tiers": ("quick", "thorough"),
             "bound": "long manager lifetimes (6 x 40, 3 x 100, 10 x 12 batches in waves, so that committed buffers are recycled and handed out again), 24 directed late-first histories + 4 directed drop-during-panic-unwinding histories + 400 seeded random histories: 1..9 batches of 0..5 operations (wide-column put/delete and key-of-set insert/remove over 1..3 keys x 1..3 elements, so that one batch often stages several operations on one slot), submitted out of creation order from 1..3 threads, 1..4 serializer workers, random serialization delays and physical grouping; after drop the recording store must equal applying the batches in creation order, each exactly once (real code, native execution, thread schedule not controlled)"},
            {"name": "real_backends_behind_the_real_write_manager", "bin": "replay_c10_db", "crate": "replay_db", "release": False, "tiers": ("quick", "thorough"), "thorough_seeds": 6,
             "bound": "the real WriteBehind in front of the REAL RocksDB and Fjall: 11 manager lifetimes per store and seed (mixed traffic, lifetimes that ONLY remove, put-then-remove of a never-stored key across batches of one lifetime, a unit-keyed unit-discriminant column whose encoded key is empty) plus 9 lifetimes of key-of-set traffic (u32 members and a unit-element column whose member encoding is empty; lifetimes that only remove), 1..3 serializer workers; after every lifetime the store is closed, reopened and read through a fresh engine: it must hold exactly the batches applied in creation order"},
        ],
        "witness": witness.c10,
        "assumptions": [
            "concurrency is NOT decided: that serializer threads forward every task, the join order of Drop for WriteBehind, memory ordering of the shutdown flag, atomicity of fetch_add in WriteBufferPool::get_buffer",
            "HISTORY PRECONDITIONS assumed inside commit_worker (explicit assume statements, listed in trusted_base): each epoch is delivered at most once and is < total; at channel close every epoch < total has been delivered; total < 2^64-1",
            "committed(tags) is an event predicate: 'a physical batch holding exactly these logical batches in this order was committed'; the temporal order BETWEEN physical commits is argued from the contracts (flush is the only commit site, upto only grows), not proved",
            "interface stand-ins: KvDatabase / KvWriteBatch / KvSerializationBuffer (3 methods used, with ghost tag/pending), crossbeam_channel (send succeeds; recv arbitrary), AtomicBool (load arbitrary), WriteBatch{epoch,active} and WriteBehind{serialize_sender} field subsets, WriteBatch::write_to_db",
            "std models: BinaryHeap (abstract-order view, peek/pop return a greatest element w.r.t. Ord), mem::replace/take/drop, derived Ord for Epoch",
            "termination of the two receive loops is not verified (depends on channel close)",
            "c10_coalesce, write_to_db (rule R16): `WriteEntry::write_to_db` of TypedWideColumnWrites and of TypedKeyOfSetWrites (nested loops over the hash maps) is proved to hand the serialization buffer exactly one operation per staged slot -- put/delete resp. insert_member/delete_member exactly as staged, with the staged key, element and value -- in some order of the (distinct) slots; the buffer is a type-erased ghost log (events ev_put/ev_del/ev_ins/ev_rem)",
            "c10_coalesce: what one batch carries -- TypedWideColumnWrites::insert and TypedKeyOfSetWrites::insert are proved to be last-writer-wins steps per key resp. per (key, element), and the steps compose (lemma_wide_step / lemma_set_step) to 'the batch holds the net effect of the staged operations in issue order'; std's HashMap Entry API is a trusted in-unit model (rule R15: Entry/OccupiedEntry/VacantEntry over the reborrowed map with prophecy contracts); keys obey the hash-key laws (axiom_key_types)",
            "c10_coalesce, the batch as a whole: WriteEntry (the object-safe trait behind `Box<dyn WriteEntry>`) carries a TRAIT contract -- write_to_db appends one admissible emission (`emits`) of the entry; both typed maps are proved to implement it (their `emits` = one operation per staged slot). Against that contract WideColumnWrites::write_to_db and KeyOfSetWrites::write_to_db (loops over HashMap::values() of dyn entries) are proved to let every entry of the map emit exactly once (each_entry_once), and WriteBatch::write_to_db to append exactly the wide-column entries' emissions followed by the key-of-set entries' emissions. Trusted std model (axiom_values): HashMap::values() yields the value of every key exactly once -- vstd only states the set of yielded values and their number; std::any::TypeId opaque, TypeId / WideColumnWritesID obey the hash-key laws (axiom_id_types)",
            "not under contract: WideColumnWrites::put / KeyOfSetWrites::put (TypeId-keyed maps of Box<dyn WriteEntry>, downcast_mut), WriteBufferPool::get_buffer/return_buffer (stand-in: a buffer may be recycled only after `notified(its epoch)`), Drop for WriteBehind, WriteBehind::new; after_commit_worker IS under contract: every received batch is notified with its own epoch and only then recycled, or deactivated when shutting down (WriteBatch::after_commit itself -- maps of dyn WriteEntry -- is a stand-in raising the event `notified`)",
        ],
    },
    "C11": {
        # c12_leaf: keys, values and members are Postcard images; rule R10/R17 assume C12's contract for them, so the leaf codecs
        # (all widths, LEB128 loops) are re-established here deductively on every run, next to the Kani harnesses below
        "verus": ["c11_rocksdb", "c11_fjall", "c12_leaf"],
        # the key scheme rests on the Postcard leaf codecs of the integer widths keys are made of (rule R10 assumes
        # C12's contract): re-establish that part here, on the real code, every run
        "kani": [
            {"crate": "c12", "kind": "complete", "harnesses": C12_FAST,
             "tiers": ("quick", "thorough"), "jobs": 14,
             "bound": "none: full-domain symbolic input, loops unrolled to operand width with unwinding assertions"},
        ],
        "native": [
            {"name": "real_backends_scan_and_point_reads", "bin": "replay_c11", "crate": "replay_db", "release": False, "tiers": ("quick", "thorough"), "thorough_seeds": 6, "timeout": 5400,
             "bound": "the REAL RocksDB and Fjall backends (temporary directories): seeded random batches over prefix-related / empty / 0xFF-heavy / >32-bit keys, wide columns with both discriminant encodings and key-of-set columns, point reads and member scans compared with a reference map, direct and serialization-buffer write paths, first touch after a reopen, several operations on one slot in one buffer and in one direct batch (also on never-committed members / keys, and across two uncommitted batches), small signed keys / members / values on both sides of zero, twin columns with byte-identical key layouts written back to back, empty value encodings, batches that hold ONLY operations with empty key and value encodings, string values of 0..70001 bytes and string keys / members of 0..5000 bytes (Fjall limits backend keys to 65535 bytes), 128-bit boundary keys, before and after reopen; 1 seed in the quick tier, 6 in the thorough tier (builds RocksDB: about 3 minutes cold, 1 s warm)"},
        ],
        "witness": witness.c11,
        "assumptions": [
            "RocksDB / Fjall themselves are trusted: keys ordered by the bytewise comparator (lex_le/lex_lt of the spec), atomic batch write, iterate_upper_bound / prefix() semantics, visibility of committed data only, persistence across reopen",
            "rule R10: `PostcardEncoder::new(buf).encode(key,plugin).expect(..)` appends exactly key.bytes() (C12's Encode contract + Vec<u8>: Write appends and never fails)",
            "rules R11/R12: u64::{from,to}_le_bytes and buf[a..b].copy_from_slice(src) replaced by opaque wrappers carrying the std contract",
            "interface stand-ins (declarations only): Wire, Encode, Plugin, Impl{plugin}, WideColumn, WideColumnValue; discriminant_encoding()/discriminant() are constants of their types",
            "transform_key precondition: RocksDB only passes keys of the column family (or bounds derived from them), whose 8-byte length field is < 2^64-8",
            "key images are prefix-free and injective (C12) -- used as hypothesis prefix_free_ty of the pair-injectivity lemmas",
            "operations layer (both backends): every method of `impl WriteBatch` and `impl SerializationBuffer` (put / delete / insert_member / delete_member / consume_serialization_buffer / should_write_more) is proved to issue exactly one backend operation on the column (type id, kind) of its column type with key = wide_key / member_key and value = the value image, the recorded path replays to the same operation sequence in order (replayed_all), and the size estimate never overflows under the stated precondition. Stand-ins: the backend batch (rust_rocksdb::WriteBatch / fjall::OwnedWriteBatch) is an ordered ghost log of operations; get_or_create_cf / get_or_create_keyspace return a handle that names (type id, kind) (DashMap cache + backend handles not under contract)",
            "not under contract: get_or_create_cf* bodies, cf_name_from_id, commit (one backend write: trusted atomic), RocksDB's scan_members (self-referencing iterator built in a closure: its window is prefix_upper_bound's contract, its plumbing is not under contract) -- covered by the real-backend bounded run; reopen",
            "member scans, element side: ScanMembersIterator::next of both backends (extracted as inherent fns, `Self::Item` resolved textually) decodes exactly the element part of the stored key lp(kb) ++ eb (8-byte length field, skip 8 + length, rule R17 decode). ASSUMPTION in the iterator stand-ins: every key stored in a key-of-set column is a member_key image with a key part shorter than 2^56 bytes (what the write paths are proved to write)",
            "readers under contract: get_wide_column of both backends reads exactly stored(W id, WideColumn, wide_key::<W,C>(key)) -- the same column and key bytes the writers use -- and returns the decoded image (rule R17: the PostcardDecoder-over-Cursor idiom becomes an opaque call carrying C12's Decode contract on a complete image); Fjall's scan_members enumerates exactly the prefix lp(key) of the keyspace (C id, KeyOfSet). `stored` is what the backend reports at the moment of the read (trusted); backend read errors are assumed not to occur (the code panics on them)",
        ],
    },
    "C12": {
        "expand": [("derive_fix", "derive_expanded.rs")],
        "verus": ["c12_generic", "c12_derive", "c12_leaf", "c12_interned"],
        "kani": [
            {"crate": "c12", "kind": "complete", "harnesses": C12_FAST, "tiers": ("quick", "thorough"), "jobs": 14,
             "bound": "none: full-domain symbolic input, loops unrolled to operand width with unwinding assertions"},
            {"crate": "c12", "kind": "complete", "harnesses": C12_WIDE, "tiers": ("thorough",), "jobs": 4,
             "bound": "none: full-domain symbolic input, loops unrolled to operand width with unwinding assertions"},
        ],
        "native": [
            {"name": "roundtrip_types_not_under_contract", "bin": "replay_c12", "crate": "replay", "tiers": ("quick", "thorough"),
             "bound": "exhaustive 8/16-bit integers, every 7-bit varint boundary +-1 and 64 seeded values per wider width, nested through the generic constructors; String/PathBuf (incl. paths that are not valid UTF-8: refusal or exact round trip), every value decoded a second time through a reader that delivers one byte per read() call, BTree*/Hash*/VecDeque/LinkedList, derived enums with 130 / 300 variants, SmallVec, BitVec (5 storage types x 2 bit orders x 17 lengths x 3 head offsets), derive fixtures; interned handles (Interned<String|str|PathBuf|Path|Vec<u32>|[u32]>, repeats, equal content under different handle types in one session in every order, nested handles; decoded with a FRESH interner and with the writer's): decode(encode(v)) == v and exact consumption, on the real crates with the optional features on"},
            {"name": "range_inclusive_exhausted_flag", "bin": "replay_c12", "crate": "replay", "tiers": ("quick", "thorough"), "args": ["--only", "range_inclusive_exhausted"], "thorough_seeds": 1,
             "bound": "3 directed inputs: RangeInclusive<u32|i64|char> iterated to exhaustion (front / drained / back) -- decode(encode(v)) == v on the real crate (known finding F4)"},
        ],
        "witness": witness.c12,
        "assumptions": [
            "integers in Verus specifications are mathematical; machine ranges appear explicitly in requires/typing",
            "Encoder/Decoder trait contracts: generic impls are verified against ANY implementor that satisfies them; that PostcardEncoder<W>/PostcardDecoder<R> do is proved in unit c12_leaf (every emit_*/read_* except f32/f64, all four LEB128 encoders and readers with loop invariants, zigzag by bit-vector reasoning, for every value and every tail) and re-established independently on the compiled code by the Kani harnesses (full domain, per width)",
            "c12_leaf: std::io::Write is modelled as an appending writer (Vec<u8>/Cursor<Vec<u8>>), std::io::Read as a RELIABLE in-memory reader (read_exact succeeds iff enough bytes remain, as for &[u8]/Cursor): an I/O error of the underlying stream is outside the property; read_exact succeeds iff enough bytes remain and what it leaves behind after a failure is unspecified (as in std); emit_f32/f64, read_f32/f64 are not in the Verus unit (Kani rt_f32/rt_f64)",
            "Plugin and Session are opaque: no impl under contract looks inside them",
            "std collection / wrapper models listed in trusted_base (Cell, Duration, Vec::into_boxed_slice, Arc/Rc<[T]>::from(Vec), u8::from(bool), char::from_u32)",
            "decode contract is completeness on the encoder's image + exact consumption + image equality (w.bytes()==v.bytes()); value equality follows from injectivity of the image, proved for the primitive leaves (lemma_inj_*) and structural for the constructors",
            "c12_interned: WiredInterned<T> (the framing of interned handles) is an ordinary Wire type verified in both directions; `Encode for Interned<T>` is verified against a session-aware contract (SessionEncode, header-sub): source form iff (T::STABLE_TYPE_ID, content hash) was not yet in the session's seen-set, reference form (tag 1 + hash) otherwise. Stand-ins: Session::get_mut_or_default (typed slot borrow), Interner::hash_128 (a function of the value), Plugin::get (ASSUMED to hold the interner), Compact128 codec (derive shape verified in c12_derive), FxHashSet, obeys_key_model::<InternedID>. NOT decided deductively: that the decoder's interner still holds every referenced value when `get_from_hash::<T>` runs (shared interner behind &Plugin, Weak handles, inner encodes may touch the session) and the four Decode impls for Interned<..> -- covered by the bounded run only",
            "strings (rule R14): Encoder::emit_str / Decoder::read_str, Encode for str/String, Decode for String/Box<str>/Rc<str>/Arc<str> are under contract with image = LEB128 byte count + utf8(view). Trusted string model: utf8 is an uninterpreted injective function of the character sequence; str::as_bytes/str::len return utf8(view) and its length; String::from_utf8 accepts exactly the utf8 images; a VALUE of a string type holds at most isize::MAX bytes; into_boxed_str / Rc<str>::from / Arc<str>::from keep the characters",
            "VecDeque: Encode and Decode under contract (vstd model of VecDeque); rule R16: `for item in self` (self: &VecDeque) is read as `for item in self.iter()` -- std's `IntoIterator for &VecDeque` is `iter()`; vstd models only the latter",
            "HashMap / HashSet: Encode and Decode under RELATIONAL contracts (impl headers rewritten to MapEncode/MapDecode/SetEncode/SetDecode -- rewrite HDR -- because the image follows the iteration order and is not a function of the value): encode appends the count and the entry images in some duplicate-free enumeration of the keys; decode on the image of any entry sequence s consumes exactly it and returns the collection built by inserting entries image-equal to s in order; lemma_hashmap_roundtrip / lemma_hashset_roundtrip conclude view equality when element images are injective. Trusted: with_capacity_and_hasher returns an empty collection; obeys_key_model::<K>() and builds_valid_hashers::<S>() are preconditions (Hash/Eq of the key type and the hasher are lawful)",
            "Cow: Encode and Decode under their own contract traits (CowEncode: appends the image of what the Cow dereferences to; CowDecode: returns Cow::Owned of a value decoded by T::Owned) -- the two impls have different bounds (T: Encode vs T::Owned: Decode) and meet only where borrowed and owned form have the same image (lemma_cow_pairs: str/String, [T]/Vec<T>). RefCell: Encode/Decode under the ordinary contracts (std model: borrow() hands out a guard that dereferences to the held value; a RefCell that is mutably borrowed panics, no bytes are produced)",
            "not under contract: Path/PathBuf/OsStr, LinkedList/BTreeMap/BTreeSet/DashMap/DashSet (no iterator models), atomics (vstd specifies std atomics with nondeterministic loads -- an atomic's image is not a function of a value), [T;N]::decode (MaybeUninit), SmallVec, BitVec",
            "derive macros: verified on the fixture types of fixtures/derive_fix (named/tuple/unit/generic structs, enums with unit/tuple/struct variants, generic enum, skip on first/middle/last positions, an enum with 130 variants whose tags cross the one-byte LEB128 boundary), expanded on every run by the real proc-macro crate; other shapes are covered only in so far as the macro treats them uniformly",
            "rule R13: alpha-renaming of the derive's method type parameter (__E/__D -> E/D)",
        ],
    },
}
