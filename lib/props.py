"""Per-property configuration: which units, which harnesses, which assumptions."""
import os
import sys

sys.path.insert(0, os.path.dirname(os.path.abspath(__file__)))
import witness  # noqa: E402

W = ["u8", "i8", "u16", "i16", "u32", "i32", "u64", "i64", "usize", "isize", "bool", "char"]
C12_FAST = [f"rt_{w}" for w in W] + [f"pair_{w}" for w in W if w not in ()] + ["rt_f32", "rt_f64"]
C12_WIDE = ["rt_u128", "rt_i128", "pair_u128", "pair_i128"]

PROPS = {
    "C12": {
        "verus": ["c12_generic"],
        "kani": [
            {"crate": "c12", "kind": "complete", "harnesses": C12_FAST, "tiers": ("quick", "thorough"), "jobs": 14,
             "bound": "none: full-domain symbolic input, loops unrolled to operand width with unwinding assertions"},
            {"crate": "c12", "kind": "complete", "harnesses": C12_WIDE, "tiers": ("thorough",), "jobs": 4,
             "bound": "none: full-domain symbolic input, loops unrolled to operand width with unwinding assertions"},
        ],
        "witness": witness.c12,
        "assumptions": [
            "integers in Verus specifications are mathematical; machine ranges appear explicitly in requires/typing",
            "Encoder/Decoder trait contracts: every implementor of the traits is assumed to satisfy them; for PostcardEncoder/PostcardDecoder this is what the Kani harnesses (full domain, per width) establish, for an arbitrary tail only through the back-to-back harnesses",
            "Plugin and Session are opaque: no impl under contract looks inside them",
            "std collection / wrapper models listed in trusted_base (Cell, Duration, Vec::into_boxed_slice, Arc/Rc<[T]>::from(Vec), u8::from(bool), char::from_u32)",
            "decode contract is completeness on the encoder's image + exact consumption + image equality (w.bytes()==v.bytes()); value equality follows from injectivity of the image, proved for the primitive leaves (lemma_inj_*) and structural for the constructors",
            "not under contract: String/str/Path (UTF-8 byte reasoning), VecDeque/LinkedList/BTreeMap/BTreeSet/HashMap/HashSet/DashMap/DashSet (iterator models), Cow, RefCell, atomics, [T;N]::decode (MaybeUninit), SmallVec, BitVec, Interned, derive output",
        ],
    },
}
